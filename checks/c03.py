"""C03 — check_connectivity guarantees a graph on which all geodesics are finite.

proof  : coq/Conn_Model.v (is_connected_fixed = connected.hpp as committed (fix F3, 78644c2): search from sample 0
         over the lists, then over the reversed lists; is_connected = the old code; find_neighbors = the doubling
         recursion of neighbors.hpp over an abstract exact k-NN search), coq/Conn_Spec.v (reach, strong
         connectivity, Warshall oracle, relabelling, geodesic spec), coq/Conn_Proof*.v (incl. _Order: tie-free
         order/method independence, _Dijkstra: link to C04's model of compute_shortest_distances_matrix, _Knn: link
         to C02's specification), coq/Properties_C03.v.
tie    : (a) tapkee_internal::is_connected called directly on explicit graphs — arbitrary Neighbors: lists of
         different lengths, empty lists, repeats, self-loops (small ones exhaustively, random/structured ones up to
         N = 200): decision == extracted strong_b (the spec), decision == extracted is_connected_fixed, decision
         invariant under relabelling;
         (b) find_neighbors(method, ..., k, check_connectivity = true) for all three methods over tie-free integer
         point sets (1-D and 2-D/L1; uniform, clusters of unequal density, chains, outliers, geometric gaps) and
         their permutations: the returned graph must be strongly connected (extracted strong_b on the
         implementation's own output), k is raised only if the implementation's own k-graph is not strongly
         connected, the number of neighbours must equal the model's (exact k-NN by the extracted reference search),
         number of neighbours AND neighbour sets must not depend on the order of the samples nor on the method; the
         real compute_shortest_distances_matrix (both overloads) must not contain DBL_MAX;
         (c) recursion replay: the lists find_neighbors(k_j, false) for every k_j = min(k*2^j, N-1) are fed as a
         table to the extracted find_neighbors: it must stop at the same k_j as find_neighbors(k, true), whose
         result must be that table entry (ties included, no reference search involved);
         (d) public API only (harness/c03_api.cpp, names no internal routine): Isomap and Landmark Isomap with
         check_connectivity on, on point sets whose requested-k graph is mostly NOT strongly connected: must not
         throw, coordinates finite; a failure is attributed to unreachability when the same call with k = N-1
         succeeds.  When the internal harness no longer compiles this stream becomes the search phase.
         (e) wave 2: every point set of (b) also with the metric multiplied by a power of two (2^-70 .. 2^70, exact
         in binary64) and / or supplied through a non-identity index range (begin..end over a shuffled id vector
         into a larger point table with decoy points outside the range): same number of neighbours and same
         neighbour sets required, and all the checks of (b), (c) on those calls too;
         (f) wave 2, stack depth: is_connected on generated path / cycle / two-way-chain graphs with 10^6 samples
         (driver command P, graph made from four integers) in a process whose stack limit is set explicitly to
         8 MiB: must answer (closed form, validated against the extracted strong_b for N <= 64 on every run); an
         abort is a VIOLATION (theorem dfs_stack_bounded: the search needs an explicit stack of <= N*k+1 heap
         entries and no call-stack depth); plus a source scan: no function of connected.hpp may (transitively)
         call itself, else "no longer shown" and the deep graphs are run at many more sizes.
search : all 1-D integer point sets with <= 9 points from 0..12, k = 1..3, both orders, through the real
         find_neighbors, spec on its output (model-guided: sets whose exact k-graph is reachable from one end
         but not strongly connected go first); hits are confirmed on the real geodesic matrix / Isomap.
"""
import concurrent.futures
import hashlib
import itertools
import json
import os

import vlib

PROPERTY = "C03"

TRUSTED = [
    "hand-written model Conn_Model.v tied by differential testing of the decision and of the doubling recursion "
    "(input/output on explicit graphs and on the implementation's own lists; not a proof about the C++ text; the "
    "internal stack/visited state is not observed)",
    "that connected.hpp is iterative (explicit std::stack, no function calling itself), i.e. that the stack bound of "
    "theorems dfs_stack_bounded / dfs_stack_bounded_uniform is a bound on HEAP use and the call depth is constant, is "
    "tied only by the 10^6-sample path / cycle / chain run under an explicit 8 MiB stack limit and by a textual scan "
    "of connected.hpp for (transitively) self-calling functions and lambdas (checks/c03.py scan_recursion; a "
    "heuristic parser, not a C++ front end)",
    "cc_dijkstra_finite rests on property C04's theorems about Dijkstra_Model.v (its own tie is C04's check); "
    "cc_from_c02 on C02's specification Knn_Spec.is_knn only",
    "the neighbour search itself is abstract in the theorems (exact k-NN lists = property C02 is a hypothesis); "
    "the harness uses tie-free point sets so that the exact k-NN graph is unique",
    "indices modelled as nat (negative / out-of-range entries are outside the theorems; wf is checked by the "
    "extracted wf_b on every graph the implementation returns)",
    "extraction (ExtrOcamlBasic only) + OCaml 4.13.1 + coq/extract/c03_driver.ml (parsing/printing)",
    "harness/c03.cpp (parsing, L1 distance callback on integer points, printing); harness/c03_api.cpp (public API "
    "only: tapkee::with(...).withDistance(...).embedUsing(...), built without sanitizers at -O0)",
    "finiteness of geodesics is linked to reachability by the specification is_geodesic (Conn_Spec.v); that "
    "tapkee's Dijkstra meets it is property C04",
]

METHODS = {0: "brute", 1: "vptree", 2: "covertree"}
MAX_CRASHES_PER_STREAM = 6
# the geodesic routine opens an OpenMP region per matrix: two threads exercise it without 16 spinning ones
RUN_ENV = {"OMP_NUM_THREADS": "2", "OMP_WAIT_POLICY": "passive"}
SIG_F3 = "F3-connectivity-from-sample-0"
SIG_TIES = "C03-tied-distances-order-dependent-k"


# ----------------------------------------------------------------------------- running
def run_impl(ctx, exe, lines, timeout=None, args=()):
    """Feed `lines` (one case each) to the C++ driver.  Returns a list aligned with lines:
    a token list (the words after 'R') or {'crash': text}.  A hang costs `timeout` seconds per restart and at
    most MAX_CRASHES_PER_STREAM restarts."""
    if timeout is None:
        timeout = 200 if ctx.quick else 900
    results = [None] * len(lines)
    start = 0
    guard = 0
    while start < len(lines) and guard < MAX_CRASHES_PER_STREAM:
        guard += 1
        r = ctx.run(exe, "\n".join(lines[start:]) + "\n", timeout=timeout, env=RUN_ENV, args=args)
        cur = None
        for line in r.out.splitlines():
            if line.startswith("C "):
                try:
                    cur = start + int(line[2:])
                except ValueError:
                    cur = None
            elif line.startswith("R ") and cur is not None and cur < len(lines):
                results[cur] = line.split()[1:]
        clean = r.rc == 0 and not r.timed_out
        if clean:
            break
        if cur is None:
            cur = start
        if cur >= len(lines):
            break
        if results[cur] is None:
            results[cur] = {"crash": (r.sanitizer or ("timeout" if r.timed_out else "") or r.err[-600:]
                                      or "rc=%d" % r.rc)}
            start = cur + 1
        else:
            # died after answering `cur` (e.g. at exit): nothing more to attribute
            start = cur + 1
    for i, x in enumerate(results):
        if x is None:
            # after MAX_CRASHES_PER_STREAM aborts the rest of the stream is not run (each abort costs a process)
            results[i] = {"crash": "no output for this case", "skipped": guard >= MAX_CRASHES_PER_STREAM}
    return results


def run_model(ctx, mexe, lines, timeout=900):
    if not lines:
        return []
    r = ctx.run(mexe, "\n".join(lines) + "\n", timeout=timeout)
    out = [l.split() for l in r.out.splitlines()]
    if r.rc != 0 or len(out) != len(lines):
        raise vlib.BuildError("model driver failed: rc=%s out=%d/%d %s" % (r.rc, len(out), len(lines), r.err[-400:]))
    return out


def crashed(x):
    return isinstance(x, dict)


def skipped(x):
    return isinstance(x, dict) and x.get("skipped", False)


# ----------------------------------------------------------------------------- history dependence
# Every violation found inside a stream of cases is re-run ALONE in a fresh process before it is reported.  If it
# does not reproduce there, the failure depends on earlier calls in the same process (state that outlives a call:
# a static / thread_local buffer, a cache): the replay then becomes the shortest sequence of driver lines that
# reproduces it (kind "sequence", last line judged by the specification).
STREAMS = {}


def case_key(case):
    return json.dumps(case, sort_keys=True, default=list)


def remember(case, lines, n, args=()):
    STREAMS[case_key(case)] = (lines, n, tuple(args))


def judge_line(ctx, mexe, line, ri):
    """True: the driver's answer `ri` to `line` violates the specification; False: it meets it; None: not judged"""
    if skipped(ri):
        return None
    tok = line.split()
    cmd = tok[0]
    try:
        if cmd in ("G", "H"):
            mo = run_model(ctx, mexe, [line])[0]
            if len(mo) != 7 or mo[3] != "1":
                return None
            return crashed(ri) or len(ri) != 2 or ri[1] != mo[5]
        if cmd == "P":
            N, k, shape = int(tok[1]), int(tok[2]), int(tok[3])
            if N < k + 3:
                return None
            return crashed(ri) or len(ri) != 3 or ri[1] != deep_expected(N, k, shape)
        if cmd in ("F", "WF"):
            if tok[2] != "1":
                return None
            if crashed(ri):
                return True
            rows = parse_F(ri)
            if rows is None or any(v < 0 for r in rows for v in r):
                return True
            so = run_model(ctx, mexe, [s_line(rows)])[0]
            return not (so[1] == "1" and so[2] == "1" and so[3] == "1")
    except (ValueError, IndexError):
        return None
    return None


def localise_history(ctx, exe, mexe, stats, limit=3):
    done = 0
    for idx, (case, why) in enumerate(list(ctx._violations)):
        rec = STREAMS.get(case_key(case)) if isinstance(case, dict) else None
        if not rec or done >= limit:
            continue
        done += 1
        lines, n, args = rec

        def bad(seq):
            r = run_impl(ctx, exe, seq, timeout=150, args=args)
            return judge_line(ctx, mexe, seq[-1], r[-1]) is True
        if bad([lines[n]]):
            continue                    # reproducible in a fresh process: the case itself is the replay
        stats["history_dependent"] += 1
        seq, w = None, 1
        while True:
            cand = lines[max(0, n - w):n + 1]
            if bad(cand):
                seq = cand
                break
            if w >= n:
                break
            w = min(4 * w, n)
        if seq is None:
            ctx.note("violation not reproducible alone nor after the same preceding calls (flaky): " + why[:200])
            continue
        last = seq[-1]
        pre = vlib.shrink_list(seq[:-1], lambda q: bad(q + [last]), max_steps=80) if len(seq) > 2 else seq[:-1]
        ctx._violations[idx] = (
            {"kind": "sequence", "lines": pre + [last], "args": list(args), "case": case},
            why + "  [HISTORY DEPENDENT: the same call ALONE in a fresh process meets the specification; it fails "
                  "after the %d earlier call(s) of this replay in the same process, i.e. state survives between "
                  "calls of the library]" % len(pre))


# ----------------------------------------------------------------------------- graphs
def g_line(N, k, rows):
    """explicit graph for is_connected; every list carries its own length (arbitrary Neighbors)"""
    return "H %d %s" % (N, " ".join("%d %s" % (len(r), " ".join(map(str, r))) for r in rows))


def s_line(rows):
    return "S %d %s" % (len(rows), " ".join("%d %s" % (len(r), " ".join(map(str, r))) for r in rows))


def relabel(p, rows):
    pos = {old: new for new, old in enumerate(p)}
    return [[pos[y] for y in rows[old]] for old in p]


def enum_all_lists(N, k):
    """every N-tuple of length-k lists over 0..N-1 (self-loops and repeats included)"""
    row_choices = list(itertools.product(range(N), repeat=k))
    for rows in itertools.product(row_choices, repeat=N):
        yield [list(r) for r in rows]


def enum_knn_like(N, k):
    """every N-tuple of k-subsets of the other samples (the shape a k-NN search returns)"""
    per = [[list(c) for c in itertools.combinations([j for j in range(N) if j != i], k)] for i in range(N)]
    for rows in itertools.product(*per):
        yield [list(r) for r in rows]


def enum_ragged(N, maxlen):
    """every N-tuple of lists of length 0..maxlen over 0..N-1 (lists of different lengths, empty lists)"""
    row_choices = [list(r) for ln in range(maxlen + 1) for r in itertools.product(range(N), repeat=ln)]
    for rows in itertools.product(row_choices, repeat=N):
        yield [list(r) for r in rows]


def make_ragged(rng, rows):
    """lists of different lengths from a uniform graph: drop entries, append repeats / extra edges, empty a list"""
    N = len(rows)
    out = [list(r) for r in rows]
    for _ in range(rng.randint(1, max(1, N // 2))):
        v = rng.randrange(N)
        c = rng.random()
        if c < 0.35 and out[v]:
            out[v].pop(rng.randrange(len(out[v])))
        elif c < 0.7:
            out[v].append(rng.randrange(N))
        elif c < 0.85:
            out[v] = out[v] + out[v]
        else:
            out[v] = []
    return out


def gen_graph(rng, kind, N, k):
    if kind.startswith("ragged_"):
        base = gen_graph(rng, kind[len("ragged_"):], N, k)
        return None if base is None else make_ragged(rng, base)
    if kind == "uniform":
        return [[rng.randrange(N) for _ in range(k)] for _ in range(N)]
    if kind == "knnlike":
        kk = min(k, N - 1)
        return [rng.sample([j for j in range(N) if j != i], kk) for i in range(N)] if kk > 0 else None
    if kind == "oneway":
        # two groups; edges inside each group form a cycle plus random chords, a few edges cross in ONE
        # direction only.  Sample 0 is placed in the source or in the sink group at random.
        if N < 4:
            return None
        a = rng.randrange(2, N - 1)
        order = list(range(N))
        rng.shuffle(order)
        A, B = order[:a], order[a:]
        rows = [None] * N
        for grp in (A, B):
            for idx, v in enumerate(grp):
                row = [grp[(idx + 1) % len(grp)]]
                while len(row) < k:
                    row.append(rng.choice(grp))
                rng.shuffle(row)
                rows[v] = row
        ncross = rng.randint(0, 2)
        for _ in range(ncross):
            v = rng.choice(A)
            j = rng.randrange(k)
            # never overwrite the cycle edge when k == 1
            if k > 1:
                cyc = A[(A.index(v) + 1) % len(A)]
                cand = [t for t in range(k) if rows[v][t] != cyc] or [j]
                j = rng.choice(cand)
                rows[v][j] = rng.choice(B)
        if rng.random() < 0.3:      # sometimes a back edge: strongly connected after all
            v = rng.choice(B)
            if k > 1:
                cyc = B[(B.index(v) + 1) % len(B)]
                cand = [t for t in range(k) if rows[v][t] != cyc]
                if cand:
                    rows[v][rng.choice(cand)] = rng.choice(A)
        return rows
    if kind == "cycle":
        order = list(range(N))
        rng.shuffle(order)
        rows = [None] * N
        for idx, v in enumerate(order):
            row = [order[(idx + 1) % N]] + [rng.randrange(N) for _ in range(k - 1)]
            rng.shuffle(row)
            rows[v] = row
        if rng.random() < 0.5 and N > 2:   # break the cycle at one place
            v = rng.randrange(N)
            rows[v] = [rng.choice([x for x in range(N) if x != order[(order.index(v) + 1) % N]])
                       for _ in range(k)]
        return rows
    if kind == "outlier":
        # everything strongly connected except one sample nobody points to / that points nowhere new
        if N < 3:
            return None
        rows = gen_graph(rng, "cycle", N - 1, k)
        o = N - 1
        if rng.random() < 0.5:
            rows.append([rng.randrange(N - 1) for _ in range(k)])     # o reaches all, nobody reaches o
        else:
            rows.append([o] * k)                                       # o reaches nobody
            v = rng.randrange(N - 1)
            if k > 1:
                rows[v][rng.randrange(k)] = o
            else:
                return None
        p = list(range(N))
        rng.shuffle(p)
        return relabel(p, rows)
    return None


def eval_graphs(ctx, exe, mexe, graphs, stats, with_perm_rng=None):
    """graphs: list of (N, k, rows).  Checks decision vs spec, vs model, and relabelling invariance."""
    lines = [g_line(N, k, rows) for N, k, rows in graphs]
    impl = run_impl(ctx, exe, lines)
    model = run_model(ctx, mexe, lines)
    perm_jobs = []
    for gi, ((N, k, rows), ri, mo, line) in enumerate(zip(graphs, impl, model, lines)):
        case = {"kind": "graph", "N": N, "k": k, "rows": rows}
        remember(case, lines, gi)
        if len(mo) != 7 or mo[0] != "G":
            ctx.note("model could not parse: " + line[:80])
            continue
        shipped, fixed, wf, uni, strong, first = mo[1:7]
        if wf != "1":
            continue            # outside the property's domain (generators never produce this)
        stats["graphs"] += 1
        stats["graphs_ragged"] += uni != "1"
        stats["strong"] += strong == "1"
        stats["first_not_strong"] += (first == "1" and strong == "0")
        if skipped(ri):
            continue
        if crashed(ri):
            ctx.violation(case, "is_connected aborts on a well-formed graph: " + str(ri["crash"])[:500])
            continue
        if len(ri) != 2 or ri[0] != "G" or ri[1] not in ("0", "1"):
            ctx.violation(case, "is_connected gave no decision on a well-formed graph: %r" % (ri,))
            continue
        dec = ri[1]
        if dec != strong:
            if dec == "1":
                why = ("is_connected accepts a graph that is not strongly connected: some sample cannot reach "
                       "some other sample along neighbour edges, the geodesic between them is infinite")
                sig = SIG_F3 if first == "1" else None
            else:
                why = ("is_connected rejects a strongly connected graph (the number of neighbours would be "
                       "raised although every sample reaches every other one)")
                sig = None
            ctx.violation(case, why, signature=sig)
            stats["spec_fail_graph"] += 1
        elif dec != fixed:
            ctx.mismatch(case, "is_connected: implementation %s, model is_connected_fixed %s" % (dec, fixed))
        if with_perm_rng is not None and N >= 2 and with_perm_rng.random() < 0.35:
            p = list(range(N))
            with_perm_rng.shuffle(p)
            perm_jobs.append((N, k, rows, p, dec))
    if perm_jobs:
        plines = [g_line(N, k, relabel(p, rows)) for N, k, rows, p, _ in perm_jobs]
        pimpl = run_impl(ctx, exe, plines)
        for (N, k, rows, p, dec), ri in zip(perm_jobs, pimpl):
            stats["graph_perms"] += 1
            if crashed(ri) or len(ri) != 2:
                continue        # reported by the direct evaluation of that graph if it matters
            if ri[1] != dec:
                ctx.violation({"kind": "graph_pair", "N": N, "k": k, "rows": rows, "perm": p},
                              "the connectivity decision depends on the order of the samples: %s on the graph, "
                              "%s on the same graph relabelled by perm (new position v holds old sample perm[v])"
                              % (dec, ri[1]), signature=SIG_F3)
    return len(graphs) + len(perm_jobs)


# ----------------------------------------------------------------------------- point sets
def tie_free(pts, dim):
    """every sample sees all the others at pairwise different distances"""
    N = len(pts)
    for i in range(N):
        ds = [sum(abs(pts[i][c] - pts[j][c]) for c in range(dim)) for j in range(N) if j != i]
        if len(set(ds)) != len(ds) or 0 in ds:
            return False
    return True


def make_tie_free(rng, pts, dim, scale=1000):
    """scale the lattice up and jitter until no sample has two others at the same distance"""
    for attempt in range(60):
        q = [tuple(x * scale + rng.randrange(scale // 2) for x in p) for p in pts]
        if tie_free(q, dim):
            return q
        scale *= 2
    return None


def gen_points(rng, kind, N, dim):
    pts = []
    if kind == "uniform":
        pts = [tuple(rng.randrange(0, 4 * N) for _ in range(dim)) for _ in range(N)]
    elif kind == "clusters":
        # clusters of unequal size and density, far apart relative to the densest one
        nc = rng.randint(2, 4)
        sizes = [1] * nc
        for _ in range(N - nc):
            sizes[rng.randrange(nc) if rng.random() < 0.5 else 0] += 1
        centre = [0] * dim
        for s in sizes:
            spread = rng.choice([1, 3, 10, 40])
            for _ in range(s):
                pts.append(tuple(centre[c] + rng.randrange(0, spread * s + 1) for c in range(dim)))
            centre = [centre[c] + rng.choice([50, 200, 1000]) + spread * s for c in range(dim)]
    elif kind == "chain":
        # a sparse chain leading into a dense cluster (the F3 shape), possibly with the cluster first
        nchain = max(1, min(N - 2, rng.randint(1, max(1, N // 3))))
        step = rng.choice([50, 100, 300])
        for i in range(nchain):
            pts.append(tuple([i * step] + [0] * (dim - 1)))
        base = nchain * step
        for i in range(N - nchain):
            pts.append(tuple([base + rng.randrange(0, 3 * (N - nchain))] + [rng.randrange(0, 3) for _ in range(dim - 1)]))
        if rng.random() < 0.5:
            pts.reverse()
    elif kind == "outliers":
        pts = [tuple(rng.randrange(0, 2 * N) for _ in range(dim)) for _ in range(N - 2)]
        pts.append(tuple(10000 + rng.randrange(50) for _ in range(dim)))
        pts.append(tuple(-5000 - rng.randrange(50) for _ in range(dim)))
        rng.shuffle(pts)
    elif kind == "geometric":
        # gaps growing geometrically: every sample's nearest neighbours are all on one side
        x = 0
        g = 1
        for i in range(N):
            pts.append(tuple([x] + [0] * (dim - 1)))
            x += g
            g = g * 2 if g < 10 ** 9 else g + 1
        if rng.random() < 0.5:
            pts.reverse()
        return pts if tie_free(pts, dim) else make_tie_free(rng, pts, dim)
    return make_tie_free(rng, pts, dim)


def p_line(cmd, method, cc, k, dim, pts):
    head = "%s %d " % (cmd, method) + ("%d " % cc if cmd == "F" else "")
    return head + "%d %d %d %s" % (k, dim, len(pts), " ".join(str(x) for p in pts for x in p[:dim]))


def j_line(cmd, j, cc=1):
    """the driver line of a find_neighbors job.  A job with a "wide" entry {e, table, idx} runs over the index
    range idx (ids into table, table[idx[i]] == pts[i]) with every distance multiplied by 2^e."""
    w = j.get("wide")
    if not w:
        return p_line(cmd, j["method"], cc, j["k"], j["dim"], j["pts"])
    head = "W%s %d " % (cmd, j["method"]) + ("%d " % cc if cmd == "F" else "")
    return head + "%d %d %d %d %d %s %s" % (
        j["k"], j["dim"], len(j["pts"]), w["e"], len(w["table"]), " ".join(map(str, w["idx"])),
        " ".join(str(x) for p in w["table"] for x in p[:j["dim"]]))


def make_wide(rng, pts, dim, e, index_range):
    """{e, table, idx}: index_range False -> the identity range over the samples themselves; True -> the samples
    scattered over a larger table among decoy points that are NOT part of the range (ids not contiguous, not
    increasing, not starting at 0)."""
    N = len(pts)
    if not index_range:
        return {"e": e, "table": [tuple(p) for p in pts], "idx": list(range(N))}
    T = N + rng.randint(1, 6)
    ids = list(range(T))
    rng.shuffle(ids)
    idx = ids[:N]
    lo = min(x for p in pts for x in p)
    table = [tuple(lo - 1 - rng.randrange(3) for _ in range(dim)) for _ in range(T)]   # decoys sit next to the data
    for i, p in zip(idx, pts):
        table[i] = tuple(p)
    return {"e": e, "table": table, "idx": idx}


def m_line(cmd, k, dim, pts):
    return "%s %d %d %d %s" % (cmd, k, dim, len(pts), " ".join(str(x) for p in pts for x in p[:dim]))


def parse_lists(tok, i):
    """tok[i:] = N, len0, e.., len1, e.., ... -> (rows, next index) or (None, i)"""
    try:
        N = int(tok[i])
        if N < 0 or N > 100000:
            return None, i
        rows, i = [], i + 1
        for _ in range(N):
            ln = int(tok[i])
            if ln < 0 or ln > 100000:
                return None, i
            rows.append([int(x) for x in tok[i + 1:i + 1 + ln]])
            if len(rows[-1]) != ln:
                return None, i
            i += 1 + ln
        return rows, i
    except (ValueError, IndexError):
        return None, i


def parse_F(tok):
    """['F', N, len0, e.., len1, e.., ...] -> rows or None"""
    if not tok or tok[0] != "F":
        return None
    rows, i = parse_lists(tok, 1)
    return rows if rows is not None and i == len(tok) else None


def parse_X(tok):
    """['X', <lists>, 'T', n, (k_j <lists>)*] -> (rows, [(k_j, rows_j)]) or None"""
    try:
        if not tok or tok[0] != "X":
            return None
        rows, i = parse_lists(tok, 1)
        if rows is None or tok[i] != "T":
            return None
        n = int(tok[i + 1])
        i += 2
        table = []
        for _ in range(n):
            kj = int(tok[i])
            rj, i = parse_lists(tok, i + 1)
            if rj is None:
                return None
            table.append((kj, rj))
        return (rows, table) if i == len(tok) else None
    except (ValueError, IndexError):
        return None


def lists_body(rows):
    return "%d %s" % (len(rows), " ".join("%d %s" % (len(r), " ".join(map(str, r))) for r in rows))


def recursion_replay(ctx, exe, mexe, jobs, stats):
    """The doubling recursion against the implementation's OWN lists: find_neighbors(k, true) and the lists
    find_neighbors(k_j, false) for every k_j = min(k*2^j, N-1); the extracted find_neighbors (connected.hpp
    model) run over that table must stop at the same k_j, and the result must be that k_j's lists.  Works with
    ties (no reference search involved).  The VP-tree draws random vantage points, so with ties two calls may
    legitimately return different lists: for it only tie-free jobs are compared."""
    jobs = [j for j in jobs if j["method"] != 1 or tie_free(j["pts"], j["dim"])]
    if not jobs:
        return 0
    lines = [j_line("X", j, 0) for j in jobs]
    impl = run_impl(ctx, exe, lines)
    ml, mi = [], []
    parsed = {}
    for n, (j, ri) in enumerate(zip(jobs, impl)):
        if skipped(ri):
            continue
        if crashed(ri):
            ctx.violation(dict(j, kind="points"), "find_neighbors aborts / hangs on distinct samples: "
                          + str(ri["crash"])[:500])
            continue
        px = parse_X(ri)
        if px is None or any(v < 0 for r in px[0] for v in r) or any(v < 0 for _, g in px[1] for r in g for v in r):
            ctx.violation(dict(j, kind="points"), "find_neighbors returned malformed neighbour lists: %s"
                          % " ".join(ri)[:300])
            continue
        parsed[n] = px
        ml.append("X %d %d T %d %s" % (j["k"], len(j["pts"]), len(px[1]),
                                       " ".join("%d %s" % (kj, lists_body(g)) for kj, g in px[1])))
        mi.append(n)
    for n, mo in zip(mi, run_model(ctx, mexe, ml)):
        j = jobs[n]
        rows, table = parsed[n]
        stats["recursion_replays"] += 1
        if len(mo) != 2 or mo[0] != "X":
            raise vlib.BuildError("model driver: unexpected answer %r" % (mo,))
        len0 = len(rows[0]) if rows else -1
        case = dict(j, kind="points")
        if mo[1] != str(len0):
            ctx.mismatch(case, "doubling recursion over the implementation's own lists (k_j = %s): implementation "
                               "stops at %d neighbours, model of find_neighbors/is_connected at %s"
                         % ([kj for kj, _ in table], len0, mo[1]))
            continue
        want = dict(table).get(len0)
        if want is None or [sorted(r) for r in want] != [sorted(r) for r in rows]:
            ctx.mismatch(case, "find_neighbors(k, true) returned lists that are not the lists of "
                               "find_neighbors(%d, false)" % len0)
    return len(jobs)


def spec_points(ctx, exe, mexe, jobs, stats, check_model=True, check_geodesics=True):
    """jobs: list of dicts {dim, pts, k, method}.  Runs find_neighbors with check_connectivity = true and
    applies the specification to its output.  Returns the list of returned list lengths (None if failed)."""
    if not jobs:
        return []
    lines = [j_line("F", j, 1) for j in jobs]
    impl = run_impl(ctx, exe, lines)
    rows_of, slines, sidx = [None] * len(jobs), [], []
    for n, (j, ri) in enumerate(zip(jobs, impl)):
        case = dict(j, kind="points")
        remember(case, lines, n)
        if skipped(ri):
            continue
        if crashed(ri):
            ctx.violation(case, "find_neighbors(check_connectivity = true) aborts / hangs on distinct samples: "
                          + str(ri["crash"])[:500])
            continue
        rows = parse_F(ri)
        if rows is None or len(rows) != len(j["pts"]) or any(v < 0 for r in rows for v in r):
            ctx.violation(case, "find_neighbors returned malformed neighbour lists: %s" % " ".join(ri)[:300])
            continue
        rows_of[n] = rows
        slines.append(s_line(rows))
        sidx.append(n)
    lens = [None] * len(jobs)
    need_k_graph = []
    for n, so in zip(sidx, run_model(ctx, mexe, slines)):
        j = jobs[n]
        case = dict(j, kind="points")
        N = len(j["pts"])
        kmin = min(j["k"], N - 1)
        stats["point_runs"] += 1
        if so[0] != "S" or len(so) != 6:
            raise vlib.BuildError("model driver: unexpected answer %r" % (so,))
        wf, uni, strong, first, len0 = so[1], so[2], so[3], so[4], int(so[5])
        if wf != "1" or uni != "1":
            ctx.violation(case, "find_neighbors returned lists that are not N uniform lists of sample indices "
                                "(wf=%s uniform=%s)" % (wf, uni))
            continue
        lens[n] = len0
        stats["raised"] += len0 > kmin
        if strong != "1":
            ctx.violation(case, "find_neighbors(check_connectivity = true) returned %d-neighbour lists whose graph "
                                "is NOT strongly connected: some geodesics are infinite" % len0,
                          signature=SIG_F3 if first == "1" else None)
            stats["spec_fail_points"] += 1
            continue
        if len0 < kmin or len0 > max(N - 1, 0):
            ctx.violation(case, "find_neighbors returned %d neighbours for requested k=%d, N=%d" % (len0, j["k"], N))
            continue
        if len0 > kmin:
            need_k_graph.append(n)
    # k may be raised only if the implementation's own k-graph lacks strong connectivity
    if need_k_graph:
        l0 = [j_line("F", jobs[n], 0) for n in need_k_graph]
        i0 = run_impl(ctx, exe, l0)
        sl, si = [], []
        for n, ri in zip(need_k_graph, i0):
            rows = None if crashed(ri) else parse_F(ri)
            if rows is None:
                continue
            sl.append(s_line(rows))
            si.append(n)
        for n, so in zip(si, run_model(ctx, mexe, sl)):
            if so[1] == "1" and so[2] == "1" and so[3] == "1":
                ctx.violation(dict(jobs[n], kind="points"),
                              "the number of neighbours was raised from %d to %d although the implementation's own "
                              "%d-neighbour graph is strongly connected" % (jobs[n]["k"], lens[n], jobs[n]["k"]))
    # correspondence: the model over the exact k-NN graphs uses the same number of neighbours
    if check_model:
        ml = [m_line("F", j["k"], j["dim"], j["pts"]) for j in jobs]
        for n, (j, mo) in enumerate(zip(jobs, run_model(ctx, mexe, ml))):
            if lens[n] is None:
                continue
            if mo[0] != "F" or len(mo) != 3:
                raise vlib.BuildError("model driver: unexpected answer %r" % (mo,))
            if mo[1] != str(lens[n]):
                ctx.mismatch(dict(j, kind="points"),
                             "number of neighbours: implementation %d, model (is_connected_fixed over exact k-NN) %s"
                             % (lens[n], mo[1]))
            stats["model_shipped_differs"] += mo[1] != mo[2]
    # the real geodesic matrix
    if check_geodesics:
        dl = [j_line("D", j, 0) for j in jobs]
        for j, ri in zip(jobs, run_impl(ctx, exe, dl)):
            if crashed(ri):
                continue    # already reported above if find_neighbors itself fails
            if len(ri) == 5 and ri[0] == "D":
                if ri[2] != "0" or ri[3] != "0" or ri[4] != "0":
                    ctx.violation(dict(j, kind="points"),
                                  "compute_shortest_distances_matrix on the lists returned with check_connectivity = "
                                  "true has %s entries equal to DBL_MAX and %s non-finite entries (landmark overload, "
                                  "landmarks 0,2,4,..: %s)" % (ri[2], ri[3], ri[4]), signature=SIG_F3)
                stats["geodesic_matrices"] += 1
            else:
                ctx.violation(dict(j, kind="points"), "compute_shortest_distances_matrix gave no result: %s"
                              % " ".join(ri)[:200])
    spec_points.last_rows = rows_of
    return lens


SCALE_EXPONENTS = (-70, -52, -23, -1, 1, 23, 52, 70)


def variant_text(j):
    """how a job differs from the base of its group, for the messages"""
    w = j.get("wide")
    parts = []
    if j["perm_of_base"] != list(range(len(j["perm_of_base"]))):
        parts.append("the same samples in the order perm")
    if w and w["e"] != 0:
        parts.append("every distance multiplied by 2^%d" % w["e"])
    if w and w["idx"] != list(range(len(w["table"]))):
        parts.append("begin..end running over the id vector wide.idx into the point table wide.table instead of "
                     "0..N-1")
    return ", ".join(parts) or "the same call again"


def eval_points(ctx, exe, mexe, bases, rng, stats, nperm=2, nwide=2):
    """bases: list of {dim, pts, k}: every method, plus permutations of the samples, plus (nwide) the same samples
    with the metric scaled by a power of two and / or supplied through a non-identity index range: the same
    decision and the same neighbour sets are required of all of them (tie-free data: the exact lists are unique
    and depend only on the order structure of the metric)."""
    jobs, groups = [], []
    for b in bases:
        N = len(b["pts"])
        ident = list(range(N))
        perms = [ident]
        rev = list(range(N - 1, -1, -1))
        if nperm >= 1:
            perms.append(rev)
        for _ in range(max(0, nperm - 1)):
            p = list(range(N))
            rng.shuffle(p)
            perms.append(p)
        wides = []
        if nwide >= 1:      # scaled metric, identity range, original order
            wides.append((rng.choice(SCALE_EXPONENTS), False, ident))
        if nwide >= 2:      # non-identity index range (half of them also scaled / permuted)
            p = list(range(N))
            if rng.random() < 0.5:
                rng.shuffle(p)
            wides.append((rng.choice((0, 0) + SCALE_EXPONENTS), True, p))
        for m in b.get("methods", (0, 1, 2)):
            g = []
            for p in perms:
                g.append(len(jobs))
                jobs.append({"dim": b["dim"], "pts": [b["pts"][i] for i in p], "k": b["k"], "method": m,
                             "perm_of_base": p})
            for e, index_range, p in wides:
                q = [b["pts"][i] for i in p]
                g.append(len(jobs))
                jobs.append({"dim": b["dim"], "pts": q, "k": b["k"], "method": m, "perm_of_base": p,
                             "wide": make_wide(rng, q, b["dim"], e, index_range)})
                stats["wide_scaled"] += e != 0
                stats["wide_index_range"] += bool(index_range)
            groups.append(g)
    lens = spec_points(ctx, exe, mexe, jobs, stats)
    rows_of = spec_points.last_rows
    for g in groups:
        base = jobs[g[0]]
        for n in g[1:]:
            stats["point_perms"] += 1
            pair = {"kind": "points_pair", "dim": base["dim"], "pts": base["pts"], "k": base["k"],
                    "method": base["method"], "perm": jobs[n]["perm_of_base"]}
            if jobs[n].get("wide"):
                pair["wide"] = jobs[n]["wide"]
            how = variant_text(jobs[n])
            if lens[g[0]] is not None and lens[n] is not None and lens[n] != lens[g[0]]:
                ctx.violation(pair,
                              "the number of neighbours chosen by check_connectivity changes although the samples and "
                              "the order structure of the metric are the same: %d for pts, %d with %s (method %s)"
                              % (lens[g[0]], lens[n], how, METHODS[base["method"]]), signature=SIG_F3)
            elif rows_of[g[0]] is not None and rows_of[n] is not None:
                # cc_order_independent: on tie-free data the neighbour SETS are the renamed sets
                p = jobs[n]["perm_of_base"]
                a = [sorted(r) for r in rows_of[g[0]]]
                b = [sorted(p[u] for u in rows_of[n][v]) for v in sorted(range(len(p)), key=lambda v: p[v])]
                stats["edge_set_comparisons"] += 1
                if a != b:
                    ctx.violation(pair, "the neighbour lists returned with check_connectivity = true change (tie-free "
                                        "data, method %s; %s): not the same neighbour sets after renaming"
                                  % (METHODS[base["method"]], how))
    # across methods the exact k-NN graph of tie-free data is the same, so is the decision
    by_base = {}
    for g in groups:
        j = jobs[g[0]]
        by_base.setdefault((j["dim"], tuple(j["pts"]), j["k"]), []).append((j["method"], lens[g[0]]))
    for key, ml in by_base.items():
        vals = {l for _, l in ml if l is not None}
        if len(vals) > 1:
            ctx.mismatch({"kind": "points", "dim": key[0], "pts": list(key[1]), "k": key[2], "method": 0},
                         "the three neighbour methods disagree on the number of neighbours: %r" % (ml,))
    # cc_method_independent: and the same neighbour sets
    sets_by_base = {}
    for g in groups:
        j = jobs[g[0]]
        if rows_of[g[0]] is not None:
            sets_by_base.setdefault((j["dim"], tuple(j["pts"]), j["k"]), []).append(
                (j["method"], [sorted(r) for r in rows_of[g[0]]]))
    for key, ml in sets_by_base.items():
        stats["method_set_comparisons"] += len(ml) - 1
        if any(x[1] != ml[0][1] for x in ml[1:]):
            ctx.mismatch({"kind": "points", "dim": key[0], "pts": list(key[1]), "k": key[2], "method": 0},
                         "the neighbour methods return different neighbour sets on tie-free data (methods %r)"
                         % ([x[0] for x in ml],))
    nrec = recursion_replay(ctx, exe, mexe, jobs, stats)
    return len(jobs) + nrec


# ----------------------------------------------------------------------------- search phase
def small_sets(max_pts=9, top=12, min_pts=4):
    for s in range(min_pts, max_pts + 1):
        for c in itertools.combinations(range(top + 1), s):
            yield [(x,) for x in c]


def search_small_sets(ctx, exe, mexe, stats, budget, rng):
    """1-D integer point sets with <= 9 points from 0..12 through the real find_neighbors; the extracted
    model (exact k-graph: reachable from sample 0 but not strongly connected) says which go first."""
    sets = list(small_sets())
    cand = []
    for k in (3, 2, 1):
        for pts in sets:
            if len(pts) > k + 1:
                cand.append((k, pts))
                cand.append((k, list(reversed(pts))))
    kl = [m_line("K", k, 1, pts) for k, pts in cand]
    mo = run_model(ctx, mexe, kl)
    guided = [c for c, o in zip(cand, mo) if o[0] == "K" and o[2] == "0" and o[3] == "1"]
    others = [c for c, o in zip(cand, mo) if not (o[0] == "K" and o[2] == "0" and o[3] == "1")]
    stats["search_sets_total"] = len(cand)
    stats["search_sets_guided"] = len(guided)
    rng.shuffle(others)
    # ties are frequent on this lattice: only the tie-robust part of the spec is applied (no model comparison)
    order = guided + others
    order = order[:budget]
    jobs = [{"dim": 1, "pts": pts, "k": k, "method": 0} for k, pts in order]
    n = 0
    for i in range(0, len(jobs), 4000):
        spec_points(ctx, exe, mexe, jobs[i:i + 4000], stats, check_model=False, check_geodesics=(i == 0))
        n += len(jobs[i:i + 4000])
        if i == 0:
            # the recursion against the implementation's own lists, ties included (brute force is deterministic)
            n += recursion_replay(ctx, exe, mexe, jobs[:400] + [dict(j, method=2) for j in jobs[:200]], stats)
        if ctx.has_violation() and i >= 4000:
            break
    stats["search_sets_run"] = n
    return n


def confirm_with_isomap(ctx, case, stats):
    """run the real Isomap (public API driver) on a violating point set and on the same samples reversed"""
    try:
        api = ctx.cpp("harness/c03_api.cpp", **API_BUILD)
    except vlib.BuildError as ex:
        ctx.note("Isomap confirmation build failed: " + str(ex)[-300:])
        return None
    N = len(case["pts"])
    if N < 5:
        return None
    k = max(3, min(case["k"], N - 1))
    j = {"dim": case["dim"], "pts": [tuple(p) for p in case["pts"]], "k": k, "method": case.get("method", 0),
         "api_method": 0}
    res = run_impl(ctx, api, [a_line(j), a_line(dict(j, pts=list(reversed(j["pts"]))))], timeout=300)
    txt = "Isomap(k=%d) on the replay samples: %s ; on the same samples reversed: %s" % (
        k, res[0] if crashed(res[0]) else " ".join(res[0]), res[1] if crashed(res[1]) else " ".join(res[1]))
    ctx.note(txt)
    stats["isomap_confirmation"] = txt
    return txt


def shrink_points(ctx, exe, mexe, case):
    """fewer samples while find_neighbors still returns a graph that is not strongly connected"""
    w = case.get("wide")

    def job_of(items):
        j = dict(case, pts=[a for a, _ in items])
        if w:
            j["wide"] = dict(w, idx=[b for _, b in items])
        return j

    def fails(items):
        if len(items) < 2:
            return False
        ri = run_impl(ctx, exe, [j_line("F", job_of(items), 1)], timeout=60)[0]
        if crashed(ri):
            return False
        rows = parse_F(ri)
        if rows is None:
            return False
        so = run_model(ctx, mexe, [s_line(rows)])[0]
        return so[1] == "1" and so[2] == "1" and so[3] == "0"
    pts = [tuple(p) for p in case["pts"]]
    items = list(zip(pts, w["idx"] if w else range(len(pts))))
    if not fails(items):
        return case
    return job_of(vlib.shrink_list(items, fails, max_steps=120))



# ----------------------------------------------------------------------------- public API stream
API_METHODS = {0: "Isomap", 1: "LandmarkIsomap"}


def a_line(j):
    w = j.get("wide")
    if w:
        return "AW %d %d %d %d %d %d %d %s %s" % (
            j["api_method"], j["method"], j["k"], j["dim"], len(j["pts"]), w["e"], len(w["table"]),
            " ".join(map(str, w["idx"])), " ".join(str(x) for p in w["table"] for x in p[:j["dim"]]))
    return "A %d %d %d %d %d %s" % (j["api_method"], j["method"], j["k"], j["dim"], len(j["pts"]),
                                    " ".join(str(x) for p in j["pts"] for x in p[:j["dim"]]))


def api_ok(ri):
    return (not crashed(ri)) and ri[:3] == ["A", "ok", "0"]


def api_jobs_from(bases, per_base=2, rng=None):
    """Isomap / Landmark Isomap jobs from point sets: the library accepts 3 <= k < N.  With rng: every second
    base once more through a non-identity index range with a scaled metric (command AW)."""
    jobs = []
    for i, b in enumerate(bases):
        N = len(b["pts"])
        if N < 5:
            continue
        k = max(3, min(b["k"], N - 1))
        for t in range(per_base):
            jobs.append({"kind": "api", "dim": b["dim"], "pts": b["pts"], "k": k, "method": (i + t) % 3,
                         "api_method": t % 2})
        if rng is not None and i % 2 == 0:
            jobs.append({"kind": "api", "dim": b["dim"], "pts": b["pts"], "k": k, "method": i % 3,
                         "api_method": (i // 2) % 2,
                         "wide": make_wide(rng, b["pts"], b["dim"], rng.choice((-23, 0, 0, 23)), True)})
    return jobs


def api_eval(ctx, api, mexe, jobs, stats, stop_after=None):
    """Runs the public-API driver on jobs.  A failure (exception / non-finite / abort) is a violation of C03 when
    the same call with k = N-1 (complete graph: nothing can be unreachable) succeeds; otherwise it is recorded."""
    if not jobs:
        return 0
    if mexe is not None:
        kl = [m_line("K", j["k"], j["dim"], j["pts"]) for j in jobs]
        for j, o in zip(jobs, run_model(ctx, mexe, kl)):
            stats["api_k_graph_not_strong"] += (o[0] == "K" and o[2] == "0")
    n = 0
    for i in range(0, len(jobs), 200):
        chunk = jobs[i:i + 200]
        res = run_impl(ctx, api, [a_line(j) for j in chunk], timeout=150)
        bad = [(j, ri) for j, ri in zip(chunk, res) if not skipped(ri) and not api_ok(ri)]
        n += len(chunk)
        stats["api_runs"] += sum(1 for ri in res if not skipped(ri))
        if bad:
            ctrl = [dict(j, k=len(j["pts"]) - 1) for j, _ in bad]
            cres = run_impl(ctx, api, [a_line(j) for j in ctrl], timeout=150)
            for (j, ri), cr in zip(bad, cres):
                what = str(ri["crash"])[:300] if crashed(ri) else " ".join(ri)[:300]
                if api_ok(cr):
                    ctx.violation(dict(j), "%s (public API, check_connectivity = true, %s neighbours, k = %d) fails "
                                  "or returns non-finite values: %s ; the same call with k = N-1 succeeds, so the "
                                  "failure comes from samples that are mutually unreachable in the graph the method "
                                  "walks" % (API_METHODS[j["api_method"]], METHODS[j["method"]], j["k"], what),
                                  signature=SIG_F3)
                    stats["api_violations"] += 1
                else:
                    stats["api_other_failures"] += 1
                    ctx.note("public API failure not attributable to connectivity (k = N-1 fails too): %s k=%d: %s"
                             % (API_METHODS[j["api_method"]], j["k"], what))
        if stop_after is not None and stats["api_violations"] >= stop_after:
            break
    return n


def shrink_api(ctx, api, case):
    w = case.get("wide")

    def job_of(items):
        j = dict(case, pts=[a for a, _ in items])
        if w:
            j["wide"] = dict(w, idx=[b for _, b in items])
        return j

    def fails(items):
        if len(items) < 5:
            return False
        j = job_of(items)
        r = run_impl(ctx, api, [a_line(j), a_line(dict(j, k=len(items) - 1))], timeout=120)
        return (not skipped(r[0])) and (not api_ok(r[0])) and api_ok(r[1])
    pts = [tuple(p) for p in case["pts"]]
    items = list(zip(pts, w["idx"] if w else range(len(pts))))
    if not fails(items):
        return case
    return job_of(vlib.shrink_list(items, fails, max_steps=150))


def api_search(ctx, api, mexe, stats, rng, budget):
    """search phase through the public API alone (used when the internal harness does not build): clustered /
    chain / outlier point sets with small k, and the small 1-D lattice sets whose exact 3-graph is not strongly
    connected according to the extracted model"""
    bases = []
    pk = ["clusters", "clusters", "chain", "chain", "outliers", "geometric", "uniform"]
    while len(bases) < budget:
        kind = rng.choice(pk)
        dim = rng.choice([1, 1, 2])
        N = rng.choice([6, 8, 9, 12, 16, 24, 40])
        pts = gen_points(rng, kind, N, dim)
        if pts is None or len(set(pts)) != len(pts):
            continue
        bases.append({"dim": dim, "pts": pts, "k": rng.choice([3, 3, 3, 4, 5])})
    n = api_eval(ctx, api, mexe, api_jobs_from(bases, rng=rng), stats, stop_after=3)
    if not ctx.has_violation() and mexe is not None:
        cand = [(3, pts) for pts in small_sets(max_pts=9, top=12, min_pts=5)]
        mo = run_model(ctx, mexe, [m_line("K", k, 1, pts) for k, pts in cand])
        guided = [c for c, o in zip(cand, mo) if o[0] == "K" and o[2] == "0"]
        jobs = [{"kind": "api", "dim": 1, "pts": pts, "k": k, "method": i % 3, "api_method": i % 2}
                for i, (k, pts) in enumerate(guided[:4 * budget])]
        n += api_eval(ctx, api, mexe, jobs, stats, stop_after=3)
    return n


def boundary_tie(ctx, mexe, pts, dim, ks):
    """some sample has a tie at the boundary of its k-NN list for some k in ks (sorted distances ds of the
    sample: ds[k-1] == ds[k]): decided by the EXTRACTED boundary_free_b (Conn_Spec.v), the function theorem
    boundary_free_unique is about: boundary free -> the exact lists are unique as sets"""
    line = "B %d %s %d %d %s" % (len(ks), " ".join(map(str, ks)), dim, len(pts),
                                 " ".join(str(x) for p in pts for x in p[:dim]))
    mo = run_model(ctx, mexe, [line])[0]
    if mo[0] != "B" or len(mo) != len(ks) + 2:
        raise vlib.BuildError("model driver: unexpected answer %r" % (mo,))
    return any(b == "0" for b in mo[1:1 + len(ks)])


def k_sequence(k, N, upto):
    ks, kj = [], min(k, N - 1)
    while True:
        ks.append(kj)
        if kj >= N - 1 or kj >= upto or kj <= 0:
            break
        kj = min(2 * kj, N - 1)
    return ks


def eval_order_pairs_with_ties(ctx, exe, mexe, stats, pairs):
    """pairs: (k, pts, method) on data that may contain tied distances.  The samples are supplied forwards and
    backwards.  A different number of neighbours is the KNOWN FINDING (signature SIG_TIES) exactly when some
    sample has a tie at the boundary of its k_j-NN list for a k_j the recursion went through (the exact lists
    are then not unique, cc_order_ties_refuted); without such a tie the lists are unique and a difference is a
    VIOLATION (theorems cc_different_k_needs_tie + boundary_free_unique: different numbers of neighbours from two
    exact searches imply a boundary tie at some k_j <= the smaller result)."""
    lines = []
    for k, pts, m in pairs:
        lines.append(p_line("F", m, 1, k, 1, pts))
        lines.append(p_line("F", m, 1, k, 1, list(reversed(pts))))
    res = run_impl(ctx, exe, lines)
    for i, (k, pts, m) in enumerate(pairs):
        a, b = res[2 * i], res[2 * i + 1]
        ra, rb = (None if crashed(a) else parse_F(a)), (None if crashed(b) else parse_F(b))
        if not ra or not rb:
            continue            # aborts are judged by the streams that own these inputs
        stats["tied_pairs"] += 1
        ka, kb = len(ra[0]), len(rb[0])
        if ka == kb:
            continue
        N = len(pts)
        case = {"kind": "points_pair", "dim": 1, "pts": pts, "k": k, "method": m, "perm": list(range(N - 1, -1, -1))}
        if boundary_tie(ctx, mexe, pts, 1, k_sequence(k, N, min(ka, kb))):
            stats["tied_order_dependent"] += 1
            if not any(e.get("kind") == "finding" and e.get("signature") == SIG_TIES for e in ctx._known_db):
                continue        # not registered as a known finding: counted, never a verdict
            ctx.violation(case, "tied distances: %d neighbours for the samples %s, %d for the same samples supplied "
                                "backwards (method %s); some sample has a tie at the boundary of its k-NN list, the "
                                "exact lists are not unique" % (ka, [p[0] for p in pts], kb, METHODS[m]),
                          signature=SIG_TIES)
        else:
            ctx.violation(case, "the number of neighbours depends on the order of the samples although no sample has "
                                "a tie at the boundary of its k-NN list (exact lists unique): %d forwards, %d backwards "
                                "(method %s)" % (ka, kb, METHODS[m]), signature=SIG_F3)
    return len(lines)


def probe_tied_order(ctx, exe, mexe, stats, rng, quick):
    """the registered example 0,1,2,3,6 with k = 3 through the three methods, then lattice sets with ties"""
    pts = [(0,), (1,), (2,), (3,), (6,)]
    pairs = [(3, pts, m) for m in (0, 1, 2)]
    sets = [c for c in small_sets(max_pts=7, top=9, min_pts=5)]
    rng.shuffle(sets)
    for c in sets[:60 if quick else 600]:
        pairs.append((rng.choice([1, 2, 3]), c, rng.choice([0, 0, 2])))
    return eval_order_pairs_with_ties(ctx, exe, mexe, stats, pairs)


# ----------------------------------------------------------------------------- stack depth: deep graphs + source scan
DEEP_SHAPES = {0: "path i -> i+1..i+k", 1: "cycle i -> i+1..i+k (mod N)", 2: "two-way chain i -> i-1, i+1"}
DEEP_STACK_KIB = 8192
DEEP_MOD = 2305843009213693951


def deep_entry(N, k, shape, i, j):
    """the generator of driver command P (harness/c03.cpp deep_entry), in Python"""
    if shape == 1:
        t = (i + j + 1) % N
    elif shape == 2:
        lo = 1 if i == 0 else i - 1
        hi = i + 1 if i + 1 < N else i - 1
        t = lo if j == 0 else hi
    else:
        t = i + j + 1
        if t >= N:
            t = i - (t - N + 1)
    return min(max(t, 0), N - 1)


def deep_rows(N, k, shape, rev):
    if not rev:
        return [[deep_entry(N, k, shape, v, j) for j in range(k)] for v in range(N)]
    return [[N - 1 - deep_entry(N, k, shape, N - 1 - v, j) for j in range(k)] for v in range(N)]


def deep_checksum(rows):
    s = 0
    for v, r in enumerate(rows):
        a = (v % 1000003) * 31 + 7
        for j, e in enumerate(r):
            s += (a + j * 17) * (e + 1)
    return s % DEEP_MOD


def deep_expected(N, k, shape):
    """strong connectivity of the generated graph in closed form, for N >= k + 3 (validated against the extracted
    strong_b on every run for the small N of deep_small_cases): the path has no edge into sample 0; the cycle and
    the two-way chain (k >= 2) are strongly connected"""
    if shape == 0:
        return "0"
    if shape == 1:
        return "1"
    return "1" if k >= 2 else "0"


def deep_line(c):
    return "P %d %d %d %d" % (c["N"], c["k"], c["shape"], c["rev"])


def deep_small_cases():
    out = []
    for k in (1, 2, 3):
        for shape in (0, 1, 2):
            for N in list(range(k + 3, 13)) + [17, 33, 64]:
                for rev in (0, 1):
                    out.append({"kind": "deep", "N": N, "k": k, "shape": shape, "rev": rev,
                                "stack_kib": DEEP_STACK_KIB})
    return out


def deep_eval(ctx, exe, mexe, cases, stats, ladder=True):
    """is_connected on generated graphs in a process whose stack limit is set explicitly to 8 MiB.
    small N: the generator here == the generator of the driver (checksum), closed form == extracted strong_b on the
    same lists, decision == strong_b.  large N: decision == closed form; an abort / hang is a violation with the
    four integers as the replay (the search must not need call-stack depth: theorem dfs_stack_bounded says the
    explicit stack is all it needs)."""
    if not cases:
        return 0
    args = ("--stack-kib", str(DEEP_STACK_KIB))
    if crashed(run_impl(ctx, exe, ["P 8 1 1 0"], timeout=60, args=args)[0]) and \
            not crashed(run_impl(ctx, exe, ["P 8 1 1 0"], timeout=60)[0]):
        # setrlimit / re-exec not possible in this environment: the inherited limit is used (recorded)
        ctx.note("the driver could not set its stack limit explicitly (--stack-kib): deep graphs run under the "
                 "inherited limit")
        args = ()
    res = run_impl(ctx, exe, [deep_line(c) for c in cases], timeout=240, args=args)
    small = [(c, deep_rows(c["N"], c["k"], c["shape"], c["rev"])) for c in cases if c["N"] <= 64]
    spec = {}
    if small:
        mo = run_model(ctx, mexe, [g_line(c["N"], c["k"], rows) for c, rows in small], timeout=300)
        for (c, rows), o in zip(small, mo):
            if len(o) != 7 or o[0] != "G" or o[3] != "1":
                raise vlib.BuildError("model driver: unexpected answer on a generated graph %r" % (o,))
            spec[deep_line(c)] = o[5]
            if c["N"] >= c["k"] + 3 and o[5] != deep_expected(c["N"], c["k"], c["shape"]):
                raise vlib.BuildError("closed form for generated graph %s disagrees with extracted strong_b"
                                      % deep_line(c))
            stats["deep_small"] += 1
    crashed_cases = []
    dlines = [deep_line(c) for c in cases]
    for di, (c, ri) in enumerate(zip(cases, res)):
        remember(c, dlines, di, args)
        if skipped(ri):
            continue
        stats["deep_runs"] += 1
        what = "%d samples, %s, k = %d%s" % (c["N"], DEEP_SHAPES[c["shape"]], c["k"],
                                             ", samples numbered backwards" if c["rev"] else "")
        if crashed(ri):
            stats["deep_crashes"] += 1
            crashed_cases.append((c, ri))
            continue
        if len(ri) != 3 or ri[0] != "P" or ri[1] not in ("0", "1"):
            ctx.violation(c, "is_connected gave no decision on a well-formed graph (%s): %r" % (what, ri))
            continue
        want = spec.get(deep_line(c), deep_expected(c["N"], c["k"], c["shape"]))
        if c["N"] <= 200000:
            if ri[2] != str(deep_checksum(deep_rows(c["N"], c["k"], c["shape"], c["rev"]))):
                raise vlib.BuildError("graph generator of harness/c03.cpp and of checks/c03.py differ on " + deep_line(c))
        if ri[1] != want:
            ctx.violation(c, "is_connected %s a graph that is %sstrongly connected (%s)"
                          % ("accepts" if ri[1] == "1" else "rejects", "" if want == "1" else "NOT ", what))
    # an abort: look for a smaller N of the same shape that aborts too (smaller replay), report the smallest
    for c, ri in crashed_cases[:2]:
        best, btxt = c, str(ri["crash"])
        if ladder and c["N"] > 3000:
            lad = [dict(c, N=n) for n in (1000, 3000, 10000, 30000, 100000, 300000) if n < c["N"]]
            lres = run_impl(ctx, exe, [deep_line(x) for x in lad], timeout=240, args=args)
            stats["deep_runs"] += len(lad)
            for x, r in zip(lad, lres):
                if crashed(r) and not skipped(r):
                    best, btxt = x, str(r["crash"])
                    break
        ctx.violation(best, "is_connected aborts / hangs on a well-formed graph (%d samples, %s, k = %d%s; stack limit "
                      "%d KiB set explicitly; first seen with %d samples): %s.  The search of connected.hpp must not "
                      "need call-stack depth that grows with the number of samples (model: explicit stack of at most "
                      "N*k+1 entries, theorem dfs_stack_bounded)"
                      % (best["N"], DEEP_SHAPES[best["shape"]], best["k"],
                         ", samples numbered backwards" if best["rev"] else "", DEEP_STACK_KIB, c["N"], btxt[:400]))
    for c, ri in crashed_cases[2:]:
        ctx.note("also aborts: " + deep_line(c))
    return len(cases)


def deep_cases(quick, wide_search=False):
    cs = []
    big = 1000000
    for k, shape, rev in ((1, 0, 0), (1, 1, 0), (1, 1, 1), (2, 2, 0), (2, 2, 1), (2, 1, 0)):
        cs.append({"kind": "deep", "N": big, "k": k, "shape": shape, "rev": rev, "stack_kib": DEEP_STACK_KIB})
    if wide_search or not quick:
        for n in (2000, 10000, 50000, 200000, 4000000):
            for k, shape, rev in ((1, 1, 0), (2, 2, 1), (3, 0, 0), (2, 1, 1)):
                cs.append({"kind": "deep", "N": n, "k": k, "shape": shape, "rev": rev, "stack_kib": DEEP_STACK_KIB})
    return cs


def strip_cpp(text):
    """comments, string / char literals and preprocessor lines blanked out (same length, newlines kept)"""
    out, i, n = [], 0, len(text)
    while i < n:
        c = text[i]
        if text.startswith("//", i):
            j = text.find("\n", i)
            j = n if j < 0 else j
            out.append(" " * (j - i))
            i = j
        elif text.startswith("/*", i):
            j = text.find("*/", i + 2)
            j = n if j < 0 else j + 2
            out.append("".join(ch if ch == "\n" else " " for ch in text[i:j]))
            i = j
        elif c in "\"'":
            j = i + 1
            while j < n and text[j] != c:
                j += 2 if text[j] == "\\" else 1
            out.append(c + " " * (j - i - 1) + c)
            i = j + 1
        else:
            out.append(c)
            i += 1
    t = "".join(out)
    return "\n".join(" " * len(l) if l.lstrip().startswith("#") else l for l in t.split("\n"))


CPP_KEYWORDS = {"if", "for", "while", "switch", "catch", "return", "sizeof", "decltype", "alignof", "static_assert",
                "noexcept", "throw", "new", "delete", "typeid", "requires"}


def match_brace(t, i):
    depth = 0
    for j in range(i, len(t)):
        if t[j] == "{":
            depth += 1
        elif t[j] == "}":
            depth -= 1
            if depth == 0:
                return j
    return len(t) - 1


def cpp_functions(t):
    """[(name, body text)] of the function definitions of a stripped C++ text (namespace / class / struct / enum
    bodies are entered, function bodies are not: lambdas and local classes belong to the enclosing function)"""
    import re
    funs, i, n = [], 0, len(t)
    while i < n:
        if t[i] != "{":
            i += 1
            continue
        head = t[max(0, i - 600):i]
        m = re.search(r"\)\s*(?:const\b|noexcept\b|override\b|final\b|mutable\b|->\s*[\w:<>,&*\s]+?|\s)*$", head)
        name = None
        if m:
            # walk back over the balanced parameter list
            j, depth = max(0, i - 600) + m.start(), 0
            while j >= 0:
                if t[j] == ")":
                    depth += 1
                elif t[j] == "(":
                    depth -= 1
                    if depth == 0:
                        break
                j -= 1
            mm = re.search(r"([A-Za-z_~][\w:~]*|operator\s*\S+?)\s*$", t[max(0, j - 200):j]) if j > 0 else None
            if mm and mm.group(1).split("::")[-1] not in CPP_KEYWORDS:
                name = mm.group(1).split("::")[-1]
        if name is not None:
            e = match_brace(t, i)
            funs.append((name, t[i:e + 1]))
            i = e + 1
        else:
            i += 1          # namespace / class / initializer: look inside
    return funs


def scan_recursion(text):
    """names of functions of the text that can (transitively) call themselves; recursive lambdas
    (name = [..](..){ .. name(..) .. }, or a parameter called through itself: self(self, ..)) are listed too"""
    import re
    t = strip_cpp(text)
    funs = cpp_functions(t)
    names = sorted({nm for nm, _ in funs})
    calls = {nm: set() for nm in names}
    for nm, body in funs:
        for other in names:
            if re.search(r"(?<![\w.>])%s\s*(?:<[^;{}()]*>)?\s*\(" % re.escape(other), body):
                calls[nm].add(other)
    rec = []
    for nm in names:
        seen, todo = set(), list(calls[nm])
        while todo:
            x = todo.pop()
            if x == nm:
                rec.append(nm)
                break
            if x not in seen:
                seen.add(x)
                todo.extend(calls[x])
    for m in re.finditer(r"\b(\w+)\s*=\s*\[[^\]]*\]\s*(?:\([^)]*\))?[^{;]*\{", t):
        e = match_brace(t, m.end() - 1)
        if re.search(r"(?<![\w.>])%s\s*\(" % re.escape(m.group(1)), t[m.end():e]):
            rec.append("lambda " + m.group(1))
    for m in re.finditer(r"\b(\w+)\s*\(\s*\1\s*[,)]", t):
        rec.append("lambda parameter " + m.group(1) + " called with itself")
    return rec, names


def scan_connected_hpp(ctx, stats):
    """no function of connected.hpp may call itself: the searches must be iterative (explicit stack)"""
    path = os.path.join(ctx.repo, "include", "tapkee", "neighbors", "connected.hpp")
    try:
        text = open(path, errors="replace").read()
    except OSError as ex:
        ctx.unshown("include/tapkee/neighbors/connected.hpp cannot be read: %s" % ex)
        return False
    rec, names = scan_recursion(text)
    stats["scan_functions"] = names
    if "is_connected" not in names:
        ctx.unshown("source scan: connected.hpp no longer defines is_connected (functions found: %s); the model "
                    "Conn_Model.is_connected_fixed is tied to that function" % names)
        return False
    if rec:
        ctx.unshown("source scan: connected.hpp is no longer iterative: %s can call itself, so the call stack may "
                    "grow with the search depth (up to the number of samples); the stack-depth obligation "
                    "(dfs_stack_bounded: an explicit heap-allocated stack of at most N*k+1 entries is all the search "
                    "needs) is not shown for this source" % ", ".join(rec))
        return False
    return True


def build_or_error(ctx, src, kw):
    try:
        return ctx.cpp(src, **kw), None
    except vlib.BuildError as ex:
        return None, str(ex)


API_BUILD = dict(name="c03_api", sanitize=False, extra=["-O0"], timeout=1200)

# ----------------------------------------------------------------------------- entry points
def new_stats():
    return {k: 0 for k in ("graphs", "strong", "first_not_strong", "spec_fail_graph", "graph_perms", "point_runs",
                           "raised", "spec_fail_points", "point_perms", "model_shipped_differs",
                           "geodesic_matrices", "graphs_ragged", "api_runs", "api_k_graph_not_strong",
                           "api_violations", "api_other_failures", "tied_pairs", "tied_order_dependent", "recursion_replays", "edge_set_comparisons",
                           "method_set_comparisons", "wide_scaled", "wide_index_range", "deep_runs", "deep_small",
                           "deep_crashes", "history_dependent")}


def corpus_api_cases(ctx):
    out = []
    for name, c in ctx.corpus():
        if c.get("kind") == "api":
            out.append({"kind": "api", "dim": c["dim"], "pts": [tuple(p) for p in c["pts"]], "k": c["k"],
                        "method": c.get("method", 0), "api_method": c.get("api_method", 0)})
    return out


def corpus_cases(ctx):
    graphs, bases, n = [], [], 0
    for name, c in ctx.corpus():
        n += 1
        if c.get("kind") in ("graph", "graph_pair"):
            graphs.append((c["N"], c["k"], c["rows"]))
            if c.get("perm"):
                graphs.append((c["N"], c["k"], relabel(c["perm"], c["rows"])))
        elif c.get("kind") in ("points", "points_pair"):
            bases.append({"dim": c["dim"], "pts": [tuple(p) for p in c["pts"]], "k": c["k"],
                          "tie_free": c.get("tie_free", False)})
    return graphs, bases, n


def run(ctx):
    rng = ctx.rng
    quick = ctx.quick
    stats = new_stats()
    hist = {"corpus": 0, "graph_exhaustive": 0, "graph_random": {}, "points": {}, "malformed": 0, "api": 0, "deep": 0}
    n = 0
    # the two C++ translation units compile in parallel with the Coq build
    with concurrent.futures.ThreadPoolExecutor(max_workers=2) as pool:
        f_int = pool.submit(build_or_error, ctx, "harness/c03.cpp", {})
        f_api = pool.submit(build_or_error, ctx, "harness/c03_api.cpp", API_BUILD)
        ctx.coq()
        mexe = ctx.extract()
        exe, err_int = f_int.result()
        api, err_api = f_api.result()
    scan_ok = scan_connected_hpp(ctx, stats)
    if err_api:
        ctx.unshown("the public-API driver harness/c03_api.cpp no longer builds against the current tree: "
                    + err_api[-800:])
    if err_int:
        # internal signatures changed: the correspondence is no longer shown; search through the public API
        ctx.unshown("harness/c03.cpp (internal routines is_connected / find_neighbors / "
                    "compute_shortest_distances_matrix) no longer builds against the current tree: " + err_int[-800:])
        if api is not None:
            cg, cb, ncorp = corpus_cases(ctx)
            hist["corpus"] = ncorp
            n += api_eval(ctx, api, mexe, corpus_api_cases(ctx) + api_jobs_from(cb), stats)
            n += api_search(ctx, api, mexe, stats, rng, 150 if quick else 1500)
            for idx, (case, why) in enumerate(list(ctx._violations[:2])):
                if case.get("kind") == "api" and len(case["pts"]) > 6:
                    ctx._violations[idx] = (shrink_api(ctx, api, case), why)
        hist["api"] = stats["api_runs"]
        finish(ctx, n, stats, hist, [], [], [])
        return

    # ---- corpus first
    cg, cb, ncorp = corpus_cases(ctx)
    hist["corpus"] = ncorp
    if cg:
        n += eval_graphs(ctx, exe, mexe, cg, stats, with_perm_rng=rng)
    tf = [b for b in cb if b["tie_free"]]
    if tf:
        n += eval_points(ctx, exe, mexe, tf, rng, stats, nperm=2)
    nt = [dict(dim=b["dim"], pts=b["pts"], k=b["k"], method=m) for b in cb if not b["tie_free"] for m in (0, 1, 2)]
    if nt:
        spec_points(ctx, exe, mexe, nt, stats, check_model=False)
        n += len(nt)

    ctx.note("t=%.0fs after build+corpus" % ctx.elapsed())
    # ---- stack depth: generated path / cycle / chain graphs, 10^6 samples, explicit 8 MiB stack limit
    dc = [dict(c, stack_kib=DEEP_STACK_KIB) for _, c in ctx.corpus() if c.get("kind") == "deep"]
    n += deep_eval(ctx, exe, mexe, dc + deep_small_cases() + deep_cases(quick, wide_search=not scan_ok), stats)
    hist["deep"] = stats["deep_runs"]
    ctx.note("t=%.0fs after deep graphs" % ctx.elapsed())
    # ---- is_connected on explicit graphs: exhaustive small, then random / structured
    small = []
    all_lists = [(1, 1), (1, 2), (2, 1), (2, 2), (2, 3), (3, 1), (3, 2), (4, 1)] + ([] if quick else [(3, 3), (4, 2), (5, 1)])
    for N, k in all_lists:
        for rows in enum_all_lists(N, k):
            small.append((N, k, rows))
    knn_like = [(3, 1), (3, 2), (4, 1), (4, 2), (4, 3), (5, 1), (5, 2), (5, 3), (5, 4)] + ([] if quick else [(6, 1)])
    for N, k in knn_like:
        for rows in enum_knn_like(N, k):
            small.append((N, k, rows))
    for N, ml in [(2, 2), (3, 2)] + ([] if quick else [(4, 1)]):
        for rows in enum_ragged(N, ml):
            small.append((N, ml, rows))
    hist["graph_exhaustive"] = len(small)
    for i in range(0, len(small), 20000):
        n += eval_graphs(ctx, exe, mexe, small[i:i + 20000], stats,
                         with_perm_rng=rng if i == 0 else None)
    rnd = []
    nrand = 700 if quick else 3000
    kinds = ["uniform", "knnlike", "oneway", "oneway", "cycle", "outlier",
             "ragged_uniform", "ragged_knnlike", "ragged_oneway", "ragged_cycle"]
    while len(rnd) < nrand:
        kind = rng.choice(kinds)
        N = rng.choice([2, 3, 4, 5, 6, 7, 8, 10, 13, 20, 33, 50, 80, 120, 200])
        k = rng.choice([1, 1, 2, 2, 3, 3, 4, 6, 10])
        rows = gen_graph(rng, kind, N, k)
        if rows is None:
            continue
        kk = len(rows[0])
        rnd.append((N, kk, rows))
        hist["graph_random"][kind] = hist["graph_random"].get(kind, 0) + 1
    n += eval_graphs(ctx, exe, mexe, rnd, stats, with_perm_rng=rng)

    ctx.note("t=%.0fs after explicit graphs" % ctx.elapsed())
    # ---- find_neighbors on tie-free point sets, all methods, permutations
    bases = []
    nbase = 70 if quick else 240
    pk = ["uniform", "clusters", "clusters", "chain", "chain", "outliers", "geometric"]
    while len(bases) < nbase:
        kind = rng.choice(pk)
        dim = rng.choice([1, 1, 2])
        N = rng.choice([4, 5, 6, 8, 9, 12, 16, 24, 40] + ([64] if quick else [64, 64, 100]))
        if kind == "geometric":
            N = min(N, 24)
        k = rng.choice([1, 2, 3, 3, 3, 4, 5, 7, N // 2, N - 1, N + 2])
        k = max(1, k)
        pts = gen_points(rng, kind, N, dim)
        if pts is None or len(set(pts)) != len(pts):
            continue
        bases.append({"dim": dim, "pts": pts, "k": k})
        hist["points"][kind] = hist["points"].get(kind, 0) + 1
    for i in range(0, len(bases), 60):
        n += eval_points(ctx, exe, mexe, bases[i:i + 60], rng, stats, nperm=2)

    if api is not None:
        napi = 60 if quick else 400
        n += api_eval(ctx, api, mexe, corpus_api_cases(ctx)
                      + api_jobs_from([b for b in cb if b["tie_free"]] + bases[:napi], rng=rng), stats)
        hist["api"] = stats["api_runs"]
        for idx, (case, why) in enumerate(list(ctx._violations[:3])):
            if case.get("kind") == "api" and len(case["pts"]) > 6:
                ctx._violations[idx] = (shrink_api(ctx, api, case), why)
    ctx.note("t=%.0fs after point sets" % ctx.elapsed())
    # ---- small 1-D lattice sets (model-guided); the full enumeration is the search phase
    budget = 1500 if quick else 60000
    if ctx.is_unshown() and not ctx.has_violation():
        budget = 60000
    n += search_small_sets(ctx, exe, mexe, stats, budget, rng)

    n += probe_tied_order(ctx, exe, mexe, stats, rng, quick)
    ctx.note("t=%.0fs after small lattice sets" % ctx.elapsed())
    # ---- a few malformed graphs, one process each: recorded, never a verdict
    for rows in ([[1], [5]], [[1, 1], [0]], [[2], [0], [7]]):
        N, k = len(rows), len(rows[0])
        line = "G %d %d %s" % (N, k, " ".join(str(v) for r in rows for v in (r + [0] * k)[:k])) \
            if all(len(r) == k for r in rows) else None
        if line is None:
            continue
        mo = run_model(ctx, mexe, [line])[0]
        ri = run_impl(ctx, exe, [line], timeout=60)[0]
        ctx.note("malformed %s: model %s ; implementation %s" % (
            line, mo[2] if len(mo) > 2 else mo, "aborts" if crashed(ri) else " ".join(ri)))
        hist["malformed"] += 1

    # ---- confirmation of a points violation on the real Isomap (heavy build)
    if ctx.has_violation():
        for case, why in ctx._violations:
            if case.get("kind") == "points":
                confirm_with_isomap(ctx, case, stats)
                break

    # a failure that needs earlier calls in the same process gets the sequence of calls as its replay
    if ctx.has_violation():
        localise_history(ctx, exe, mexe, stats)
    # shrink the first point-set violation
    for idx, (case, why) in enumerate(list(ctx._violations[:3])):
        if case.get("kind") == "points" and "NOT strongly connected" in why and len(case["pts"]) > 6:
            ctx._violations[idx] = (shrink_points(ctx, exe, mexe, case), why)

    finish(ctx, n, stats, hist, small, rnd, bases)


def finish(ctx, n, stats, hist, small, rnd, bases):
    distinct = set()
    for N, k, rows in small + rnd:
        if N >= 3:
            distinct.add(hashlib.sha1(json.dumps([N, k, rows]).encode()).hexdigest())
    for b in bases:
        distinct.add(hashlib.sha1(json.dumps([b["dim"], b["pts"], b["k"]]).encode()).hexdigest())
    ctx.finish(
        evaluations=n, distinct_nontrivial=len(distinct),
        rule="(a) explicit graphs for is_connected: every tuple of length-k lists over 0..N-1 for small (N,k) "
             "(self-loops/repeats included), every tuple of k-subsets of the other samples for N <= 5(6), random "
             "and structured graphs up to N = 200 (uniform, k-NN-like, two groups joined in one direction only "
             "with sample 0 in either, broken cycles, single outlier), 35% re-run relabelled; non-trivial = N >= 3, "
             "distinct by hash of (N, k, lists). (b) tie-free integer point sets in 1-D and 2-D/L1 (uniform, "
             "clusters of unequal size and density, sparse chain into dense cluster, far outliers, geometric "
             "gaps), k in 1..N+2, each through brute/vptree/covertree and in 3 sample orders. (c) 1-D sets of "
             "<= 9 points from 0..12, k = 1..3, both orders, model-guided order. (d) public API: Isomap / Landmark "
             "Isomap (check_connectivity on, k = max(3, min(k, N-1)), methods rotating) on the first point sets of "
             "(b) and the corpus; api_k_graph_not_strong counts those whose exact requested-k graph is not strongly "
             "connected. (e) every point set of (b) additionally with all distances multiplied by 2^e, e in "
             "{-70,-52,-23,-1,1,23,52,70}, and through a non-identity index range (shuffled ids into a larger table "
             "with decoys), counted in wide_scaled / wide_index_range. (f) deep graphs: path / cycle / two-way chain "
             "generated from (N, k, shape, reversed numbering): N = k+3..12, 17, 33, 64 (k = 1..3, all shapes, both "
             "numberings; against the extracted spec) and N = 10^6 (6 graphs) under an explicit 8 MiB stack limit. "
             "Seeded by VERIF_SEED.",
        samples=[{"N": g[0], "k": g[1], "rows": g[2]} for g in rnd[:3]] +
                [{"dim": b["dim"], "k": b["k"], "pts": b["pts"][:10]} for b in bases[:3]],
        histogram={"generators": hist, "stats": stats},
        trusted_base=TRUSTED,
        assumptions=["samples are distinct (coincident samples: neighbour-search defects F1/F2, property C02)",
                     "order / method independence is claimed and compared on tie-free data only: with tied distances the "
                     "exact k-NN lists are not unique and the number of neighbours depends on the order "
                     "(cc_order_ties_refuted; proposed known finding " + SIG_TIES + ")",
                     "point sets of the model comparison are tie-free so that the exact k-NN graph is unique",
                     "N >= 1; requested k >= 1 (the library validates 3 <= k)",
                     "neighbour lists handed to is_connected are uniform and well-formed (what every search returns)"],
        extra={"traces_validated_against_impl": stats["graphs"] + stats["point_runs"]})


def replay(ctx, case):
    stats = new_stats()
    kind = case.get("kind")
    if kind != "api":
        exe = ctx.cpp("harness/c03.cpp")
        mexe = ctx.extract()
    if kind in ("graph", "graph_pair"):
        gs = [(case["N"], case["k"], case["rows"])]
        if case.get("perm"):
            gs.append((case["N"], case["k"], relabel(case["perm"], case["rows"])))
        lines = [g_line(*g) for g in gs]
        for l, ri, mo in zip(lines, run_impl(ctx, exe, lines), run_model(ctx, mexe, lines)):
            print(l)
            print("  implementation:", ri if crashed(ri) else " ".join(ri))
            print("  model: shipped=%s fixed=%s wf=%s uniform=%s strongly_connected=%s all_from_first=%s" % tuple(mo[1:7]))
        eval_graphs(ctx, exe, mexe, gs, stats)
        if len(gs) == 2:
            r = run_impl(ctx, exe, lines)
            if not crashed(r[0]) and not crashed(r[1]) and r[0] != r[1]:
                ctx.violation(case, "decision depends on the order of the samples")
    elif kind in ("points", "points_pair"):
        pts = [tuple(p) for p in case["pts"]]
        wide = case.get("wide")
        if wide:
            wide = dict(wide, table=[tuple(p) for p in wide["table"]])
        variants = [(pts, wide if kind == "points" else None)]
        if kind == "points_pair" and (case.get("perm") or wide):
            perm = case.get("perm") or list(range(len(pts)))
            variants.append(([pts[i] for i in perm], wide))
        lens, sets = [], []
        for v, w in variants:
            j = {"dim": case["dim"], "pts": v, "k": case["k"], "method": case.get("method", 0)}
            if w:
                j["wide"] = w
            l = spec_points(ctx, exe, mexe, [j], stats, check_model=tie_free(v, case["dim"]))
            lens.append(l[0])
            sets.append(spec_points.last_rows[0])
            recursion_replay(ctx, exe, mexe, [j], stats)
            d = run_impl(ctx, exe, [j_line("D", j, 0)])[0]
            print("pts=%s k=%d method=%s%s -> neighbours %s ; geodesic matrix: %s" % (
                v, case["k"], METHODS[j["method"]], (" wide=%s" % json.dumps(w)) if w else "", l[0],
                d if crashed(d) else " ".join(d)))
        if len(lens) == 2 and None not in lens and lens[0] != lens[1]:
            ctx.violation(case, "the number of neighbours differs between the two variants of the same samples: %r"
                          % (lens,))
        elif len(lens) == 2 and None not in sets and tie_free(pts, case["dim"]):
            perm = case.get("perm") or list(range(len(pts)))
            a = [sorted(r) for r in sets[0]]
            b = [sorted(perm[u] for u in sets[1][v]) for v in sorted(range(len(perm)), key=lambda v: perm[v])]
            if a != b:
                ctx.violation(case, "the neighbour sets differ between the two variants of the same tie-free samples")
        t = confirm_with_isomap(ctx, dict(case, pts=pts), stats)
        if t:
            print(t)
    elif kind == "sequence":
        args = tuple(case.get("args", ()))
        lines = list(case["lines"])
        together = run_impl(ctx, exe, lines, timeout=240, args=args)
        alone = run_impl(ctx, exe, lines[-1:], timeout=240, args=args)
        show = lambda r: str(r["crash"])[:300] if crashed(r) else " ".join(r)[:300]
        print("%d calls in one process; the last one: %s" % (len(lines), lines[-1][:200]))
        print("  answer after the earlier calls: %s" % show(together[-1]))
        print("  answer of the same call alone : %s" % show(alone[0]))
        jt, ja = judge_line(ctx, mexe, lines[-1], together[-1]), judge_line(ctx, mexe, lines[-1], alone[0])
        print("  violates the specification: after the earlier calls %s, alone %s" % (jt, ja))
        if jt is True:
            ctx.violation(case, "the last call of the sequence violates the specification (strong connectivity of the "
                                "returned graph / the decision of is_connected)%s"
                          % ("" if ja is True else "; alone in a fresh process it does not: state survives between calls"))
    elif kind == "deep":
        r = run_impl(ctx, exe, [deep_line(case)], timeout=240, args=("--stack-kib", str(DEEP_STACK_KIB)))[0]
        print("%s (stack limit %d KiB): %s" % (deep_line(case), DEEP_STACK_KIB,
                                               str(r["crash"])[:300] if crashed(r) else " ".join(r)))
        deep_eval(ctx, exe, mexe, [case], stats, ladder=False)
    elif kind == "api":
        api = ctx.cpp("harness/c03_api.cpp", **API_BUILD)
        j = dict(case, pts=[tuple(p) for p in case["pts"]])
        r = run_impl(ctx, api, [a_line(j), a_line(dict(j, k=len(j["pts"]) - 1))], timeout=300)
        for lab, ri in zip(("requested k = %d" % j["k"], "k = N-1"), r):
            print("%s %s neighbours, %s: %s" % (API_METHODS[j["api_method"]], METHODS[j["method"]], lab,
                                                ri if crashed(ri) else " ".join(ri)))
        api_eval(ctx, api, None, [j], stats)
    else:
        print("unknown case kind")
        return 3
    for c, why in ctx._violations:
        print("VIOLATION reproduced:", why[:300])
    return 1 if ctx._violations else 0
