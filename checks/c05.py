"""C05 — MDS and Kernel PCA return the optimal rank-d factor of the centred Gram matrix.

proof  : coq/Mat_*.v (matrix algebra over an abstract field, closed at Qc), coq/Mds_Model.v
         (executable model mirroring compute_distance_matrix / centerMatrix /
         compute_centered_kernel_matrix / the embed() bodies / the generated selection table),
         coq/Mds_Proof*.v, coq/Properties_C05.v.
tie    : (T) translate/t_eig.py regenerates coq/gen/EigSelect.v from the current tree on every run;
             the selection theorems are obligations over that table.
         (C) exact stream: integer tables, N a power of two: the matrix handed to the solver
             (harness calls the same internal routines as the methods) must equal the extracted Qc
             model entry by entry and the extracted mathematical object -1/2 J D2 J / J K J.
             end to end: tapkee::embed (public API) output Y is run through the extracted decision
             procedure factor_spec (Y^T Y = diag lam, B Y = Y diag lam) with B from the model and lam
             the d largest reference eigenvalues (clamped at 0), distances reproduced on rank <= d
             Euclidean input, projector comparison inside eigenvalue clusters, Isomap(k=N-1) vs MDS,
             dense and randomized (randomized only on rank <= d inputs).
             oracle contracts: the Eigen solver call is replicated on the matrix the method hands over
             and checked (orthonormal, residual, ascending, triangle read), sqrt answers are squared.
search : the same end-to-end decision procedures at the thorough budget on structured inputs
         (collinear, simplex, rank-deficient, large offset, duplicates) + small exhaustive integer
         tables for the matrix stage.
wave 3 : calling context and configuration: (PAR) batches of dense end-to-end cases re-run from inside the harness's
         own `#pragma omp parallel for num_threads(4)` region, one data set per thread, max-active-levels 1/2,
         OMP_THREAD_LIMIT unset/2: solver input and embedding bit-for-bit the serial ones, else model comparison /
         extracted factor specification (Mds_Model_Par.v + Mds_Proof_Par.v: the worksharing loop fills the whole
         matrix for every team size and every content of the uninitialised allocation; the orphaned variant does not);
         (kw) keywords left at their defaults, OMP_THREAD_LIMIT below OMP_NUM_THREADS; (huge) finite magnitudes whose
         squares overflow: exception or matrix, never an abort.
wave 4 : (rng) the RANGE the samples come in and the CALLBACKS the values come through: every end-to-end case that met the
         specification is repeated through tapkee::with(..).embedRange(begin,end) (+ the internal routines) on the same
         sequence of samples held in a std::vector sub-range, a std::deque (whole, N >= 130, and a sub-range laid across a
         block boundary), a strided and a reversing random-access adaptor over a buffer with decoys in between, with the
         hand-written table callbacks, tapkee::precomputed_*_callback and tapkee::eigen_*_callback; the range denotes ids
         into a LARGER table with decoy samples (unsorted / sorted / identity); id sequences with REPEATED ids (sorted with
         as many entries as the table has samples, unsorted, longer, shorter); judged on the sequence the range denotes:
         bit-for-bit the plain call on the denoted table (which went through the extracted specification), else model
         comparison + extracted factor specification.  Exact stream twins (RNG dm / km) against the Qc model.
wave 2 : (a) SCALED COPIES of every end-to-end case (table * 2^e, e in {-40,-30,-20,20,40}): factor_spec with tolerances
             relative to |B| and the exact relation Y(2^e D) = 2^e Y(D) (Mds_scale_equivariance); exact stream on dyadic
             tiny / huge scales;
         (b) anisotropic exact-rank-d inputs (d >= 3, retained spectrum over up to 10 decades), dense and randomized,
             through the extracted PER-ENTRY-tolerance factor specification (Mds_Spec_Wtol.factor_spec_wtol_b);
         (c) the randomized front-end step by step: the harness prints the Gaussian test matrix the solver draws; a float
             mirror of the modelled Gram-Schmidt loop gives the norms (F36 = its absolute cut-off fired; admissible
             down-scales of the randomized stream); stream `rgs`: the EXTRACTED loop (Mds_Exec_Wave2.c05_rgs) against the
             real call (span + small eigenproblem).
"""
import hashlib
import json
import math
import os
import re
import sys
from fractions import Fraction

import vlib

PROPERTY = "C05"

F7_SIG = "F7-eig-segment-N=d+skip"
F36_SIG = "F36-randomized-eig-rank-deficient"

# harness flags: -O0 -g0 keeps the cold build inside the quick budget; the four UBSan sub-checks that instrument every
# pointer dereference of the Eigen templates (null, alignment, vptr, object-size) cost ~25 s of compile time and are
# dropped (ASan still reports wild / null accesses as SEGV; bounds, overflow, shift, float-cast stay on)
CPP_EXTRA = ["-O0", "-g0", "-fno-sanitize=null,alignment,vptr,object-size"]

# powers of two: D -> 2^e D is exact in binary64, B -> 4^e B, Y -> 2^e Y (Mds_scale_equivariance); kernel tables are
# scaled by 2^e with e even, so that Y -> 2^(e/2) Y is exact too
SCALE_DOWN = [-40, -30, -20]
SCALE_UP = [20, 40]
SCALE_EXPS = SCALE_DOWN + SCALE_UP
EPS = 2.0 ** -52
GS_CUTOFF = 1e-4            # `if (norm < 1e-4)` of eigendecomposition_impl_randomized

TRUSTED = [
    "hand-written model Mds_Model.v tied by differential testing (exact on the integer stream, 1e-12 "
    "relative on the generic stream); not a proof about the C++ text",
    "translator translate/t_eig.py (regex grammar over eigendecomposition.hpp / "
    "generalized_eigendecomposition.hpp / defines/methods.hpp; self-test mutates a scratch copy)",
    "oracles modelled, contract checked at run time on the replicated call: Eigen::SelfAdjointEigenSolver "
    "(orthonormal V, B V = V Lambda to 1e-9 |B|, ascending, reads the lower triangle), std::sqrt "
    "(s*s = max(lambda,0) to 4 ulp), Eigen colwise().mean()/mean() (exact on the dyadic stream)",
    "IEEE rounding: theorems are over exact fields (any field; closed at Qc); rounding enters only through "
    "the tolerance stream (1e-8 relative to the top eigenvalue, 1e-6 for the randomized solver)",
    "optimality: Eckart-Young is PROVED for competitors Q C Q^T with Q any orthonormal d-frame, C any d x d matrix, "
    "B positive semi-definite (Mds_factor_optimal, every ordered field; uses Ky Fan's inequality from "
    "Spectral_KyFan.v); that every rank-d symmetric matrix over the reals has that form, and the case of negative "
    "eigenvalues, are cited; the rank argument 'points span <= d dimensions => all but d eigenvalues vanish' is "
    "proved (Mds_recovers_euclidean, exact arithmetic at Qc, any ascending orthonormal eigen-answer)",
    "the randomized front-end is modelled step by step (Spectral_Randomized.gram_schmidt_thr + Mds_Proof_Randomized: "
    "test matrix through the upper triangle, modified Gram-Schmidt with its cut-off branch, normal equations of the QR "
    "solve, small eigenproblem) and proved to meet the dense contract on rank <= k input (Mds_randomized_path); the tie "
    "of that model to the C++ is on the tolerance stream only (extracted loop run on the test matrix the solver drew, "
    "norm-oracle answers from a float mirror of the loop in checks/c05.py: span and small-eigenproblem residual 1e-8); "
    "Householder QR and the Gaussian generator are oracles (contract: least-squares solution; any matrix)",
    "tolerances of the end-to-end stream: per column, tau*sqrt(lam_a lam_b) + tau_abs*lam_max with tau = 1e-9 (dense) or "
    "max(1e-9, 1e3*eps*kappa) for orthogonality / 1e4*eps*kappa for squared norms and residual (randomized; kappa = max("
    "lam_max / smallest retained eigenvalue, conditioning of B*Omega from the replayed Gram-Schmidt norms); modified "
    "Gram-Schmidt loses orthogonality like eps*kappa; measured on /repo HEAD over 2000 anisotropic inputs: <= 17, 540, 6 "
    "times eps*kappa), tau_abs = 1e-11 / 1e-9: a measured engineering bound, not a theorem",
    "extraction (ExtrOcamlBasic only) + OCaml 4.13.1 + coq/extract/c05_driver.ml (hex rational parsing/printing)",
    "harness/c05.cpp + harness/spectral_common.hpp; g++ ASan/UBSan/_GLIBCXX_ASSERTIONS as memory-safety observer "
    "(harness built -O0 -g0 and without the UBSan sub-checks null, alignment, vptr, object-size to keep the cold "
    "build inside the quick budget)",
    "C04's Dijkstra_Spec.v definitions (edge, pathn, is_sp, metric_w) are reused for isomap_k_full",
    "wave 3: Mds_Model_Par.v models the worksharing loop of compute_distance_matrix over an ARBITRARY initial content of "
    "the allocation and a parametric schedule (hand-written; what OpenMP's `parallel` / orphaned `for` bind to is the "
    "modelling assumption: own team of T >= 1 threads vs. the caller's team); tied to the C++ by the PAR stream "
    "(libgomp, 4 requested threads, nested levels 1/2, OMP_THREAD_LIMIT): bit-for-bit against the serial call, else "
    "against the extracted model of the matrix",
    "wave 4: Mds_Model_Range.v models a container as a map position -> address into a memory of sample ids (hand-written; "
    "that begin[p] / *(begin + p) return the p-th denoted sample is the iterator's contract, not modelled further); tied to the "
    "C++ by the rng stream: 3 iterator types (std::vector / std::deque const_iterator, the harness's strided_iter) x 3 callback "
    "pairs, each a full instantiation of tapkee::embed; decoy ids are valid samples of the table (a wrong read is silent, not a "
    "crash); std::deque block size is libstdc++'s (512 bytes: the harness locates the block boundary at run time)",
]


# ----------------------------------------------------------------------------- numbers
def fr_hex(tok):
    """hex-float token -> Fraction, or None for nan/inf/garbage"""
    try:
        x = float.fromhex(tok)
    except (ValueError, OverflowError):
        try:
            x = float(tok)
        except ValueError:
            return None
    if math.isnan(x) or math.isinf(x):
        return None
    return Fraction(x)


def qstr(q):
    q = Fraction(q)
    n, d = q.numerator, q.denominator
    return ("-" if n < 0 else "") + "%x/%x" % (abs(n), d)


def parse_q(tok):
    neg = tok.startswith("-")
    if neg:
        tok = tok[1:]
    a, b = tok.split("/")
    v = Fraction(int(a, 16), int(b, 16))
    return -v if neg else v


def fl(x):
    return float(x)


def sfl(x):
    """float of a (possibly huge) rational, +-inf instead of OverflowError"""
    try:
        return float(x)
    except OverflowError:
        return float("inf") if x > 0 else float("-inf")


# ----------------------------------------------------------------------------- small float linear algebra
def matmul(A, B):
    n, k, m = len(A), len(B), len(B[0]) if B else 0
    Bt = [[B[t][j] for t in range(k)] for j in range(m)]
    return [[math.fsum(a * b for a, b in zip(Ai, Bj)) for Bj in Bt] for Ai in A]


def transpose(A):
    return [list(r) for r in zip(*A)] if A else []


def maxabs(A):
    return max([abs(x) for r in A for x in r] or [0.0])


# ----------------------------------------------------------------------------- processes
class Impl:
    """results of one harness case"""
    __slots__ = ("R", "X", "crashed", "why", "ended", "garbage", "skipped", "P")

    def __init__(self):
        self.R, self.X, self.crashed, self.why, self.ended, self.garbage = {}, None, False, None, False, False
        self.skipped = False
        self.P = {}          # "P key rest-of-line" lines (PAR command: team size, per data set exceptions)

    def mat(self, tag):
        """-> (rows, cols, list of list of Fraction|None) or None"""
        if tag not in self.R:
            return None
        r, c, toks = self.R[tag]
        if len(toks) != r * c:
            return None
        vals = [fr_hex(t) for t in toks]
        return r, c, [vals[i * c:(i + 1) * c] for i in range(r)]


def run_impl(ctx, exe, lines, per_case_timeout=40, env=None):
    """run harness lines; survives crashes / hangs by restarting after the case that died"""
    penv = {"OMP_NUM_THREADS": "2", "OMP_WAIT_POLICY": "passive"}
    if env:
        penv.update(env)
    results = [None] * len(lines)
    start = 0
    deaths = 0
    while start < len(lines):
        if deaths >= 3 or DEATHS["total"] >= 6:
            # a tree that aborts / hangs again and again: the first few inputs are the replays, stop paying for more
            for i in range(start, len(lines)):
                results[i] = Impl()
                results[i].skipped = True
            break
        chunk = lines[start:]
        t0 = ctx.elapsed()
        r = ctx.run(exe, "\n".join(chunk) + "\n", timeout=max(per_case_timeout, 15 + len(chunk) // 2),
                    env=penv)
        TIMES["impl"] += ctx.elapsed() - t0
        cur = None
        for line in r.out.splitlines():
            if line.startswith("C "):
                try:
                    cur = start + int(line[2:])
                except ValueError:
                    cur = None
                    continue
                if 0 <= cur < len(lines):
                    results[cur] = Impl()
                else:
                    cur = None
            elif cur is None:
                continue
            elif line.startswith("R "):
                w = line.split()
                try:
                    results[cur].R[w[1]] = (int(w[2]), int(w[3]), w[4:])
                except (IndexError, ValueError):
                    results[cur].garbage = True
            elif line.startswith("X "):
                results[cur].X = line.split(" ", 2)[2] if len(line.split(" ", 2)) > 2 else ""
            elif line.startswith("P "):
                w = line.split(" ", 2)
                if len(w) >= 2:
                    results[cur].P[w[1]] = w[2] if len(w) > 2 else ""
            elif line.startswith("END "):
                results[cur].ended = True
        last_ok = max([i for i, x in enumerate(results) if x is not None and x.ended] or [start - 1])
        if r.rc == 0 and not r.timed_out and last_ok == len(lines) - 1:
            break
        # died / hung inside the first unfinished case
        bad = last_ok + 1
        if bad >= len(lines):
            break
        if results[bad] is None:
            results[bad] = Impl()
        results[bad].crashed = True
        results[bad].why = ("timeout" if r.timed_out else (r.sanitizer or r.err[-600:] or "rc=%d" % r.rc))
        deaths += 1
        DEATHS["total"] += 1
        start = bad + 1
    for i, x in enumerate(results):
        if x is None:
            results[i] = Impl()
            results[i].crashed = True
            results[i].why = "no output"
    return results


TIMES = {"model": 0.0, "impl": 0.0}
MODEL_CACHE = {}
STATS_CACHE = {"hits": 0}
DEATHS = {"total": 0}       # aborts / hangs of the harness in this run (bounded: each costs a timeout)


def run_model(ctx, mexe, lines, workers=4):
    """one output line per input line; the lines are independent, so they are spread over a few
    processes (cost-balanced round robin) and the outputs put back in order"""
    if not lines:
        return []
    # identical lines (scaled copies of an exactly scale-equivariant implementation normalise to the SAME rational
    # input) are evaluated once
    todo = [l for l in dict.fromkeys(lines) if l not in MODEL_CACHE]
    if len(todo) < len(lines):
        if todo:
            for l, o in zip(todo, run_model(ctx, mexe, todo, workers)):
                MODEL_CACHE[l] = o
        STATS_CACHE["hits"] += len(lines) - len(todo)
        return [MODEL_CACHE[l] for l in lines]
    t0 = ctx.elapsed()
    order = sorted(range(len(lines)), key=lambda i: -len(lines[i]))
    workers = max(1, min(workers, len(lines) // 4 or 1))
    parts = [order[w::workers] for w in range(workers)]

    def job(idx):
        return ctx.run(mexe, "\n".join(lines[i] for i in idx) + "\n", timeout=900)

    if workers == 1:
        results = [job(parts[0])]
    else:
        from concurrent.futures import ThreadPoolExecutor
        with ThreadPoolExecutor(max_workers=workers) as ex:
            results = list(ex.map(job, parts))
    TIMES["model"] += ctx.elapsed() - t0
    outl = [None] * len(lines)
    for idx, r in zip(parts, results):
        out = r.out.splitlines()
        if r.rc != 0 or len(out) != len(idx) or any(o.startswith("ERR") for o in out):
            bad = next((o for o in out if o.startswith("ERR")), "")
            raise vlib.BuildError("extracted model driver failed: rc=%s lines=%d/%d %s %s" % (
                r.rc, len(out), len(idx), bad, r.err[-300:]))
        for i, o in zip(idx, out):
            outl[i] = o
    if len(MODEL_CACHE) < 20000:
        for l, o in zip(lines, outl):
            if l.startswith("FACTORW") or l.startswith("MDS") or l.startswith("KPCA"):
                MODEL_CACHE[l] = o
    return outl


def model_matrix(line):
    w = line.split()
    if w[0] != "M":
        return None
    r, c = int(w[1]), int(w[2])
    vals = [parse_q(t) for t in w[3:]]
    return [vals[i * c:(i + 1) * c] for i in range(r)]


# ----------------------------------------------------------------------------- translator
def regen_table(ctx):
    sys.path.insert(0, os.path.join(ctx.verif, "translate"))
    import t_eig
    try:
        tab = t_eig.parse(ctx.repo)
    except t_eig.TranslateError as ex:
        ctx.unshown("translator t_eig: selection sites of the solver front-ends not understood: %s" % ex)
        return None
    except OSError as ex:
        ctx.unshown("translator t_eig: cannot read the solver front-ends: %s" % ex)
        return None
    text = t_eig.emit(tab)
    lock = ctx._lock()
    try:
        changed = t_eig.write_if_changed(os.path.join(ctx.verif, "coq", "gen", "EigSelect.v"), text)
    finally:
        lock.close()
    ctx.note("t_eig: %d selection sites, table %s" % (len(tab["branches"]), "rewritten" if changed else "unchanged"))
    tab["_text"] = text
    return tab


def table_still_ours(ctx, tab):
    """coq/gen/EigSelect.v is shared with other checks that may regenerate it from ANOTHER tree while we build"""
    if tab is None:
        return True
    try:
        return open(os.path.join(ctx.verif, "coq", "gen", "EigSelect.v")).read() == tab["_text"]
    except OSError:
        return False


def build_all(ctx):
    """translator + proofs + extraction, repeated if the shared generated table was overwritten meanwhile"""
    for attempt in range(4):
        ctx._unshown = [u for u in ctx._unshown if not u.startswith("proof obligations")]
        tab = regen_table(ctx)
        coq = ctx.coq()
        mexe = ctx.extract()
        # a concurrent run (any check that shares coq/gen/EigSelect.v, from ANOTHER tree) may also have rebuilt a shared .vo
        # between our make and our coqc: "Compiled library ... makes inconsistent assumptions" is that race, not a proof
        # that stopped compiling -> rebuild
        raced = (not coq.ok) and "inconsistent assumptions" in (coq.log or "")
        if table_still_ours(ctx, tab) and not raced:
            return tab, coq, mexe
        ctx.note("coq/gen/EigSelect.v (or a .vo depending on it) was rewritten by a concurrent run from another tree; "
                 "rebuilding (attempt %d)" % (attempt + 1))
    return tab, coq, mexe


def site_index(tab, fn, largest):
    if tab is None:
        return None
    for i, b in enumerate(tab["branches"]):
        if b["fn"] == fn and b["largest"] == largest:
            return i
    return None


# ----------------------------------------------------------------------------- generators
def hexrow(vals):
    return [float(v).hex() for v in vals]


def dist_table(P):
    n = len(P)
    T = [[0.0] * n for _ in range(n)]
    for i in range(n):
        for j in range(n):
            T[i][j] = math.sqrt(sum((a - b) ** 2 for a, b in zip(P[i], P[j])))
    return T


def gram_table(P):
    n = len(P)
    return [[float(sum(a * b for a, b in zip(P[i], P[j]))) for j in range(n)] for i in range(n)]


def rand_points(rng, n, r, amp, offset=0):
    """n points spanning (at most) r dimensions, embedded in r coordinates (integers)"""
    return [[offset + rng.randint(-amp, amp) for _ in range(r)] for _ in range(n)]


def gen_e2e(rng, quick, count, nmax):
    """end-to-end cases: dict(meth, solver, n, d, k, table(float rows), rank, euclid, gen)"""
    cases = []
    kinds = ["euclid_eq", "euclid_lt", "euclid_gt", "collinear", "simplex", "offset", "dupes", "noneuclid",
             "kpca_lin", "kpca_gauss", "kpca_poly", "isomap", "lattice", "noneuclid_neg", "aniso", "aniso_kpca"]
    for t in range(count):
        kind = kinds[t % len(kinds)]
        big = t % 17 == 5
        n = rng.choice([nmax, (2 * nmax) // 3]) if big else rng.choice([3, 4, 5, 6, 7, 8, 9, 10, 12])
        n = max(3, min(n, nmax))
        c = {"gen": kind, "k": 0, "seed": rng.randrange(1, 10 ** 6), "euclid": False, "rank": None, "meth": "mds"}
        if kind in ("euclid_eq", "euclid_lt", "euclid_gt", "offset", "dupes", "lattice"):
            r = rng.randint(1, min(4, n - 2)) if n > 2 else 1
            off = rng.choice([0, 0, 1000, 10 ** 6]) if kind == "offset" else 0
            amp = rng.choice([3, 10, 100])
            P = rand_points(rng, n, r, amp, off)
            if kind == "lattice":
                # many equal distances; every other lattice is scaled by a non-power-of-two and permuted, so that the
                # exact ties become ties up to rounding
                sc = rng.choice([1.0, 0.1, 3.7, 1.0 / 3.0])
                P = [[rng.randint(0, 2) * sc for _ in range(r)] for _ in range(n)]
                rng.shuffle(P)
            if kind == "dupes":
                for _ in range(max(1, n // 3)):
                    P[rng.randrange(n)] = list(P[rng.randrange(n)])
            if kind == "euclid_lt":
                d = rng.randint(r + 1, n - 1) if r + 1 <= n - 1 else min(r, n - 1)     # d > rank
            elif kind == "euclid_gt":
                d = rng.randint(1, r - 1) if r > 1 else 1                               # d < rank
            else:
                d = min(r, n - 1)
            c.update(table=dist_table(P), n=n, d=d, rank=r, euclid=True, points=P)
        elif kind in ("aniso", "aniso_kpca"):
            # exact-rank-d configurations whose axes differ by up to 5 decades: the retained eigenvalues of the centred
            # Gram matrix spread over up to 10 decades (d >= 3: classical and modified Gram-Schmidt differ from the
            # third column on).  Gaussian coordinates times the axis scale.
            d = rng.choice([3, 3, 4, 5])
            n = max(n, d + 2)
            dec = rng.choice([1.0, 2.5, 4.0, 5.0])
            ax = [10.0 ** (dec * a / (d - 1)) for a in range(d)]
            P = [[rng.gauss(0.0, 1.0) * ax[a] for a in range(d)] for _ in range(n)]
            if kind == "aniso":
                c.update(table=dist_table(P), n=n, d=d, rank=d, euclid=True, decades=2 * dec)
            else:
                c.update(table=gram_table(P), n=n, d=d, rank=d, meth="kpca", decades=2 * dec)
        elif kind == "collinear":
            xs = [rng.randint(-20, 20) for _ in range(n)]
            T = [[float(abs(a - b)) for b in xs] for a in xs]
            d = rng.choice([1, 1, 2, min(3, n - 1), n - 1])
            d = max(1, min(d, n - 1))
            c.update(table=T, n=n, d=d, rank=1, euclid=True)
        elif kind == "simplex":
            s = float(rng.choice([1, 2, 3, 7]))
            T = [[0.0 if i == j else s for j in range(n)] for i in range(n)]
            d = rng.randint(1, n - 1)
            c.update(table=T, n=n, d=d, rank=n - 1, euclid=True)
        elif kind == "noneuclid_neg":
            # non-Euclidean dissimilarities with (almost) every eigenpair retained: negative eigenvalues are
            # retained and must be clamped (case split of Mds_sqrt_scaling_clamped)
            n = min(n, 10)
            T = [[0.0] * n for _ in range(n)]
            for i in range(n):
                for j in range(i + 1, n):
                    T[i][j] = T[j][i] = float(rng.randint(1, 9))
            c.update(table=T, n=n, d=n - 1)
        elif kind == "noneuclid":
            T = [[0.0] * n for _ in range(n)]
            for i in range(n):
                for j in range(i + 1, n):
                    T[i][j] = T[j][i] = float(rng.randint(1, 9))
            d = rng.randint(1, max(1, (n - 1) // 2))
            c.update(table=T, n=n, d=d)
        elif kind.startswith("kpca"):
            r = rng.randint(1, min(4, n - 1))
            if kind == "kpca_lin" and rng.random() < 0.25:
                r = n + rng.randint(0, 3)               # more features than samples
            P = rand_points(rng, n, r, rng.choice([2, 5, 30]), rng.choice([0, 0, 50]))
            if kind == "kpca_lin":
                T = gram_table(P)
                d = rng.choice([r, r, min(n - 1, r + 1), max(1, r - 1)])
                rank = min(r, n - 1)
            elif kind == "kpca_gauss":
                sg = float(rng.choice([1, 4, 25]))
                D = dist_table(P)
                T = [[math.exp(-D[i][j] ** 2 / (2 * sg * sg)) for j in range(n)] for i in range(n)]
                d = rng.randint(1, n - 1)
                rank = None
            else:
                G = gram_table(P)
                T = [[(1.0 + G[i][j]) ** 2 for j in range(n)] for i in range(n)]
                d = rng.randint(1, n - 1)
                rank = None
            c.update(table=T, n=n, d=max(1, min(d, n - 1)), rank=rank, meth="kpca")
            if kind == "kpca_lin":
                c["points"] = P
        elif kind == "isomap":
            n = max(n, 4)
            r = rng.randint(1, min(3, n - 2))
            if rng.random() < 0.5:
                xs = sorted(rng.sample(range(-30, 30), n))
                rng.shuffle(xs)
                T = [[float(abs(a - b)) for b in xs] for a in xs]
                r = 1
            else:
                P = rand_points(rng, n, r, 10)
                T = dist_table(P)
                c["points"] = P
            d = min(r, n - 1)
            c.update(table=T, n=n, d=d, rank=r, euclid=True, meth="isomap", k=n - 1)
        if big and c["d"] > 6 and c["gen"] != "simplex":
            c["d"] = max(c["rank"] or 1, 1) if (c["rank"] or 99) <= 6 else 4
        # solver: randomized only when rank <= d is known
        solvers = ["dense"]
        if c["rank"] is not None and c["rank"] <= c["d"]:
            solvers.append("randomized")
        for s in solvers:
            cc = dict(c)
            cc["solver"] = s
            cc["stream"] = "e2e"
            cases.append(cc)
    return cases


def gen_exact(rng, count):
    """matrix-stage cases on the exact stream: integer tables, N a power of two"""
    cases = []
    for t in range(count):
        n = rng.choice([2, 4, 8, 16] if t % 5 else [2, 4, 8])
        kind = ["DM", "DM", "KM", "CM"][t % 4]
        sub = t % 3
        T = [[0] * n for _ in range(n)]
        if kind == "CM":
            T = [[rng.randint(-9, 9) for _ in range(n)] for _ in range(n)]
            sym = False
        elif sub == 0:      # symmetric table
            for i in range(n):
                for j in range(i, n):
                    v = rng.randint(0, 12) if (i != j or kind == "KM") else 0
                    T[i][j] = T[j][i] = v
            sym = True
        elif sub == 1:      # 1-D point set (Euclidean, integer distances) / linear kernel
            # linear kernel: every other case with a large common OFFSET (2^20 or 10^6 against a spread of 8: kernel
            # entries ~1e12, centred entries ~64); still exact in binary64 (entries < 2^41, means are multiples of 2^-8)
            off = rng.choice([2 ** 20, 10 ** 6]) if (kind == "KM" and (t // 12) % 2) else 0
            xs = [off + rng.randint(-8, 8) for _ in range(n)]
            for i in range(n):
                for j in range(n):
                    T[i][j] = abs(xs[i] - xs[j]) if kind == "DM" else xs[i] * xs[j]
            sym = True
            if off:
                sub = "1_offset"
        else:               # lower triangle is garbage: the routines must not look at it
            for i in range(n):
                for j in range(n):
                    T[i][j] = rng.randint(0, 12)
            sym = False
        # every third case on a dyadic tiny / huge scale (2^e times the integer table: every operation of the
        # routines stays exact in binary64, so the comparison with the Qc model is still bit for bit)
        e = SCALE_EXPS[(t // 3) % len(SCALE_EXPS)] if t % 3 == 1 else 0
        cases.append({"stream": "exact", "cmd": kind, "n": n, "table": [[float(x) * 2.0 ** e for x in r] for r in T],
                      "sym": sym, "gen": "exact_%s_%s%s" % (kind, sub, "_2^%d" % e if e else "")})
    return cases


def gen_generic_matrix(rng, count):
    """matrix-stage cases on the tolerance stream: any N, generic doubles"""
    cases = []
    for t in range(count):
        n = rng.choice([1, 3, 5, 6, 7, 11, 13, 24])
        kind = ["DM", "KM", "CM"][t % 3]
        T = [[0.0] * n for _ in range(n)]
        for i in range(n):
            for j in range(i, n):
                v = rng.uniform(0, 10) if (i != j or kind != "DM") else 0.0
                T[i][j] = T[j][i] = v
        cases.append({"stream": "generic", "cmd": kind, "n": n, "table": T, "sym": True,
                      "gen": "generic_%s" % kind})
    return cases


def gen_tri(rng, count):
    cases = []
    for t in range(count):
        n = rng.choice([2, 3, 4, 6])
        T = [[float(rng.randint(-9, 9)) for _ in range(n)] for _ in range(n)]
        cases.append({"stream": "tri", "n": n, "table": T, "seed": rng.randrange(1, 10 ** 6), "gen": "triangle_probe"})
    return cases


def b_exp(c):
    """exponent of the power of two by which the matrix handed to the solver is scaled in a scaled copy"""
    e = c.get("scale_exp", 0)
    return e if c["meth"] == "kpca" else 2 * e


def scaled_copy(c, e):
    """the same request on the table 2^e * table (exact)"""
    cc = {k: v for k, v in c.items() if not k.startswith("_") and k != "points"}
    f = 2.0 ** e
    cc["table"] = [[x * f for x in row] for row in c["table"]]
    cc["scale_exp"] = e
    cc["gen"] = c["gen"].split("@")[0] + "@2^%d" % e
    cc["_base"] = c
    return cc


def unscaled(c):
    e = c.get("scale_exp", 0)
    cc = {k: v for k, v in c.items() if not k.startswith("_") and k not in ("points", "scale_exp")}
    f = 2.0 ** (-e)
    cc["table"] = [[x * f for x in row] for row in c["table"]]
    cc["gen"] = c.get("gen", "?").split("@")[0] + "@base"
    return cc


def plan_scaled(chunk, counter, quick):
    """scaled copies of the (already evaluated) base cases of a chunk.  quick: one down-scale and one up-scale per
    case, cycling so that every generator sees all five; thorough: a third one.  Randomized solver: its Gram-Schmidt loop
    has an ABSOLUTE cut-off (norm < 1e-4: known finding F36), so a down-scale is admissible only while the smallest
    replayed Gram-Schmidt norm stays above it; an inadmissible down-scale is replaced by the most negative admissible
    exponent (a boundary-aimed case just above the cut-off)."""
    out = []
    for c in chunk:
        t = counter[0]
        counter[0] += 1
        res = c.get("_res")
        if res is None or res.get("status") != "ok":
            continue
        exps = [SCALE_DOWN[t % len(SCALE_DOWN)], SCALE_UP[t % len(SCALE_UP)]]
        if not quick:
            exps.append(SCALE_EXPS[(t // 2) % len(SCALE_EXPS)])
        step = 2 if c["meth"] == "kpca" else 1
        chosen = []
        for e in exps:
            if c["solver"] == "randomized" and e < 0:
                smin = res.get("smin")
                if not smin or smin != smin or smin <= 0 or smin == float("inf"):
                    continue
                # matrix scale 2^(b_exp): need smin * 2^bexp >= 4 * cut-off
                per = 1 if c["meth"] == "kpca" else 2
                lim = math.log2(4 * GS_CUTOFF / smin) / per           # e >= lim
                emin = int(math.ceil(lim))
                if step == 2 and emin % 2:
                    emin += 1
                if e < emin:
                    e = emin
                if e >= 0:
                    continue
            if e not in chosen:
                chosen.append(e)
        for e in chosen:
            out.append(scaled_copy(c, e))
    return out


def range_key(rg):
    return None if rg is None else [rg["cont"], rg["cb"], rg["ids"], rg["m"], rg["f"], hexrow(sum(rg["big"], []))]


def case_key(c):
    if "datasets" in c:
        return hashlib.sha1(json.dumps([c.get("stream"), c.get("levels"), c.get("thread_limit"), c.get("variant"),
                                        range_key(c.get("range")),
                                        [case_key(d) for d in c["datasets"]]]).encode()).hexdigest()
    return hashlib.sha1(json.dumps([c.get("stream"), c.get("cmd"), c.get("meth"), c.get("solver"), c.get("n"),
                                    c.get("d"), c.get("k"), range_key(c.get("range")),
                                    hexrow(sum(c["table"], []))]).encode()).hexdigest()


def slim(c):
    """JSON-serialisable replay form of a case (exact numbers as hex floats)"""
    out = {k: v for k, v in c.items() if k not in ("table", "points", "datasets", "range") and not k.startswith("_")}
    if c.get("range") is not None:
        out["range"] = dict(c["range"], big=[hexrow(r) for r in c["range"]["big"]])
    if "datasets" in c:
        out["datasets"] = [slim(d) for d in c["datasets"]]
    else:
        out["table"] = [hexrow(r) for r in c["table"]]
    return out


def unslim(c):
    c = dict(c)
    if c.get("range") is not None:
        c["range"] = dict(c["range"], big=[[float.fromhex(x) if isinstance(x, str) else float(x) for x in r]
                                           for r in c["range"]["big"]])
    if "datasets" in c:
        c["datasets"] = [unslim(d) for d in c["datasets"]]
    else:
        c["table"] = [[float.fromhex(x) if isinstance(x, str) else float(x) for x in r] for r in c["table"]]
    return c


def tab_tokens(T):
    return " ".join(float(x).hex() for r in T for x in r)


def tab_q(T):
    return " ".join(qstr(Fraction(float(x))) for r in T for x in r)


# ----------------------------------------------------------------------------- wave 4: ranges and callbacks
# The interface takes "a random access iterator with no specific capabilities" and any callbacks with the documented
# members; the property is about the SEQUENCE OF SAMPLES the range denotes and the values the callbacks return on it.
RANGE_CONTS = ["vector", "vectormid", "deque", "dequemid", "strided", "reversed"]
RANGE_CBS = ["table", "precomputed", "eigen"]
RANGE_COMBOS = [(ct, cb) for ct in RANGE_CONTS for cb in RANGE_CBS]
CONT_TEXT = {
    "vector": "a std::vector",
    "vectormid": "a sub-range of a longer std::vector (decoy ids before and after)",
    "deque": "a std::deque (the whole container)",
    "dequemid": "a sub-range of a longer std::deque, laid across a block boundary (decoy ids elsewhere)",
    "strided": "every third entry of a buffer (random-access adaptor iterator, decoy ids in between)",
    "reversed": "every second entry of a buffer read backwards (random-access adaptor iterator, decoy ids in between)",
}
CB_TEXT = {
    "table": "hand-written table callbacks",
    "precomputed": "tapkee::precomputed_kernel_callback / precomputed_distance_callback",
    "eigen": "tapkee::eigen_kernel_callback / eigen_distance_callback over the feature matrix",
}


def all_int(P):
    return P is not None and all(float(x) == int(x) and abs(x) < 2 ** 40 for row in P for x in row)


def embed_in_big(rng, table, n, ids_kind, points=None):
    """a table of m >= n samples (m*m callback table, or f x m feature matrix when points are given) and ids with
    big[ids[p]][ids[q]] == table[p][q] (features: column ids[p] == points[p]); the other samples are decoys"""
    if ids_kind == "identity":
        m, ids = n, list(range(n))
    else:
        m = n + rng.randint(2, 5)
        ids = rng.sample(range(m), n)
        if ids_kind == "sorted":
            ids.sort()
    if points is not None:
        f = len(points[0])
        lo = min(x for row in points for x in row)
        hi = max(x for row in points for x in row)
        cols = [[float(rng.randint(int(lo) - 2, int(hi) + 2)) for _ in range(f)] for _ in range(m)]
        for p, a in enumerate(ids):
            cols[a] = [float(x) for x in points[p]]
        return {"ids": ids, "m": m, "f": f, "big": [[cols[a][t] for a in range(m)] for t in range(f)]}
    flat = [x for row in table for x in row]
    big = [[0.0] * m for _ in range(m)]
    for a in range(m):
        for b in range(a, m):
            v = rng.choice(flat) if a != b else table[0][0]
            big[a][b] = big[b][a] = v
    for p, a in enumerate(ids):
        for q, b in enumerate(ids):
            big[a][b] = table[p][q]
    return {"ids": ids, "m": m, "f": 0, "big": big}


def rng_line(rg, meth, solver, seed, n, d, k):
    return "RNG %s %s %s %s %d %d %d %d %d %d %s %s" % (
        rg["cont"], rg["cb"], meth, solver, seed, n, d, k, rg["m"], rg["f"], " ".join(str(x) for x in rg["ids"]),
        tab_tokens(rg["big"]))


def range_text(rg):
    ids = rg["ids"]
    return ("on the same sequence of samples held in %s, values through %s (the range denotes sample ids %s%s of a table of "
            "%d samples)" % (CONT_TEXT[rg["cont"]], CB_TEXT[rg["cb"]], ids[:12], "..." if len(ids) > 12 else "", rg["m"]))


def range_gen_name(rg, kind):
    return "range/%s/%s/ids=%s" % (rg["cont"], rg["cb"], kind)


def range_eligible(c):
    res = c.get("_res") or {}
    return (c.get("stream") == "e2e" and not c.get("scale_exp") and res.get("status") == "ok" and res.get("spec_ok")
            and "embtok" in res and c["meth"] in ("mds", "kpca", "isomap") and c["n"] <= 32)


def plan_ranges(chunk, counter, quick, rrng):
    """one (container, callback, id pattern) variant per eligible end-to-end case (thorough: two), cycling through the
    18 (container, callback) pairs and three id patterns"""
    out = []
    for c in chunk:
        if not range_eligible(c):
            continue
        for _ in range(1 if quick else 2):
            t = counter[0]
            counter[0] += 1
            cont, cb = RANGE_COMBOS[t % len(RANGE_COMBOS)]
            kind = ["unsorted", "sorted", "identity"][(t // len(RANGE_COMBOS) + t) % 3]
            pts = c.get("points")
            if cb == "eigen" and not (all_int(pts) and c["meth"] in ("mds", "kpca", "isomap")
                                      and c["gen"].split("@")[0] in EIGEN_GENS):
                cb = ["table", "precomputed"][t % 2]
                pts = None
            rg = embed_in_big(rrng, c["table"], c["n"], kind, pts if cb == "eigen" else None)
            rg.update(cont=cont, cb=cb)
            out.append({"stream": "rng", "range": rg, "datasets": [c], "n": c["n"], "gen": range_gen_name(rg, kind)})
    return out


# generators whose table is exactly dist_table / gram_table of the integer points they keep
EIGEN_GENS = ("euclid_eq", "euclid_lt", "euclid_gt", "offset", "dupes", "kpca_lin", "isomap", "repeat_ids", "big_deque")


def gen_repeat(rng, count):
    """id sequences with REPEATED ids into a table of m samples: sorted with exactly m entries, first id 0 and last id
    m-1 (a sorted bootstrap resample: looks like the identity to a careless guard), unsorted, longer than the table,
    shorter.  The denoted sequence has coincident samples; the table is Euclidean of rank r = target_dimension."""
    out = []
    patterns = ["sorted_same_len", "unsorted_same_len", "sorted_same_len", "longer", "shorter_sorted", "longer_sorted"]
    for t in range(count):
        m = rng.choice([5, 6, 7, 8, 10])
        r = min(rng.choice([1, 2, 2, 3]), m - 3)
        P = rand_points(rng, m, r, rng.choice([3, 10]))
        pat = patterns[t % len(patterns)]
        if pat == "sorted_same_len":
            ids = list(range(m))
            for _ in range(rng.choice([1, 1, 2])):
                j = rng.randint(1, m - 2)
                ids[j] = ids[j - 1] if rng.random() < 0.5 else ids[j + 1]
            ids.sort()
        elif pat == "unsorted_same_len":
            ids = [rng.randrange(m) for _ in range(m)]
            ids[rng.randrange(1, m)] = ids[0]
        elif pat in ("longer", "longer_sorted"):
            ids = [rng.randrange(m) for _ in range(m + rng.randint(1, 3))]
            if pat == "longer_sorted":
                ids.sort()
        else:
            ids = sorted(rng.randrange(m) for _ in range(m - 1))
            ids[1] = ids[0]
            ids.sort()
        n = len(ids)
        meth = ["mds", "mds", "kpca", "mds", "isomap", "kpca"][(t // 2) % 6]
        T = gram_table(P) if meth == "kpca" else dist_table(P)
        Teff = [[T[a][b] for b in ids] for a in ids]
        solver = "randomized" if t % 4 == 3 else "dense"
        c = {"stream": "e2e", "gen": "repeat_ids/" + pat, "meth": meth, "solver": solver, "seed": rng.randrange(1, 10 ** 6),
             "n": n, "d": r, "k": n - 1 if meth == "isomap" else 0, "table": Teff, "rank": r, "euclid": meth != "kpca",
             "points": [P[a] for a in ids]}
        combos = [("vector", "precomputed"), RANGE_COMBOS[(5 * t + 1) % len(RANGE_COMBOS)],
                  RANGE_COMBOS[(5 * t + 8) % len(RANGE_COMBOS)]]
        for cont, cb in dict.fromkeys(combos):
            if cb == "eigen":
                rg = {"ids": ids, "m": m, "f": r, "big": [[float(P[a][u]) for a in range(m)] for u in range(r)]}
            else:
                rg = {"ids": ids, "m": m, "f": 0, "big": T}
            rg.update(cont=cont, cb=cb)
            out.append({"stream": "rng", "range": rg, "datasets": [c], "n": n, "gen": range_gen_name(rg, "repeated/" + pat)})
    return out


def gen_big_deque(rng, count):
    """a std::deque<int> keeps 128 ids per block: N >= 130 samples in a whole deque are not contiguous.  Integer tables
    (collinear integer points for MDS / Isomap, Gram matrix of 2-D integer points for Kernel PCA) keep the exact
    rational arithmetic of the extracted model cheap at this size."""
    out = []
    for t in range(count):
        n = rng.randint(130, 133)
        meth = ["mds", "kpca", "isomap", "mds"][t % 4]
        r = 2 if meth == "kpca" else 1
        if meth == "isomap":
            xs = rng.sample(range(-200, 200), n)            # distinct: every shortest path is the direct distance
            P = [[x] for x in xs]
        else:
            P = rand_points(rng, n, r, 40)
        T = gram_table(P) if meth == "kpca" else dist_table(P)
        c = {"stream": "e2e", "gen": "big_deque", "meth": meth, "solver": "randomized" if t % 4 == 3 else "dense",
             "seed": rng.randrange(1, 10 ** 6), "n": n, "d": r, "k": n - 1 if meth == "isomap" else 0, "table": T,
             "rank": r, "euclid": meth != "kpca", "points": P}
        for j, cb in enumerate(RANGE_CBS):
            kind = ["identity", "unsorted", "sorted"][(t + j) % 3]
            rg = embed_in_big(rng, T, n, kind, P if cb == "eigen" else None)
            rg.update(cont="deque", cb=cb)
            out.append({"stream": "rng", "range": rg, "datasets": [c], "n": n, "gen": range_gen_name(rg, kind)})
    return out


def gen_exact_ranges(rng, exact_cases, big):
    """twins of the exact-stream DM / KM cases on a range (bit for bit against the Qc model of the denoted table), every
    fourth one with repeated ids; + `big` whole-deque cases with N = 256 samples (two deque blocks; power of two)"""
    out = []
    src = [c for c in exact_cases if c["stream"] == "exact" and c["cmd"] in ("DM", "KM")]
    for t, c in enumerate(src):
        cont, cb = RANGE_COMBOS[(7 * t) % len(RANGE_COMBOS)]
        if cb == "eigen":
            cb = "precomputed" if t % 2 else "table"
        n, T = c["n"], c["table"]
        if t % 4 == 3 and n >= 4:
            ids = sorted(rng.randrange(n) for _ in range(n)) if t % 8 == 3 else [rng.randrange(n) for _ in range(n + 2)]
            if t % 8 == 3:
                ids[0], ids[-1] = 0, n - 1
                ids[2] = ids[1]
                ids.sort()
            if len(ids) not in (2, 4, 8, 16):
                ids = ids[:n]
            rg = {"ids": ids, "m": n, "f": 0, "big": T}
            Teff = [[T[a][b] for b in ids] for a in ids]
            kind = "repeated"
        else:
            kind = ["unsorted", "sorted", "identity"][t % 3]
            rg = embed_in_big(rng, T, n, kind)
            Teff = T
        rg.update(cont=cont, cb=cb)
        out.append({"stream": "exact", "cmd": c["cmd"], "n": len(rg["ids"]), "table": Teff, "sym": c["sym"], "range": rg,
                    "gen": c["gen"] + "/" + range_gen_name(rg, kind)})
    for t in range(big):
        n = 256
        xs = [rng.randint(-8, 8) for _ in range(n)]
        cmd = "DM" if t % 2 == 0 else "KM"
        T = [[float(abs(a - b)) if cmd == "DM" else float(a * b) for b in xs] for a in xs]
        cb = RANGE_CBS[t % 3]
        rg = {"ids": list(range(n)), "m": n, "f": 0, "big": T} if cb != "eigen" else \
            {"ids": list(range(n)), "m": n, "f": 1, "big": [[float(x) for x in xs]]}
        rg.update(cont="deque", cb=cb)
        # sym False: the O(n^3) extracted J M J object is not evaluated at this size (the step model is)
        out.append({"stream": "exact", "cmd": cmd, "n": n, "table": T, "sym": False, "range": rg,
                    "gen": "exact_%s_big_deque/%s" % (cmd, range_gen_name(rg, "identity"))})
    return out


# ----------------------------------------------------------------------------- evaluation: matrix stage
def eval_matrix_stage(ctx, exe, mexe, cases, stats):
    """exact / generic streams: the matrix handed to the solver vs model and vs mathematical object"""
    if not cases:
        return 0
    impl = run_impl(ctx, exe, [("%s %d %s" % (c["cmd"], c["n"], tab_tokens(c["table"]))) if c.get("range") is None else
                               rng_line(c["range"], {"DM": "dm", "KM": "km"}[c["cmd"]], "dense", 1, c["n"], 1, 0)
                               for c in cases])
    mlines, midx = [], []
    for i, c in enumerate(cases):
        tq = tab_q(c["table"])
        want = {"DM": ["D2", "MDS"], "KM": ["KPCA"], "CM": ["CENTER"]}[c["cmd"]]
        if c["sym"] and c["cmd"] == "DM":
            want.append("SPECMDS")
        if c["sym"] and c["cmd"] == "KM":
            want.append("SPECKPCA")
        for wcmd in want:
            mlines.append("%s %d %s" % (wcmd, c["n"], tq))
            midx.append((i, wcmd))
    mout = run_model(ctx, mexe, mlines)
    model = {}
    for (i, wcmd), line in zip(midx, mout):
        model[(i, wcmd)] = model_matrix(line)
    for i, (c, r) in enumerate(zip(cases, impl)):
        if r.skipped:
            continue
        where = "" if c.get("range") is None else " (called %s)" % range_text(c["range"])
        if c.get("range") is not None:
            stats["matrix_stage_ranges"] = stats.get("matrix_stage_ranges", 0) + 1
        if r.crashed:
            ctx.violation(slim(c), "the matrix-assembly routines abort on this table%s: %s" % (where, short_why(r.why)))
            continue
        if r.X is not None or r.garbage:
            ctx.violation(slim(c), "matrix-assembly routines threw / printed garbage%s: %s" % (where, r.X))
            continue
        pairs = {"DM": [("d2", "D2"), ("mds", "MDS")], "KM": [("kpca", "KPCA")], "CM": [("center", "CENTER")]}[c["cmd"]]
        exact = c["stream"] == "exact"
        for tag, wcmd in pairs:
            got = r.mat(tag)
            exp = model[(i, wcmd)]
            if got is None or got[0] != c["n"] or got[1] != c["n"]:
                ctx.violation(slim(c), "matrix %s has the wrong shape or is missing" % tag)
                break
            G = got[2]
            scale = max([abs(x) for row in exp for x in row] + [Fraction(1)])
            tolm = Fraction(0) if exact else Fraction(1, 10 ** 12) * scale
            bad = None
            for a in range(c["n"]):
                for b in range(c["n"]):
                    if G[a][b] is None or abs(G[a][b] - exp[a][b]) > tolm:
                        bad = (a, b)
                        break
                if bad:
                    break
            # spec on the implementation's own output (symmetric tables only): the mathematical object
            spec_key = {"MDS": "SPECMDS", "KPCA": "SPECKPCA"}.get(wcmd)
            if spec_key and (i, spec_key) in model:
                S = model[(i, spec_key)]
                sbad = None
                for a in range(c["n"]):
                    for b in range(c["n"]):
                        if G[a][b] is None or abs(G[a][b] - S[a][b]) > tolm:
                            sbad = (a, b)
                            break
                    if sbad:
                        break
                if sbad:
                    a, b = sbad
                    ctx.violation(slim(c), "matrix handed to the solver differs from %s at (%d,%d): got %s, "
                                  "mathematical object %s%s" % (
                                      "-1/2 J D2 J" if wcmd == "MDS" else "J K J", a, b,
                                      None if G[a][b] is None else float(G[a][b]), float(S[a][b]), where))
                stats["spec_matrix_checks"] += 1
            if bad:
                a, b = bad
                ctx.mismatch(slim(c), "%s(%d,%d): model %s vs implementation %s%s" % (
                    tag, a, b, float(exp[a][b]), None if G[a][b] is None else float(G[a][b]), where))
                if c.get("range") is not None and not (spec_key and (i, spec_key) in model) and wcmd in ("MDS", "KPCA"):
                    # no extracted J M J object at this size / for this (asymmetric) table: the step model of the DENOTED
                    # table is the reference (proved equal to the object on symmetric tables)
                    ctx.violation(slim(c), "matrix handed to the solver differs from the model of %s on the table the range "
                                  "denotes at (%d,%d): got %s, model %s%s" % (
                                      "-1/2 J D2 J" if wcmd == "MDS" else "J K J", a, b,
                                      None if G[a][b] is None else float(G[a][b]), float(exp[a][b]), where))
        stats["matrix_stage"] += 1
    return len(cases)


# ----------------------------------------------------------------------------- evaluation: triangles / oracle
def eval_triangles(ctx, exe, mexe, cases, stats):
    """which triangle does each front-end read (DESIGN 1.4), and which triangle does Eigen read"""
    if not cases:
        return 0
    lines = []
    for c in cases:
        n, T = c["n"], c["table"]
        # lower/upper mirrored symmetric matrices
        low = [[T[i][j] if j <= i else T[j][i] for j in range(n)] for i in range(n)]
        lines.append("RAW %d %s" % (n, tab_tokens(T)))
        lines.append("RAW %d %s" % (n, tab_tokens(low)))
        lines.append("TRI dense largest %d %d %d %s" % (c["seed"], n, n, tab_tokens(T)))
        lines.append("TRI randomized largest %d %d %d %s" % (c["seed"], n, n, tab_tokens(T)))
    impl = run_impl(ctx, exe, lines)
    # what the model says each front-end sees
    mlines = []
    for c in cases:
        mlines.append("SEEND %d %s" % (c["n"], tab_q(c["table"])))
        mlines.append("SEENR %d %s" % (c["n"], tab_q(c["table"])))
    mout = run_model(ctx, mexe, mlines)
    seen_lines = []
    for k, c in enumerate(cases):
        for j in range(2):
            S = model_matrix(mout[2 * k + j])
            seen_lines.append("RAW %d %s" % (c["n"], " ".join(float(x).hex() for r in S for x in r)))
    ref = run_impl(ctx, exe, seen_lines)
    for k, c in enumerate(cases):
        raw_a, raw_l, tri_d, tri_r = impl[4 * k: 4 * k + 4]
        if any(x.skipped for x in (raw_a, raw_l, tri_d, tri_r)) or ref[2 * k].skipped or ref[2 * k + 1].skipped:
            continue
        if any(x.crashed for x in (raw_a, raw_l, tri_d, tri_r)):
            bad = next(x for x in (raw_a, raw_l, tri_d, tri_r) if x.crashed)
            ctx.violation(slim(c), "solver front-end aborts on a small integer matrix: %s" % bad.why)
            continue
        if any(x.X is not None for x in (raw_a, raw_l, tri_d)):
            # the probe matrices are outside the property's domain (triangles differ): a throw is a
            # correspondence failure, not a violation
            ctx.mismatch(slim(c), "triangle probe: dense front-end / Eigen throws on a small integer matrix")
            continue
        if tri_r.X is not None:
            stats["triangle_probes_skipped"] = stats.get("triangle_probes_skipped", 0) + 1
            tri_r = None      # the matrix the randomized front-end sees may be singular (known finding F36)
        # oracle contract: Eigen reads the LOWER triangle only (bitwise identical answers)
        if raw_a.R.get("vals") != raw_l.R.get("vals") or raw_a.R.get("vecs") != raw_l.R.get("vecs"):
            ctx.mismatch(slim(c), "oracle contract: Eigen::SelfAdjointEigenSolver does not read the lower triangle only")
        for name, tri, rr in (("dense", tri_d, ref[2 * k]), ("randomized", tri_r, ref[2 * k + 1])):
            if tri is None:
                continue
            a, b = tri.mat("vals"), rr.mat("vals")
            if a is None or b is None:
                ctx.mismatch(slim(c), "triangle probe: no eigenvalues from the %s front-end" % name)
                continue
            va = sorted(fl(x[0]) if x[0] is not None else float("nan") for x in a[2])
            vb = sorted(fl(x[0]) if x[0] is not None else float("nan") for x in b[2])
            sc = max([abs(x) for x in vb] + [1.0])
            tol = 1e-9 if name == "dense" else 1e-6
            if len(va) != len(vb) or any(not (abs(x - y) <= tol * sc) for x, y in zip(va, vb)):
                ctx.mismatch(slim(c), "triangle probe: the %s front-end does not see the matrix the model says it "
                             "sees (eigenvalues %s vs %s)" % (name, va, vb))
        stats["triangle_probes"] += 1
    return len(cases)


# ----------------------------------------------------------------------------- evaluation: end to end
def numeric_rank(vals, lmax):
    return sum(1 for v in vals if abs(v) > 1e-9 * max(lmax, 1e-300))


def gs_replay(Bf, O, n, k):
    """float mirror of the loop of eigendecomposition_impl_randomized as modelled by Spectral_Randomized.gram_schmidt_thr
    (column by column, sequential subtraction, norm, cut-off branch).  Returns (norms, fired, columns)."""
    Y0 = matmul(Bf, O)
    cols = [[Y0[t][c] for t in range(n)] for c in range(k)]
    norms, fired = [], False
    for i in range(k):
        col = cols[i]
        for j in range(i):
            r = math.fsum(x * y for x, y in zip(col, cols[j]))
            col = [x - r * y for x, y in zip(col, cols[j])]
        nr = math.sqrt(math.fsum(x * x for x in col))
        norms.append(nr)
        if not (nr >= GS_CUTOFF):
            fired = True
            break
        inv = 1.0 / nr
        cols[i] = [x * inv for x in col]
    return norms, fired, cols


def factor_tolerances(lamn, solver, kappa_gs=None):
    """per-entry tolerances of the factor specification, in units where the top eigenvalue lies in [1,4).
    lamn: the d retained reference eigenvalues (ascending, clamped at 0), normalised.
      T1_aa = tau_n * lam_a + tau_abs * lam_max                      (squared norm of column a)
      T1_ab = tau_o * sqrt(lam_a lam_b) + tau_abs * lam_max           (orthogonality)
      T2_c  = tau_n * lam_max * sqrt(lam_c) + tau_abs * lam_max^1.5   (B Y = Y diag lam)
    and never looser than the uniform tolerance of round 2 (4e-8 dense, 4e-6 randomized).
    dense: tau_o = tau_n = 1e-9 (measured 1.3e-15).
    randomized: tau_o = max(1e-9, 1e3 * eps * kappa), tau_n = max(1e-9, 1e4 * eps * kappa) with kappa = max(lam_max /
    smallest retained eigenvalue, largest column norm of B*Omega / smallest replayed Gram-Schmidt norm): modified
    Gram-Schmidt loses orthogonality like eps * kappa(B*Omega) (classical: eps * kappa^2).  MEASURED on /repo HEAD over 2000
    anisotropic exact-rank inputs (N 6..48, d 3..6, kappa up to ~5e11): orthogonality <= 17 eps kappa, squared norms
    <= 540 eps kappa; residual <= 6 eps kappa on 1000 of them.  An engineering bound, not a theorem."""
    d = len(lamn)
    lmax = max(lamn + [0.0])
    tau_abs = 1e-11 if solver == "dense" else 1e-9
    uni = 4e-8 if solver == "dense" else 4e-6
    if solver == "dense":
        tau_o = tau_n = 1e-9
    else:
        pos = [x for x in lamn if x > tau_abs * lmax]
        kappa = (lmax / min(pos)) if pos else 1.0
        if kappa_gs is not None and kappa_gs == kappa_gs and kappa_gs != float("inf"):
            kappa = max(kappa, kappa_gs)
        tau_o = min(0.05, max(1e-9, 1e3 * EPS * kappa))      # capped: beyond kappa ~ 2e11 the check would be blind
        tau_n = min(0.5, max(1e-9, 1e4 * EPS * kappa))
    m = [math.sqrt(max(x, 0.0)) for x in lamn]
    T1 = [[min(uni, (tau_n if a == b else tau_o) * m[a] * m[b] + tau_abs * lmax) for b in range(d)] for a in range(d)]
    T2 = [min(uni, tau_n * lmax * m[c] + tau_abs * lmax ** 1.5) for c in range(d)]
    return T1, T2, tau_o


def factor_line(solver, n, d, Bm, Yq, top, lmax, kappa_gs=None):
    """input line of the extracted per-entry-tolerance factor specification (c05_factor_w) for an embedding Yq (exact
    rationals) of the model matrix Bm with reference eigenvalues top (the d largest, ascending, clamped at 0).
    Returns (line, tau, Yq with its columns in canonical order)."""
    # canonical column order: ascending squared norm (the property does not fix the order)
    norms = [sum(Yq[a][cc] ** 2 for a in range(n)) for cc in range(d)]
    order = sorted(range(d), key=lambda cc: norms[cc])
    Yq = [[row[cc] for cc in order] for row in Yq]
    # power-of-4 scaling so that the top eigenvalue is in [1,4): tolerances are RELATIVE to |B|
    k4 = 0
    if lmax > 0:
        k4 = int(math.floor(math.log2(lmax) / 2.0))
    s4 = Fraction(4) ** k4
    s2 = Fraction(2) ** k4
    lamq = [Fraction(x) / s4 for x in top]
    T1, T2, tau = factor_tolerances([float(x) for x in lamq], solver, kappa_gs)
    line = "FACTORW %d %d %s %s %s %s %s" % (
        n, d,
        " ".join(qstr(x / s4) for row in Bm for x in row),
        " ".join(qstr(x / s2) for row in Yq for x in row),
        " ".join(qstr(x) for x in lamq),
        " ".join(qstr(Fraction(x)) for row in T1 for x in row),
        " ".join(qstr(Fraction(x)) for x in T2))
    return line, tau, Yq


def eval_e2e(ctx, exe, mexe, cases, tab, stats, report=True):
    """public API end to end.  Returns list of booleans (case violated the spec).  Leaves c["_res"] on every case
    (status, embedding, replayed Gram-Schmidt norms) for the scaled copies that follow."""
    if not cases:
        return []
    # a scaled copy needs its base (replays, shrunk candidates): evaluate the base first
    pre = []
    for c in cases:
        if c.get("scale_exp") and not (c.get("_base") is not None and "_res" in c["_base"]):
            c["_base"] = unscaled(c)
            pre.append(c["_base"])
    if pre:
        eval_e2e(ctx, exe, mexe, pre, tab, stats, report=report)
    lines = []
    for c in cases:
        lines.append("FULL %s %s %d %d %d %d %s" % (c["meth"], c["solver"], c["seed"], c["n"], c["d"], c["k"],
                                                    tab_tokens(c["table"])))
    impl = run_impl(ctx, exe, lines)
    site = site_index(tab, "eigendecomposition_impl_dense", True)
    # model: B from the callback table
    mlines = []
    for c in cases:
        tq = tab_q(c["table"])
        mlines.append("%s %d %s" % ({"mds": "MDS", "kpca": "KPCA", "isomap": "MDS"}[c["meth"]], c["n"], tq))
    mB = [model_matrix(x) for x in run_model(ctx, mexe, mlines)]
    violated = [False] * len(cases)
    second = []     # (case index, kind, model line)
    ctxinfo = {}

    def viol(i, why, sig=None):
        violated[i] = sig if sig is not None else True
        if report:
            ctx.violation(slim(cases[i]), why, signature=sig)

    for i, (c, r) in enumerate(zip(cases, impl)):
        n, d = c["n"], c["d"]
        c["_res"] = {"status": "skipped"}
        if r.skipped:
            continue
        stats["e2e"] += 1
        scaled = bool(c.get("scale_exp"))
        if scaled:
            stats["e2e_scaled"] = stats.get("e2e_scaled", 0) + 1
        c["_res"] = {"status": "bad"}
        if r.crashed:
            viol(i, "tapkee::embed (or the routines it calls) aborts / hangs: " + str(r.why)[:600])
            if r.why == "timeout":
                violated[i] = "hang"          # do not pay for shrinking a hang
            continue
        B = r.mat("B")
        refvals, refvecs, refsqrt = r.mat("refvals"), r.mat("refvecs"), r.mat("refsqrt")
        if (r.garbage or B is None or refvals is None or refvecs is None or refsqrt is None
                or (B[0], B[1]) != (n, n) or (refvecs[0], refvecs[1]) != (n, n)
                or refvals[0] != n or refsqrt[0] != n
                or any(x is None for row in refvecs[2] for x in row)
                or any(x is None for row in B[2] for x in row)
                or any(x[0] is None for x in refvals[2]) or any(x[0] is None for x in refsqrt[2])):
            viol(i, "the routines that assemble the solver input threw, printed garbage or produced NaN: %s" % r.X)
            continue
        Bm = mB[i]
        scaleB = max([abs(x) for row in Bm for x in row] + [Fraction(1, 10 ** 300)])
        # (tie) matrix handed to the solver vs model
        badB = None
        for a in range(n):
            for b in range(n):
                g = B[2][a][b]
                if g is None or abs(g - Bm[a][b]) > Fraction(1, 10 ** 11) * scaleB:
                    badB = (a, b, g)
                    break
            if badB:
                break
        if badB:
            ctx.mismatch(slim(c), "matrix handed to the solver (%s): entry (%d,%d) model %s vs implementation %s" % (
                c["meth"], badB[0], badB[1], float(Bm[badB[0]][badB[1]]), None if badB[2] is None else float(badB[2])))
        if c["meth"] == "isomap":
            geo2 = r.mat("geo2")
            T = c["table"]
            tmax2 = max(x * x for row in T for x in row)
            okg = geo2 is not None and all(
                geo2[2][a][b] is not None and abs(float(geo2[2][a][b]) - T[a][b] ** 2) <= 1e-11 * max(T[a][b] ** 2, 1e-9 * tmax2)
                for a in range(n) for b in range(n))
            if not okg:
                viol(i, "Isomap with k = N-1 on a metric table: the (symmetrised, squared) geodesics are not the "
                        "squared direct distances")
                continue
        # (oracle) reference decomposition certificate, floats
        lam = [fl(x[0]) if x[0] is not None else float("nan") for x in refvals[2]]
        V = [[fl(x) if x is not None else float("nan") for x in row] for row in refvecs[2]]
        Bf = [[fl(x) for x in row] for row in Bm]
        lmax = max([abs(x) for x in lam] + [0.0])
        sc = max(lmax, fl(scaleB), 1e-300)
        ok_contract = all(not math.isnan(x) for x in lam) and all(lam[a] <= lam[a + 1] + 1e-12 * sc for a in range(n - 1))
        if ok_contract:
            VtV = matmul(transpose(V), V)
            BV = matmul(Bf, V)
            ok_contract = all(abs(VtV[a][b] - (1.0 if a == b else 0.0)) <= 1e-9 for a in range(n) for b in range(n)) \
                and all(abs(BV[a][b] - V[a][b] * lam[b]) <= 1e-9 * sc for a in range(n) for b in range(n))
        stats["oracle_calls_checked"] += 1
        if not ok_contract:
            ctx.mismatch(slim(c), "oracle contract: the replicated Eigen::SelfAdjointEigenSolver call does not return an "
                         "ascending orthonormal eigendecomposition of the model matrix")
            continue
        sq = [fl(x[0]) if x[0] is not None else float("nan") for x in refsqrt[2]]
        if any(not (abs(s * s - max(l, 0.0)) <= 4e-16 * max(l, 0.0) + 1e-300) for s, l in zip(sq, lam)):
            ctx.mismatch(slim(c), "oracle contract: std::sqrt answer s does not satisfy s*s = max(lambda,0) to 4 ulp")
        rank = numeric_rank(lam, lmax)
        top = [max(x, 0.0) for x in lam[n - d:]]            # the d largest, ascending, clamped
        # ---- randomized front-end: replay the Gram-Schmidt loop of the model on the test matrix the solver drew
        fired, ambiguous, smin, kappa_gs = None, False, None, None
        if c["solver"] == "randomized":
            Om = r.mat("omega")
            Bi = [[fl(x) if x is not None else float("nan") for x in row] for row in B[2]]
            if Om is not None and (Om[0], Om[1]) == (n, d) and all(x is not None for row in Om[2] for x in row):
                Of = [[fl(x) for x in row] for row in Om[2]]
                norms, fired, _ = gs_replay(Bi, Of, n, d)
                smin = min(norms)
                Y0 = matmul(Bi, Of)
                cmax = max(math.sqrt(math.fsum(Y0[t][cc] ** 2 for t in range(n))) for cc in range(d))
                kappa_gs = (cmax / smin) if (smin > 0 and not fired) else None
                ambiguous = abs(smin - GS_CUTOFF) <= 1e-6 * GS_CUTOFF
                stats["gs_replays"] = stats.get("gs_replays", 0) + 1
                if fired:
                    stats["gs_cutoff_fired"] = stats.get("gs_cutoff_fired", 0) + 1
            else:
                ctx.mismatch(slim(c), "harness: the Gaussian test matrix of the randomized solver is missing / malformed")
        c["_res"] = {"status": "bad", "smin": smin, "fired": fired, "lmax": lmax, "kappa_gs": kappa_gs}
        # ---- the embedding
        if r.X is not None:
            if c["solver"] == "randomized" and "eigendecomposition" in r.X and (fired or ambiguous or (fired is None and rank < d)):
                c["_res"]["status"] = "f36"
                viol(i, "randomized solver throws (%s): the absolute cut-off `norm < 1e-4` of its Gram-Schmidt loop fired "
                        "(replayed norms: smallest %.3g; numerical rank %d, target_dimension %d)" % (r.X, smin or 0.0, rank, d),
                     sig=F36_SIG)
            else:
                viol(i, "tapkee::embed throws on a valid request: %s" % r.X)
            continue
        E = r.mat("emb")
        if E is None or E[0] != n or E[1] != d:
            viol(i, "embedding is missing or not N x target_dimension")
            continue
        if any(x is None for row in E[2] for x in row):
            if c["solver"] == "randomized" and (fired or ambiguous or (fired is None and rank < d)):
                # same root cause as the throw (0 * (1/0) in the Gram-Schmidt loop): with a 1 x 1 small problem
                # Eigen reports Success on a NaN matrix and the NaN reaches the embedding
                c["_res"]["status"] = "f36"
                viol(i, "randomized solver returns NaN: the absolute cut-off `norm < 1e-4` of its Gram-Schmidt loop fired "
                        "(smallest replayed norm %.3g; numerical rank %d, target_dimension %d)" % (smin or 0.0, rank, d),
                     sig=F36_SIG)
            else:
                viol(i, "embedding contains NaN/inf (retained eigenvalues %s)" % top)
            continue
        Yq = E[2]
        Yf = [[fl(x) for x in row] for row in Yq]
        c["_res"].update(status="ok", Y=Yf, lam=lam)
        tol = Fraction(1, 10 ** 8) if c["solver"] == "dense" else Fraction(1, 10 ** 6)
        line, tau, Yq = factor_line(c["solver"], n, d, Bm, Yq, top, lmax, kappa_gs)
        c["_res"].update(top=top, embtok=r.R["emb"][2], Btok=r.R["B"][2])
        second.append((i, "factor", line))
        c["_res"]["tau"] = tau
        if not scaled:
            if c["euclid"] and c["rank"] is not None and c["rank"] <= d and c["meth"] in ("mds", "isomap"):
                T = c["table"]
                d2 = [[Fraction(T[a][b]) ** 2 for b in range(n)] for a in range(n)]
                sd = max([x for row in d2 for x in row] + [Fraction(1, 10 ** 300)])
                line = "DIST %d %d %s %s %s" % (
                    n, d, qstr(tol * sd), " ".join(qstr(x) for row in Yq for x in row),
                    " ".join(qstr(x) for row in d2 for x in row))
                second.append((i, "dist", line))
            # model embedding with the oracle answers (dense front-end only)
            if c["solver"] == "dense" and site is not None:
                line = "EMBED %d %d %d 0 %s %s %s" % (
                    site, n, d, " ".join(qstr(x) for row in refvecs[2] for x in row),
                    " ".join(qstr(x[0]) for x in refvals[2]), " ".join(qstr(x[0]) for x in refsqrt[2]))
                second.append((i, "embed", line))
        ctxinfo[i] = (lam, V, Yf, top, lmax)
    out = run_model(ctx, mexe, [x[2] for x in second])
    for (i, kind, _), o in zip(second, out):
        c = cases[i]
        n, d = c["n"], c["d"]
        lam, V, Yf, top, lmax = ctxinfo[i]
        if kind == "factor":
            stats["spec_factor_checks"] += 1
            if o != "B 1":
                viol(i, "embedding violates the factor specification (Y^T Y = diag(lambda), B Y = Y diag(lambda), lambda = the "
                        "%d largest eigenvalues of the centred matrix, clamped at 0 = %s; per-column relative tolerance "
                        "%.2g): column squared norms %s, largest |<y_a,y_b>|/(|y_a||y_b|) %.3g" % (
                            d, top, c["_res"].get("tau", 0.0),
                            sorted(sum(Yf[a][cc] ** 2 for a in range(n)) for cc in range(d)), max_cosine(Yf, n, d)))
        elif kind == "dist":
            stats["spec_dist_checks"] += 1
            if o != "B 1":
                viol(i, "points span %d <= target_dimension %d dimensions but the pairwise distances are not reproduced" % (
                    c["rank"], d))
        elif kind == "embed":
            stats["model_embed_checks"] += 1
            if o == "NONE":
                ctx.mismatch(slim(c), "model: a selector of the generated table leaves its object (N=%d d=%d)" % (n, d))
                continue
            Ym = model_matrix(o)
            gapt = 1e-6 * max(lmax, 1e-300)
            for cc in range(d):
                t = n - d + cc
                isolated = (t == 0 or lam[t] - lam[t - 1] > gapt) and (t == n - 1 or lam[t + 1] - lam[t] > gapt)
                if not isolated:
                    continue
                ym = [fl(Ym[a][cc]) for a in range(n)]
                yi = [Yf[a][cc] for a in range(n)]
                scn = max(max(abs(x) for x in ym), 1e-300)
                same = all(abs(a - b) <= 1e-9 * scn for a, b in zip(ym, yi))
                flip = all(abs(a + b) <= 1e-9 * scn for a, b in zip(ym, yi))
                if not (same or flip):
                    ctx.mismatch(slim(c), "embedding column %d differs (beyond sign) from the model's "
                                 "V[:, N-d+%d] * sqrt(max(lambda,0)) computed from the replicated oracle call" % (cc, cc))
                    break
    # scale equivariance (Mds_scale_equivariance): Y(2^e D) = 2^e Y(D), checked to rounding on the Gram matrix
    for i, c in enumerate(cases):
        if not c.get("scale_exp") or i not in ctxinfo or violated[i]:
            continue
        base = c.get("_base")
        bres = base.get("_res") if base is not None else None
        if not bres or bres.get("status") != "ok":
            continue
        n, d = c["n"], c["d"]
        lam, V, Yf, top, lmax = ctxinfo[i]
        Yb = bres["Y"]
        f2 = 2.0 ** b_exp(c)                       # Gram matrices scale by 2^bexp
        tau = max(1e-9, c["_res"].get("tau", 0.0), bres.get("tau", 0.0))
        ns = sorted(sum(Yf[a][cc] ** 2 for a in range(n)) for cc in range(d))
        nb = sorted(sum(Yb[a][cc] ** 2 for a in range(n)) * f2 for cc in range(d))
        ref = max(nb + [1e-300])
        stats["equivariance_checks"] = stats.get("equivariance_checks", 0) + 1
        bad = None
        for x, y in zip(ns, nb):
            if not (abs(x - y) <= tau * math.sqrt(max(x, y) * ref) + 1e-11 * ref):
                bad = "column squared norms %s vs 2^%d * %s" % (ns, b_exp(c), [x / f2 for x in nb])
                break
        cut = d < n and lam[n - d] - lam[n - d - 1] <= 1e-6 * max(lmax, 1e-300)
        if bad is None and not cut:
            Gs = matmul(Yf, transpose(Yf))
            Gb = matmul(Yb, transpose(Yb))
            gref = max(maxabs(Gb) * f2, 1e-300)
            worst = max(abs(Gs[a][b] - Gb[a][b] * f2) for a in range(n) for b in range(n))
            if not (worst <= max(tau, 1e-9) * gref):
                bad = "Gram matrices differ by %.3g relative to the largest entry" % (worst / gref)
        if bad:
            viol(i, "scale equivariance: the embedding of 2^%d * (table) is not 2^%s * (embedding of the table) -- %s" % (
                c["scale_exp"], b_exp(c) / 2, bad))
    # projector comparison inside clusters (floats; labelled test)
    for i, c in enumerate(cases):
        if i not in ctxinfo or violated[i] or c.get("scale_exp"):
            continue
        n, d = c["n"], c["d"]
        lam, V, Yf, top, lmax = ctxinfo[i]
        if lmax <= 0:
            continue
        gapt = 1e-6 * lmax
        # clusters of the reference spectrum
        clusters, cur = [], [0]
        for t in range(1, n):
            if lam[t] - lam[t - 1] > gapt:
                clusters.append(cur)
                cur = [t]
            else:
                cur.append(t)
        clusters.append(cur)
        norms = [sum(Yf[a][cc] ** 2 for a in range(n)) for cc in range(d)]
        order = sorted(range(d), key=lambda cc: norms[cc])
        ptol = 1e-5 if c["solver"] == "dense" else max(1e-3, 10 * c["_res"].get("tau", 0.0))
        for cl in clusters:
            if lam[cl[0]] <= 1e-6 * lmax:
                continue                      # zero / negative eigenvalues: column is ~0, no direction
            inside = [t for t in cl if t >= n - d]
            if not inside:
                continue
            cols = [order[t - (n - d)] for t in inside]
            # each such column, normalised, must lie in the cluster's eigenspace
            for cc in cols:
                nn = math.sqrt(norms[cc])
                if nn == 0:
                    continue
                y = [Yf[a][cc] / nn for a in range(n)]
                coef = [math.fsum(V[a][t] * y[a] for a in range(n)) for t in cl]
                res = [y[a] - math.fsum(V[a][t] * cf for t, cf in zip(cl, coef)) for a in range(n)]
                if max(abs(x) for x in res) > ptol:
                    viol(i, "embedding column %d does not lie in the eigenspace of its eigenvalue cluster "
                            "(lambda ~ %g): residual %g" % (cc, lam[cl[0]], max(abs(x) for x in res)))
                    break
            stats["projector_checks"] += 1
    for i, c in enumerate(cases):
        if c.get("_res", {}).get("status") == "ok":
            c["_res"]["spec_ok"] = not violated[i]
    return violated


def max_cosine(Yf, n, d):
    nn = [math.sqrt(sum(Yf[a][c] ** 2 for a in range(n))) for c in range(d)]
    w = 0.0
    for a in range(d):
        for b in range(a + 1, d):
            if nn[a] > 0 and nn[b] > 0:
                w = max(w, abs(math.fsum(Yf[t][a] * Yf[t][b] for t in range(n))) / (nn[a] * nn[b]))
    return w


def eval_isomap_vs_mds(ctx, exe, cases, stats):
    """Isomap with k = N-1 against MDS on the same metric table: same Gram matrix Y Y^T"""
    iso = [c for c in cases if c["meth"] == "isomap" and c["solver"] == "dense"]
    if not iso:
        return 0
    lines = []
    for c in iso:
        for meth, k in (("isomap", c["k"]), ("mds", 0)):
            lines.append("EMB %s dense %d %d %d %d %s" % (meth, c["seed"], c["n"], c["d"], k, tab_tokens(c["table"])))
    impl = run_impl(ctx, exe, lines)
    for j, c in enumerate(iso):
        a, b = impl[2 * j], impl[2 * j + 1]
        Ea, Eb = a.mat("emb"), b.mat("emb")
        if a.crashed or b.crashed or a.skipped or b.skipped or Ea is None or Eb is None:
            continue        # reported by eval_e2e
        n = c["n"]
        Ya = [[fl(x) if x is not None else float("nan") for x in row] for row in Ea[2]]
        Yb = [[fl(x) if x is not None else float("nan") for x in row] for row in Eb[2]]
        Ga, Gb = matmul(Ya, transpose(Ya)), matmul(Yb, transpose(Yb))
        sc = max(maxabs(Gb), 1e-300)
        if any(not (abs(Ga[p][q] - Gb[p][q]) <= 1e-8 * sc) for p in range(n) for q in range(n)):
            ctx.violation(slim(c), "Isomap with k = N-1 on a metric table does not coincide with MDS "
                          "(Gram matrices of the two embeddings differ)")
        stats["isomap_vs_mds"] += 1
    return len(iso)


# ----------------------------------------------------------------------------- variants: calling context, keywords
# The property quantifies over inputs AND configurations: the same request must give an embedding that meets the same
# specification when tapkee::embed is called from inside an application's own OpenMP parallel region (one data set
# per thread; nested parallelism off / on; OMP_THREAD_LIMIT below the requested team) and when a keyword is left at its
# library default instead of being set explicitly to the same value.  Bit-for-bit equality with the plain serial call
# (which went through the factor specification) is the short cut; anything that is not bit-for-bit equal goes through
# the extracted decision procedure itself, and the matrix handed to the solver is compared with the model's.
PAR_CONFIGS = [(1, 0), (2, 0), (1, 2), (2, 2)]      # (omp_set_max_active_levels, OMP_THREAD_LIMIT; 0 = unset)
PAR_THREADS = 4
PAR_BATCH = 8


def variant_eligible(c):
    res = c.get("_res") or {}
    return (c.get("stream") == "e2e" and c.get("solver") == "dense" and not c.get("scale_exp")
            and res.get("status") == "ok" and res.get("spec_ok") and "embtok" in res
            and c["meth"] in ("mds", "kpca", "isomap") and c["n"] <= 32)


def plan_variants(chunk, counter, quick):
    """PAR batches over the eligible base cases of an evaluated chunk (configurations cycle) + keyword variants"""
    el = [c for c in chunk if variant_eligible(c)]
    out = []
    for i in range(0, len(el), PAR_BATCH):
        ds = el[i:i + PAR_BATCH]
        lv, lim = PAR_CONFIGS[counter[0] % len(PAR_CONFIGS)]
        counter[0] += 1
        out.append({"stream": "par", "levels": lv, "threads": PAR_THREADS, "thread_limit": lim, "datasets": ds,
                    "n": max(d["n"] for d in ds),
                    "gen": "par_region/levels=%d%s" % (lv, ",thread_limit=%d" % lim if lim else "")})
    for j, c in enumerate(el):
        out.append({"stream": "kw", "variant": "eigen_method_unset", "datasets": [c], "n": c["n"],
                    "gen": "keyword_default/eigen_method_unset"})
        if c["d"] == 2:
            out.append({"stream": "kw", "variant": "target_dimension_unset", "datasets": [c], "n": c["n"],
                        "gen": "keyword_default/target_dimension_unset"})
        if j % 3 == 0:
            out.append({"stream": "kw", "variant": "omp_thread_limit_below_num_threads", "datasets": [c], "n": c["n"],
                        "env": {"OMP_NUM_THREADS": "4", "OMP_THREAD_LIMIT": "2" if j % 2 else "1"},
                        "gen": "omp_env/thread_limit_below_num_threads"})
    return out


def short_why(why):
    """first informative part of a sanitizer / abort message (rulers and blank lines dropped)"""
    return " ".join(x for x in re.sub(r"={5,}", " ", str(why)).split())[:500]


def model_B_line(d):
    return "%s %d %s" % ({"mds": "MDS", "kpca": "KPCA", "isomap": "MDS"}[d["meth"]], d["n"], tab_q(d["table"]))


def context_text(b, r=None):
    if b["stream"] == "rng":
        return "called through tapkee::with(...).embedRange(begin, end) " + range_text(b["range"])
    if b["stream"] == "par":
        return ("called from inside the application's `#pragma omp parallel for num_threads(%d)` region, one data set per "
                "thread (omp_set_max_active_levels(%d), OMP_THREAD_LIMIT %s, OMP_NUM_THREADS 2%s)" % (
                    b["threads"], b["levels"], b["thread_limit"] or "unset",
                    ", observed team: %s" % r.P["team"].split()[0] if r is not None and "team" in r.P else ""))
    if b["variant"] == "omp_thread_limit_below_num_threads":
        return "called from plain serial code with %s in the environment" % " ".join(
            "%s=%s" % kv for kv in sorted((b.get("env") or {}).items()))
    if b["variant"] == "eigen_method_unset":
        return "called with the eigen_method keyword left unset (library default) instead of eigen_method = Dense"
    return "called with the target_dimension keyword left unset (documented default 2) instead of target_dimension = 2"


def eval_variants_inner(ctx, exe, mexe, tab, batches, stats):
    """-> list of (batch index, data set index, why) for every data set whose variant call violates the property"""
    found = []
    if not batches:
        return found
    results = [None] * len(batches)
    groups = {}
    for bi, b in enumerate(batches):
        env = dict(b.get("env") or {})
        if b["stream"] == "par" and b.get("thread_limit"):
            env["OMP_THREAD_LIMIT"] = str(b["thread_limit"])
        groups.setdefault(tuple(sorted(env.items())), []).append(bi)
    for envkey, idxs in sorted(groups.items()):
        lines = []
        for bi in idxs:
            b = batches[bi]
            if b["stream"] == "par":
                lines.append("PAR %d %d %d %s" % (b["levels"], b["threads"], len(b["datasets"]), " ".join(
                    "%s %d %d %d %s" % (d["meth"], d["d"], d["k"], d["n"], tab_tokens(d["table"])) for d in b["datasets"])))
            elif b["stream"] == "rng":
                d = b["datasets"][0]
                lines.append(rng_line(b["range"], d["meth"], d["solver"], d["seed"], d["n"], d["d"], d["k"]))
            else:
                d = b["datasets"][0]
                lines.append("EMB %s %s %d %d %d %d %s" % (
                    d["meth"], "default" if b["variant"] == "eigen_method_unset" else "dense", d["seed"], d["n"],
                    -1 if b["variant"] == "target_dimension_unset" else d["d"], d["k"], tab_tokens(d["table"])))
        impl = run_impl(ctx, exe, lines, env=dict(envkey) or None)
        for bi, r in zip(idxs, impl):
            results[bi] = r
    pending = []            # (bi, di, kind, payload)
    mlines = []
    for bi, (b, r) in enumerate(zip(batches, results)):
        if r.skipped:
            continue
        par = b["stream"] == "par"
        stats["variant_" + b["stream"]] = stats.get("variant_" + b["stream"], 0) + 1
        if b["stream"] == "rng":
            key = "%s/%s" % (b["range"]["cont"], b["range"]["cb"])
            combos = stats.setdefault("rng_combos", {})
            combos[key] = combos.get(key, 0) + 1
            if "dequebreaks" in r.P and r.P["dequebreaks"].strip() not in ("", "0"):
                stats["rng_deque_noncontiguous"] = stats.get("rng_deque_noncontiguous", 0) + 1
            if len(set(b["range"]["ids"])) < len(b["range"]["ids"]):
                stats["rng_repeated_ids"] = stats.get("rng_repeated_ids", 0) + 1
        if r.crashed:
            found.append((bi, 0, "tapkee::embed %s aborts / hangs: %s" % (context_text(b), short_why(r.why))))
            continue
        if par and "team" in r.P:
            key = "par_team_%s" % r.P["team"].split()[0]
            stats[key] = stats.get(key, 0) + 1
        if r.X is not None and par:
            found.append((bi, 0, "the batch driver threw (%s) %s" % (r.X, context_text(b))))
            continue
        for di, d in enumerate(b["datasets"]):
            res = d.get("_res") or {}
            if res.get("status") != "ok" or not res.get("spec_ok") or "embtok" not in res:
                continue          # the plain serial call itself fails: reported by the end-to-end stream
            n, dd = d["n"], d["d"]
            what = "data set %d (%s, N=%d, target_dimension=%d)" % (di, d["meth"], n, dd)
            stats["variant_datasets"] = stats.get("variant_datasets", 0) + 1
            if par:
                perr, serr = r.P.get("perr%d" % di), r.P.get("serr%d" % di)
                if serr is not None:
                    ctx.mismatch(slim(b), "%s: the serial call inside the batch driver throws (%s) but the same call in the "
                                 "end-to-end stream did not" % (what, serr))
                    continue
                if perr is not None:
                    found.append((bi, di, "%s: tapkee::embed throws (%s) only when %s; the plain serial call on the same "
                                          "table returns an embedding that meets the factor specification" % (
                                              what, perr, context_text(b, r))))
                    continue
                tagB, tagE = "pB%d" % di, "pemb%d" % di
            else:
                if r.X is not None:
                    found.append((bi, di, "%s: tapkee::embed throws (%s) when %s" % (what, r.X, context_text(b, r))))
                    continue
                tagB, tagE = ("B" if b["stream"] == "rng" else None), "emb"
            E = r.mat(tagE)
            if r.garbage or E is None or (E[0], E[1]) != (n, dd) or (tagB and (r.mat(tagB) is None or
                                                                             (r.mat(tagB)[0], r.mat(tagB)[1]) != (n, n))):
                found.append((bi, di, "%s: the embedding / the solver input is missing or has the wrong shape when %s" % (
                    what, context_text(b, r))))
                continue
            # the matrix handed to the solver in that calling context
            if tagB:
                if r.R[tagB][2] == res["Btok"]:
                    stats["variant_B_bitwise"] = stats.get("variant_B_bitwise", 0) + 1
                else:
                    pending.append((bi, di, "B", r.mat(tagB)[2]))
                    mlines.append(model_B_line(d))
            if r.R[tagE][2] == res["embtok"]:
                stats["variant_emb_bitwise"] = stats.get("variant_emb_bitwise", 0) + 1
                continue
            if any(x is None for row in E[2] for x in row):
                found.append((bi, di, "%s: the embedding contains NaN/inf when %s; the plain serial call returns a finite "
                                      "embedding that meets the factor specification" % (what, context_text(b, r))))
                continue
            pending.append((bi, di, "emb", E[2]))
            mlines.append(model_B_line(d))
    if not pending:
        return found
    mB = [model_matrix(x) for x in run_model(ctx, mexe, mlines)]
    second = []
    for (bi, di, kind, M), Bm in zip(pending, mB):
        b, r = batches[bi], results[bi]
        d = b["datasets"][di]
        res = d["_res"]
        n, dd = d["n"], d["d"]
        what = "data set %d (%s, N=%d, target_dimension=%d)" % (di, d["meth"], n, dd)
        if kind == "B":
            scaleB = max([abs(x) for row in Bm for x in row] + [Fraction(1, 10 ** 300)])
            bad = next(((a, c2) for a in range(n) for c2 in range(n)
                        if M[a][c2] is None or abs(M[a][c2] - Bm[a][c2]) > Fraction(1, 10 ** 11) * scaleB), None)
            if bad:
                a, c2 = bad
                found.append((bi, di, "%s: the matrix handed to the solver differs from %s at (%d,%d): got %s, mathematical "
                                      "object %s, when %s; the plain serial call builds the mathematical object" % (
                                          what, "J K J" if d["meth"] == "kpca" else "-1/2 J D2 J", a, c2,
                                          None if M[a][c2] is None else float(M[a][c2]), float(Bm[a][c2]),
                                          context_text(b, r))))
            else:
                stats["variant_B_within_tolerance"] = stats.get("variant_B_within_tolerance", 0) + 1
        else:
            line, tau, _ = factor_line(d.get("solver", "dense") if b["stream"] == "rng" else "dense", n, dd, Bm, M,
                                       res["top"], res["lmax"], res.get("kappa_gs") if b["stream"] == "rng" else None)
            second.append((bi, di, line, tau, M))
    out = run_model(ctx, mexe, [x[2] for x in second])
    for (bi, di, _, tau, M), o in zip(second, out):
        b, r = batches[bi], results[bi]
        d = b["datasets"][di]
        res = d["_res"]
        n, dd = d["n"], d["d"]
        stats["spec_factor_checks"] += 1
        if o == "B 1":
            stats["variant_emb_spec_ok_not_bitwise"] = stats.get("variant_emb_spec_ok_not_bitwise", 0) + 1
            continue
        Yf = [[fl(x) for x in row] for row in M]
        found.append((bi, di, "data set %d (%s, N=%d, target_dimension=%d): the embedding violates the factor specification "
                              "(Y^T Y = diag(lambda), B Y = Y diag(lambda), lambda = %s; per-column relative tolerance %.2g) "
                              "when %s: column squared norms %s; the plain serial call on the same table meets it" % (
                                  di, d["meth"], n, dd, res["top"], tau, context_text(b, r),
                                  sorted(sum(Yf[a][cc] * Yf[a][cc] for a in range(n)) for cc in range(dd)))))
    return found


def eval_variants(ctx, exe, mexe, tab, batches, stats, report=True):
    """calling-context (PAR) and keyword-default (kw) variants of end-to-end cases.  Replays carry their data sets
    without results: those are evaluated first (plain serial call through the whole end-to-end pipeline)."""
    if not batches:
        return 0
    pre, seen_ds = [], set()
    for b in batches:
        for d in b["datasets"]:
            if "_res" not in d and id(d) not in seen_ds:       # range variants share their data set
                seen_ds.add(id(d))
                pre.append(d)
    if pre:
        for d in pre:
            d.setdefault("stream", "e2e")
        eval_e2e(ctx, exe, mexe, pre, tab, stats, report=report)
    found = eval_variants_inner(ctx, exe, mexe, tab, batches, stats)
    seen, shrunk = set(), 0
    for bi, di, why in found:
        if bi in seen:
            continue
        seen.add(bi)
        b = batches[bi]
        if report:
            small = b
            if len(b["datasets"]) > 1 and shrunk < 3:
                # one data set is enough when the defect depends on the calling context only
                shrunk += 1
                cand = dict(b, datasets=[b["datasets"][di]], n=b["datasets"][di]["n"])
                f2 = eval_variants_inner(ctx, exe, mexe, tab, [cand], new_stats())
                if f2:
                    small, why = cand, f2[0][2]
            ctx.violation(slim(small), why)
    return len(batches)


# ----------------------------------------------------------------------------- huge finite magnitudes
# 2^498 ~ 8e149: the squares (~1e300) are still finite; from 2^511 on the squared distances / the column sums of the
# centring overflow.  Whatever happens, the outcome must be a C++ exception the caller can catch or a matrix, never
# std::terminate / abort (an exception thrown inside an OpenMP region terminates the process); where everything stays
# finite the embedding must still meet the factor specification.
HUGE_EXPS = {"dist": [498, 505, 511, 520, 700, 1000], "kernel": [990, 1005, 1012, 1016]}


def gen_huge(rng, count):
    cases = []
    for t in range(count):
        n = rng.choice([4, 5, 6, 8])
        r = rng.choice([1, 2])
        P = rand_points(rng, n, r, 5)
        meth = ["mds", "kpca", "isomap"][t % 3]
        solver = ["dense", "randomized", "default"][(t // 3) % 3]
        exps = HUGE_EXPS["kernel" if meth == "kpca" else "dist"]
        e = exps[(t // 3 + t // 9) % len(exps)]
        T = gram_table(P) if meth == "kpca" else dist_table(P)
        f = 2.0 ** e
        m = max(abs(x) for row in T for x in row)
        while m * f == float("inf"):
            f /= 2.0
            e -= 1
        cases.append({"stream": "huge", "meth": meth, "solver": solver, "n": n, "d": min(r, n - 1), "rank": r,
                      "k": n - 1 if meth == "isomap" else 0, "seed": rng.randrange(1, 10 ** 6),
                      "table": [[x * f for x in row] for row in T], "huge_exp": e, "gen": "huge_2^%d" % e})
    return cases


def eval_huge(ctx, exe, mexe, cases, stats):
    if not cases:
        return 0
    lines = ["FULL %s %s %d %d %d %d %s" % (c["meth"], c["solver"], c["seed"], c["n"], c["d"], c["k"],
                                            tab_tokens(c["table"])) for c in cases]
    impl = run_impl(ctx, exe, lines)
    outcomes = stats.setdefault("huge_outcomes", {})
    second, mlines = [], []
    for c, r in zip(cases, impl):
        if r.skipped:
            continue
        stats["huge"] = stats.get("huge", 0) + 1
        n, d = c["n"], c["d"]
        if r.crashed:
            ctx.violation(slim(c), "finite input of huge magnitude (entries up to %.3g): tapkee::embed (or the routines it "
                          "calls) aborts / hangs instead of throwing an exception or returning a matrix: %s" % (
                              max(abs(x) for row in c["table"] for x in row), short_why(r.why)))
            continue
        if r.X is not None:
            key = "exception: " + r.X[:60]
            outcomes[key] = outcomes.get(key, 0) + 1
            continue
        E, B, refvals = r.mat("emb"), r.mat("B"), r.mat("refvals")
        if r.garbage or E is None or (E[0], E[1]) != (n, d):
            ctx.violation(slim(c), "finite input of huge magnitude: the embedding is missing or not N x target_dimension")
            continue
        finite = (all(x is not None for row in E[2] for x in row) and B is not None and refvals is not None
                  and all(x is not None for row in B[2] for x in row) and all(x[0] is not None for x in refvals[2]))
        key = "matrix (%s)" % ("finite" if finite else "with NaN/inf")
        outcomes[key] = outcomes.get(key, 0) + 1
        if finite and c["solver"] != "randomized":
            second.append((c, E[2], [fl(x[0]) for x in refvals[2]]))
            mlines.append(model_B_line(c))
    mB = [model_matrix(x) for x in run_model(ctx, mexe, mlines)]
    flines, kept = [], []
    for (c, Yq, lam), Bm in zip(second, mB):
        n, d = c["n"], c["d"]
        try:
            lmax = max(abs(x) for x in lam)
            top = [max(x, 0.0) for x in lam[n - d:]]
            flines.append(factor_line("dense", n, d, Bm, Yq, top, lmax)[0])
            kept.append((c, Yq, lam))
        except (ArithmeticError, ValueError) as ex:
            ctx.violation(slim(c), "finite input of huge magnitude: the factor specification cannot even be evaluated on the "
                          "returned embedding (%s: %s)" % (type(ex).__name__, ex))
    second = kept
    for (c, Yq, lam), o in zip(second, run_model(ctx, mexe, flines)):
        stats["spec_factor_checks"] += 1
        stats["huge_spec_checked"] = stats.get("huge_spec_checked", 0) + 1
        if o != "B 1":
            n, d = c["n"], c["d"]
            ctx.violation(slim(c), "finite input of huge magnitude, every intermediate finite: the embedding violates the "
                          "factor specification (lambda = %s): column squared norms %s" % (
                              [max(x, 0.0) for x in lam[n - d:]],
                              sorted(sfl(sum(Yq[a][cc] * Yq[a][cc] for a in range(n))) for cc in range(d))))
    return len(cases)


# ----------------------------------------------------------------------------- known finding F7
def probe_f7(ctx, exe, mexe, tab, stats):
    """smallest-eigenvalue dense site: the model (generated table) says whether the eigenvalue slice leaves the
    vector at N = d + skip; the real call is then run on that size."""
    site = site_index(tab, "eigendecomposition_impl_dense", False)
    if site is None:
        return
    out = run_model(ctx, mexe, ["VIEWS %d 5 4 1" % site, "VIEWS %d 6 2 1" % site])
    n = 5
    T = [[float((i + 1) * (j + 1) + (3 if i == j else 0)) for j in range(n)] for i in range(n)]
    case = {"stream": "f7", "n": 5, "d": 4, "table": T, "seed": 1, "gen": "f7_probe"}
    r = run_impl(ctx, exe, ["TRI dense smallest 1 5 4 %s" % tab_tokens(T)])[0]
    stats["f7_probe"] = out[0]
    if r.skipped:
        return
    model_oob = out[0].split()[3:5] == ["-1", "-1"]
    vals = r.mat("vals")
    if r.crashed or (vals is not None and vals[0] != 4):
        ctx.violation(slim(case), "eigenvalues().segment(skip, skip+d) at N = d + skip = 5: %s" % (
            ("abort: " + str(r.why)[:300]) if r.crashed else "returned %d eigenvalues for target_dimension 4" % vals[0]),
            signature=F7_SIG)
        if not model_oob:
            ctx.mismatch(slim(case), "real eigenvalue slice misbehaves at N=d+skip but the generated table is in range")
    elif model_oob:
        ctx.mismatch(slim(case), "generated table: eigenvalue slice out of range at N=5,d=4,skip=1, real call ran clean")


# ----------------------------------------------------------------------------- shrinking
def shrink_e2e(ctx, exe, mexe, tab, c):
    """drop samples while the case still violates the spec (keeps d < n)"""
    best = c
    stats = new_stats()
    for _ in range(12):
        n = best["n"]
        if n <= max(2, best["d"] + 1) or (best["meth"] == "isomap" and n <= 4):
            break
        progressed = False
        for drop in range(n - 1, -1, -1):
            T = [[x for j, x in enumerate(row) if j != drop] for i, row in enumerate(best["table"]) if i != drop]
            cand = {k: v for k, v in best.items() if not k.startswith("_") and k != "points"}
            cand.update(n=n - 1, table=T)
            if cand["meth"] == "isomap":
                cand["k"] = n - 2
            if eval_e2e(ctx, exe, mexe, [cand], tab, stats, report=False)[0]:
                best = cand
                progressed = True
                break
        if not progressed:
            break
    return best


def new_stats():
    return {"matrix_stage": 0, "spec_matrix_checks": 0, "e2e": 0, "oracle_calls_checked": 0, "spec_factor_checks": 0,
            "spec_dist_checks": 0, "model_embed_checks": 0, "projector_checks": 0, "triangle_probes": 0,
            "isomap_vs_mds": 0, "f7_probe": None}


# ----------------------------------------------------------------------------- driver
def eval_rgs(ctx, exe, mexe, cases, stats):
    """step tie of the randomized front-end (tolerance stream).  The real call
    tapkee_internal::eigendecomposition(Randomized, LargestEigenvalues, A, k) against the EXTRACTED model of the loop
    (Mds_Exec_Wave2.c05_rgs = rand_basis: test matrix through the upper triangle, Gram-Schmidt with its cut-off
    branch; c05_rsmall = Y^T (A Y)) run on the test matrix the solver drew and on the norm-oracle answers:
      span: (returned vectors)(returned vectors)^T = Y_model Y_model^T;
      small problem: (Y_m^T A Y_m) W = W diag(returned values), W = Y_m^T (returned vectors), values ascending.
    A is any symmetric integer matrix (full rank: outside the property's domain, so disagreements are correspondence
    failures, which start the search phase, not violations)."""
    if not cases:
        return 0
    impl = run_impl(ctx, exe, ["TRI randomized largest %d %d %d %s" % (c["seed"], c["n"], c["d"], tab_tokens(c["table"]))
                               for c in cases])
    mlines, idx = [], []
    for i, (c, r) in enumerate(zip(cases, impl)):
        n, k = c["n"], c["d"]
        if r.skipped:
            continue
        Om = r.mat("omega")
        if r.crashed or Om is None or (Om[0], Om[1]) != (n, k) or any(x is None for row in Om[2] for x in row):
            ctx.mismatch(slim(c), "randomized step tie: no test matrix from the harness (%s)" % (r.why or r.X))
            continue
        Af = c["table"]
        Of = [[fl(x) for x in row] for row in Om[2]]
        norms, fired, _ = gs_replay(Af, Of, n, k)
        if fired or min(norms) < 10 * GS_CUTOFF:
            stats["rgs_skipped_cutoff"] = stats.get("rgs_skipped_cutoff", 0) + 1
            continue
        mlines.append("RGS %d %d %s %s %s %s" % (n, k, qstr(Fraction(GS_CUTOFF)), tab_q(Af),
                                                  " ".join(qstr(x) for row in Om[2] for x in row),
                                                  " ".join(qstr(Fraction(x)) for x in norms)))
        idx.append(i)
    Ym = [model_matrix(o) for o in run_model(ctx, mexe, mlines)]
    small = run_model(ctx, mexe, ["RSMALL %d %d %s %s" % (cases[i]["n"], cases[i]["d"], tab_q(cases[i]["table"]),
                                                           " ".join(qstr(x) for row in Y for x in row))
                                  for i, Y in zip(idx, Ym)])
    for i, Y, sm in zip(idx, Ym, small):
        c, r = cases[i], impl[i]
        n, k = c["n"], c["d"]
        stats["rgs_ties"] = stats.get("rgs_ties", 0) + 1
        vecs, vals = r.mat("vecs"), r.mat("vals")
        if r.X is not None or vecs is None or vals is None or (vecs[0], vecs[1]) != (n, k) or vals[0] != k \
                or any(x is None for row in vecs[2] for x in row) or any(x[0] is None for x in vals[2]):
            ctx.mismatch(slim(c), "randomized step tie: the real call throws / returns NaN although no Gram-Schmidt norm "
                         "is near the cut-off (%s)" % r.X)
            continue
        Yf = [[fl(x) for x in row] for row in Y]
        Vf = [[fl(x) for x in row] for row in vecs[2]]
        th = [fl(x[0]) for x in vals[2]]
        Pm = matmul(Yf, transpose(Yf))
        Pi = matmul(Vf, transpose(Vf))
        perr = max(abs(Pm[a][b] - Pi[a][b]) for a in range(n) for b in range(n))
        Bs = [[fl(x) for x in row] for row in model_matrix(sm)]
        W = matmul(transpose(Yf), Vf)
        BW = matmul(Bs, W)
        sc = max(maxabs(Bs), 1e-300)
        rerr = max(abs(BW[a][b] - W[a][b] * th[b]) for a in range(k) for b in range(k)) / sc
        asc = all(th[a] <= th[a + 1] + 1e-12 * sc for a in range(k - 1))
        if perr > 1e-8 or rerr > 1e-8 or not asc:
            ctx.mismatch(slim(c), "randomized step tie: the real front-end disagrees with the extracted model of its loop: "
                         "span error %.3g, small-eigenproblem residual %.3g, ascending %s" % (perr, rerr, asc))
    return len(cases)


def gen_rgs(rng, count):
    cases = []
    for t in range(count):
        n = rng.choice([3, 4, 5, 6])
        k = rng.choice([1, 2, 2, 3, 3])
        k = min(k, n - 1)
        T = [[0.0] * n for _ in range(n)]
        for i in range(n):
            for j in range(i, n):
                T[i][j] = T[j][i] = float(rng.randint(-9, 9))
        cases.append({"stream": "rgs", "n": n, "d": k, "table": T, "seed": rng.randrange(1, 10 ** 6),
                      "gen": "randomized_step_tie"})
    return cases


def evaluate_all(ctx, exe, mexe, tab, cases, stats, shrink=True, scale=True):
    """returns (number of evaluations, the scaled copies that were generated on the way)"""
    n = 0
    extra = []
    n += eval_matrix_stage(ctx, exe, mexe, [c for c in cases if c["stream"] in ("exact", "generic")], stats)
    n += eval_triangles(ctx, exe, mexe, [c for c in cases if c["stream"] == "tri"], stats)
    n += eval_rgs(ctx, exe, mexe, [c for c in cases if c["stream"] == "rgs"], stats)
    n += eval_huge(ctx, exe, mexe, [c for c in cases if c["stream"] == "huge"], stats)
    # replays / corpus entries that are calling-context or keyword variants
    n += eval_variants(ctx, exe, mexe, tab, [c for c in cases if c["stream"] in ("par", "kw", "rng")], stats, report=True)
    rrng = vlib.random.Random(ctx.seed * 7919 + 4)
    rcounter = [ctx.seed % len(RANGE_COMBOS)]
    e2e = [c for c in cases if c["stream"] == "e2e"]

    def run_chunk(chunk):
        violated = eval_e2e(ctx, exe, mexe, chunk, tab, stats, report=not shrink)
        if shrink:
            done = 0
            for c, v in zip(chunk, violated):
                if v:
                    known = any(e.get("kind") == "finding" and e.get("signature") == v for e in ctx._known_db)
                    small = c
                    if not known and v is True and done < 2:
                        small = shrink_e2e(ctx, exe, mexe, tab, c)
                        done += 1
                    keep = c.get("_res")
                    eval_e2e(ctx, exe, mexe, [small], tab, new_stats(), report=True)
                    if small is c and keep is not None:
                        c["_res"] = keep
        return len(chunk)

    base = [c for c in e2e if not c.get("scale_exp")]
    given = [c for c in e2e if c.get("scale_exp")]           # replays / corpus entries that are scaled copies
    counter = [0]
    vcounter = [0]
    for i in range(0, len(base), 60):
        chunk = base[i:i + 60]
        n += run_chunk(chunk)
        if scale:
            sc = plan_scaled(chunk, counter, ctx.quick)
            extra += sc
            for j in range(0, len(sc), 120):
                n += run_chunk(sc[j:j + 120])
            # the same requests from inside an application's parallel region / with keywords left at their defaults
            va = plan_variants(chunk, vcounter, ctx.quick)
            # ... and on the same samples in other containers, through other callbacks, as ids into a larger table
            va += plan_ranges(chunk, rcounter, ctx.quick, rrng)
            extra += va
            n += eval_variants(ctx, exe, mexe, tab, va, stats, report=True)
    for i in range(0, len(given), 60):
        n += run_chunk(given[i:i + 60])
    n += eval_isomap_vs_mds(ctx, exe, base, stats)
    return n, extra


def run(ctx):
    rng = ctx.rng
    quick = ctx.quick
    # the harness TU (70-90 s of g++) is built in a thread while the translator, the proofs and the extraction run
    from concurrent.futures import ThreadPoolExecutor
    t_cpp = [0.0]

    def build_harness():
        exe_ = ctx.cpp("harness/c05.cpp", extra=CPP_EXTRA)
        t_cpp[0] = ctx.elapsed()
        return exe_

    with ThreadPoolExecutor(max_workers=1) as pool:
        fut = pool.submit(build_harness)
        tab, coq, mexe = build_all(ctx)
        t_ext = ctx.elapsed()
        exe = fut.result()
    ctx.note("wall: harness build done at %.0fs (in parallel), translator + coq + extraction done at %.0fs" % (t_cpp[0], t_ext))
    t_ext = ctx.elapsed()
    stats = new_stats()
    cases = []
    for name, c in ctx.corpus():
        c = unslim(c)
        c["gen"] = "corpus:" + name
        cases.append(c)
    cases += gen_exact(rng, 120 if quick else 1200)
    cases += gen_generic_matrix(rng, 30 if quick else 300)
    cases += gen_tri(rng, 12 if quick else 100)
    cases += gen_rgs(rng, 10 if quick else 80)
    cases += gen_huge(rng, 27 if quick else 108)
    cases += gen_e2e(rng, quick, 96 if quick else 448, 24 if quick else 48)
    cases += gen_repeat(rng, 18 if quick else 72)
    cases += gen_big_deque(rng, 3 if quick else 8)
    cases += gen_exact_ranges(rng, cases, 1 if quick else 3)
    n, scaled = evaluate_all(ctx, exe, mexe, tab, cases, stats)
    cases += scaled
    ctx.note("wall: cases %.0fs (extracted model %.0fs, harness %.0fs)" % (ctx.elapsed() - t_ext, TIMES["model"], TIMES["impl"]))
    if tab is not None:
        probe_f7(ctx, exe, mexe, tab, stats)
        n += 1
    if not quick:
        # translator self-test: every seeded mutation of a scratch copy of the sources must change the table
        import io
        import contextlib
        import t_eig
        buf = io.StringIO()
        with contextlib.redirect_stdout(buf):
            ok = t_eig.self_test(ctx.repo)
        stats["translator_self_test"] = "ok" if ok else buf.getvalue()[-400:]
        if not ok:
            ctx.unshown("translator t_eig self-test: a seeded edit of the selection expressions is not detected: "
                        + buf.getvalue()[-300:])
    # search phase (CONVENTIONS 3.2): something is no longer shown and no concrete input yet
    if ctx.is_unshown():
        ctx.note("search phase: proof / translator / correspondence no longer checks; looking for a failing input")
        srng = vlib.random.Random(ctx.seed + 1)
        extra = gen_e2e(srng, False, 400 if quick else 2000, 24) + gen_exact(srng, 300) + small_exhaustive()
        extra += gen_rgs(srng, 40) + gen_huge(srng, 54) + gen_repeat(srng, 36) + gen_big_deque(srng, 3)
        extra += gen_exact_ranges(srng, extra, 1)
        n2, scaled2 = evaluate_all(ctx, exe, mexe, tab, extra, stats)
        n += n2
        cases += extra + scaled2
    hist = {}
    for c in cases:
        key = c["gen"].split(":")[0].split("@")[0] + ("/" + c["solver"] if "solver" in c else "") + \
            (("@2^%d" % c["scale_exp"] if c["scale_exp"] in SCALE_EXPS else "@cutoff-boundary") if c.get("scale_exp") else "")
        hist[key] = hist.get(key, 0) + 1
    sizes = {}
    for c in cases:
        sizes["N=%d" % c["n"]] = sizes.get("N=%d" % c["n"], 0) + 1
    distinct = {case_key(c) for c in cases if (c["stream"] == "e2e" and c["n"] >= 3) or
                (c["stream"] in ("exact", "generic") and c["n"] >= 4) or
                c["stream"] in ("tri", "rgs", "par", "kw", "huge", "rng")}
    samples = [slim(c) for c in (cases[:1] + [c for c in cases if c["stream"] == "e2e"][:3]) if c["n"] <= 8][:4]
    ctx.finish(
        evaluations=n, distinct_nontrivial=len(distinct),
        rule="cases = corpus + exact stream (integer tables, N in {2,4,8,16}: symmetric, 1-D Euclidean, garbage lower "
             "triangle, asymmetric centerMatrix input) + generic matrix stream + triangle probes + end-to-end public-API "
             "cases (Euclidean of rank <,=,> d; collinear; regular simplex; large offset; duplicated samples; non-Euclidean; "
             "linear/Gaussian/polynomial kernels; Isomap k=N-1; anisotropic exact-rank-d configurations with d >= 3 and "
             "retained spectra over up to 10 decades (MDS and linear Kernel PCA); dense, and randomized when rank <= d) + "
             "SCALED COPIES of every end-to-end case that returned an embedding (table times 2^e, e in {-40,-30,-20,20,40}: "
             "quick tier one down- and one up-scale per case, cycling; thorough three; the randomized solver only down "
             "to the scale where its replayed Gram-Schmidt norms stay above its absolute 1e-4 cut-off, known finding F36, "
             "with a boundary case just above it) + exact stream cases on dyadic tiny/huge scales + randomized step-tie "
             "cases.  non-trivial = end-to-end with N >= 3, matrix stage with N >= 4, a triangle probe or a step tie; "
             "distinct by hash of (stream, method, solver, N, d, k, table).  Every end-to-end output goes through the "
             "extracted factor_spec decision procedure with per-column relative tolerances (relative to |B|, never looser "
             "than 4e-8 / 4e-6 of the top eigenvalue); every scaled copy is also compared with 2^e times its base.  "
             "WAVE 3: every dense end-to-end case that met the specification is repeated (a) in a batch of up to 8 data sets "
             "from INSIDE the harness's own `#pragma omp parallel for num_threads(4) schedule(static,1)` region (one data "
             "set per thread; omp_set_max_active_levels 1 / 2 and OMP_THREAD_LIMIT unset / 2 cycle over the batches): the "
             "matrix handed to the solver and the public-API embedding must be bit-for-bit those of the plain serial call, "
             "anything that is not goes through the model comparison / the extracted factor specification; (b) with the "
             "eigen_method keyword left unset, with target_dimension left unset when it is 2, and (every third case) from "
             "serial code under OMP_NUM_THREADS=4 with OMP_THREAD_LIMIT=1 or 2: same judgement; + a stream of finite inputs "
             "of HUGE magnitude (distances times 2^498..2^1000, kernels times 2^990..2^1016; MDS, Kernel PCA, Isomap; dense, "
             "randomized, default solver): the outcome must be an exception or a matrix, never an abort, and where every "
             "intermediate stays finite the factor specification is applied; + exact-stream linear kernels with a common "
             "offset of 2^20 / 10^6 against a spread of 8; lattices scaled by non-powers-of-two and permuted; linear "
             "kernels with more features than samples.  "
             "WAVE 4 (stream rng): every end-to-end case (dense and randomized) that met the specification is repeated "
             "through tapkee::with(..).embedRange(begin,end) and the internal matrix routines on the SAME sequence of samples "
             "held in another container kind (std::vector sub-range, whole std::deque, std::deque sub-range across a block "
             "boundary, strided adaptor, reversing adaptor; decoy ids everywhere else) with another callback pair (hand-written "
             "table, tapkee::precomputed_*, tapkee::eigen_* over integer feature points), as ids (unsorted / sorted / identity) "
             "into a larger table with decoy samples: the 18 (container, callback) pairs cycle; + id sequences with REPEATED "
             "ids (sorted with as many entries as the table has samples and end points 0 and m-1; unsorted; longer; shorter) "
             "into Euclidean tables; + whole std::deque ranges with N in 130..133 on integer tables; + a range twin of every "
             "exact-stream DM / KM case (bit for bit against the Qc model of the denoted table; every fourth with repeated ids) "
             "and whole-deque exact cases with N = 256.  Judgement: bit-for-bit the plain call on the denoted table, else model "
             "comparison (1e-11) + extracted factor specification.",
        samples=samples,
        histogram={"generators": hist, "sizes": sizes, "stats": stats},
        trusted_base=TRUSTED,
        assumptions=["distance tables are symmetric with zero diagonal, kernel tables symmetric positive semi-definite "
                     "(the callbacks are only asked for i <= j)",
                     "1 <= target_dimension < N; randomized solver only on inputs of rank <= target_dimension and only on "
                     "scales where no replayed Gram-Schmidt norm falls under its absolute cut-off 1e-4 (known finding F36: "
                     "below that scale the original throws)",
                     "finite inputs (no NaN/inf); beyond ~1e154 (squares overflow) only 'exception or matrix, no abort' "
                     "is claimed",
                     "calling context: any thread of an application's OpenMP parallel region may call tapkee::embed on its "
                     "own data set (dense solver; the randomized solver draws from the process-wide std::rand and is not "
                     "reproducible under concurrency, so it is exercised from serial code only)",
                     "solver and sqrt oracle contracts of DESIGN 1.3 (validated on every replicated call)",
                     "ranges: any random-access range of sample ids (the value_type is IndexType = int in every harness "
                     "instantiation; other value types are not exercised); callbacks are pure functions of the two samples"],
        extra={"translator_table_sites": None if tab is None else len(tab["branches"]),
               "model_cache_hits": STATS_CACHE["hits"]})


def small_exhaustive():
    """all symmetric 3x3 / a slice of 4x4 integer distance tables with entries in {0,1,2} (matrix stage vs spec)"""
    out = []
    import itertools
    for n, vals in ((3, (0, 1, 2, 3)), (4, (0, 1, 2))):
        pairs = [(i, j) for i in range(n) for j in range(i + 1, n)]
        for k, combo in enumerate(itertools.product(vals, repeat=len(pairs))):
            if n == 4 and k % 3:
                continue
            T = [[0.0] * n for _ in range(n)]
            for (i, j), v in zip(pairs, combo):
                T[i][j] = T[j][i] = float(v)
            out.append({"stream": "generic" if n == 3 else "exact", "cmd": "DM", "n": n, "table": T, "sym": True,
                        "gen": "exhaustive_small"})
    return out


def replay(ctx, case):
    exe = ctx.cpp("harness/c05.cpp", extra=CPP_EXTRA)
    tab = regen_table(ctx)
    mexe = ctx.extract()
    c = unslim(case)
    stats = new_stats()
    if c.get("stream") == "f7":
        probe_f7(ctx, exe, mexe, tab, stats)
    else:
        evaluate_all(ctx, exe, mexe, tab, [c], stats, shrink=False, scale=False)
    for cs, why in ctx._violations[:3]:
        print("  " + str(why)[:600])
    for u in ctx._unshown[:3]:
        print("  no longer shown: " + u[:400])
    for k in ctx._known:
        print("  known finding: %s" % k[0])
    if ctx.has_violation() or ctx.is_unshown():
        print("replay: property C05 FAILS on this case")
        return 1
    print("replay: property C05 holds on this case" + (" (known finding reproduced)" if ctx._known else ""))
    return 0
