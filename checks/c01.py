"""C01 — every embed call returns N x target_dimension finite rows or a documented error.

proof  : coq/Shapes_Model.v (outcome decision model, index-obligation tables over a tiny expression
         language with an evaluator, fuel-bounded models of the data-dependent loops),
         coq/Shapes_Spec.v, coq/Shapes_Proof*.v, coq/Properties_C01.v.
tie    : configuration sweep through the PUBLIC API (harness/c01.cpp): method x neighbour method x
         eigensolver x target_dimension x num_neighbors x N x D x data kind, built twice
         (ASan+UBSan+_GLIBCXX_ASSERTIONS, and TAPKEE_DEBUG = Eigen's own index assertions), in-process
         watchdog per call.  The real outcome class (returned shape / exception type / crash / hang) is
         compared with the outcome class decided by the EXTRACTED Coq model, and the extracted index
         tables are evaluated on every configuration (they must be violation-free, as the theorem says).
search : when a proof obligation or the correspondence breaks, a boundary-aimed sweep at a larger budget
         (all methods x rank boundaries d in {D, D+1, k, k+1, L, L+1, N-2, N-1}) looks for a crashing input.
"""
import concurrent.futures
import json
import math
import os
import random
import re

import vlib

PROPERTY = "C01"

TRUSTED = [
    "hand-written tables Shapes_Model.v (index obligations read off the C++ by hand, file:line cited per row); "
    "tied by the outcome-class sweep through the public API, not a proof about the C++ text",
    "memory safety is observed by ASan/UBSan/_GLIBCXX_ASSERTIONS and (second build) Eigen's own assertions; "
    "only the index arithmetic tapkee itself writes is modelled, not Eigen/STL internals",
    "scalar range predicates (landmark_ratio, perplexity, widths, ...) enter the model as booleans computed in "
    "Python with the same double expressions as the C++ (their exact semantics is property C14)",
    "extraction (ExtrOcamlBasic only) + OCaml + coq/extract/c01_driver.ml (parsing/printing)",
    "finiteness of returned entries is a TEST on the generic stream (numerical, not proved)",
]

METHODS = ["klle", "npe", "kltsa", "lltsa", "hlle", "la", "lpp", "dm", "isomap", "lisomap", "mds", "lmds",
           "spe", "kpca", "pca", "ra", "fa", "tsne", "ms", "passthru"]
METHOD_ID = {m: i for i, m in enumerate(METHODS)}
LOCAL = {"klle", "npe", "kltsa", "lltsa", "hlle", "la", "lpp", "isomap", "lisomap", "ms"}   # + spe when local
GENERALIZED = {"npe", "lltsa", "lpp", "la"}          # randomized solver -> unsupported_method_error
EIGEN = {"klle", "npe", "kltsa", "lltsa", "hlle", "la", "lpp", "dm", "isomap", "lisomap", "mds", "lmds",
         "kpca", "pca"}
NEIGH = ["brute", "vptree", "covertree"]
KINDS = ["generic", "duplicated", "lattice", "collinear", "axis", "constant", "wide"]
EXC = ["wrong_parameter_error", "wrong_parameter_type_error", "missed_parameter_error",
       "multiple_parameter_error", "unsupported_method_error", "not_enough_memory_error",
       "cancelled_exception", "eigendecomposition_error", "no_data_error"]


# ----------------------------------------------------------------------------- data
def gen_data(kind, N, D, k, seed):
    """N samples of dimension D (list of lists of floats), deterministic in (kind, N, D, k, seed)."""
    rng = random.Random("%s/%d/%d/%d/%d" % (kind, N, D, k, seed))
    if kind == "generic":
        X = [[rng.gauss(0, 1) for _ in range(D)] for _ in range(N)]
    elif kind == "duplicated":
        X = [[rng.gauss(0, 1) for _ in range(D)] for _ in range(N)]
        base = rng.randrange(N) if N else 0
        others = [i for i in range(N) if i != base]
        rng.shuffle(others)
        for i in others[:k + 1]:          # k+2 coincident samples (or all of them when N is smaller)
            X[i] = list(X[base])
    elif kind == "lattice":
        X = [[float(rng.randint(0, 3)) for _ in range(D)] for _ in range(N)]
        # a regular grid when possible: many exact distance ties
        side = max(2, int(round(N ** (1.0 / max(D, 1)))))
        for i in range(N):
            j = i
            for c in range(D):
                X[i][c] = float(j % side)
                j //= side
    elif kind == "collinear":
        v = [rng.gauss(0, 1) for _ in range(D)]
        X = [[(i + 1) * 0.5 * c for c in v] for i in range(N)]
    elif kind == "axis":                  # varies only in the LAST coordinate, zeros elsewhere
        X = [[0.0] * D for _ in range(N)]
        for i in range(N):
            if D:
                X[i][D - 1] = float(i) + 0.25 * rng.random()
    elif kind == "constant":
        c = [rng.gauss(0, 1) for _ in range(D)]
        X = [list(c) for _ in range(N)]
    elif kind == "wide":                  # 12 decades of dynamic range
        X = [[rng.gauss(0, 1) * 10.0 ** rng.uniform(-6, 6) for _ in range(D)] for _ in range(N)]
    else:
        raise ValueError(kind)
    return X


# ----------------------------------------------------------------------------- cases
def scalar_defaults(rng, m, N, boundary):
    """keyword values; mostly valid and off the boundary, sometimes on / beyond it."""
    p = {}
    if m in ("lmds", "lisomap"):
        r = rng.random()
        if not boundary or r < 0.6:
            p["lr"] = rng.choice([0.5, 0.75, 1.0, 0.4])
        elif r < 0.8:
            p["lr"] = 3.0 / N if N else 0.5      # exactly the lower bound
        elif r < 0.9:
            p["lr"] = 0.01                       # below 3/N for N < 300
        else:
            p["lr"] = 1.5
    if m == "tsne":
        hi = (N - 1) / 3.0 if N else 0.0
        r = rng.random()
        if not boundary or r < 0.6:
            p["perp"] = max(0.34, min(hi * 0.6, 5.0)) if hi > 0.4 else hi * 0.5
        elif r < 0.75:
            p["perp"] = hi
        elif r < 0.85:
            p["perp"] = 0.0
        else:
            p["perp"] = hi + 1.0
        p["theta"] = rng.choice([0.0, 0.5, 0.5, 0.2]) if (not boundary or rng.random() < 0.9) else -0.5
    if m == "ms":
        p["sq"] = rng.choice([0.8, 0.9]) if (not boundary or rng.random() < 0.85) else rng.choice([0.0, 1.0, -0.1])
        p["maxit"] = rng.choice([3, 8])
    if m in ("la", "lpp", "dm"):
        p["width"] = rng.choice([1.0, 10.0, 0.5]) if (not boundary or rng.random() < 0.9) else rng.choice([0.0, -1.0])
    if m == "dm":
        p["ts"] = rng.choice([1, 3]) if (not boundary or rng.random() < 0.9) else 0
    if m == "spe":
        p["speg"] = rng.choice([0, 1])
        p["spen"] = rng.choice([1, 5, 100]) if (not boundary or rng.random() < 0.9) else 0
        p["spetol"] = 1e-9 if (not boundary or rng.random() < 0.9) else 0.0
        p["maxit"] = rng.choice([20, 60])
    if m == "fa":
        p["fae"] = 1e-9 if (not boundary or rng.random() < 0.9) else -1.0
        p["maxit"] = rng.choice([5, 30])
    return p


def d_candidates(N, D, k, L):
    c = {1, 2, 3, N - 2, N - 1, D - 1, D, D + 1, k - 1, k, k + 1, 0, N}
    if L is not None:
        c |= {L - 1, L, L + 1}
    return sorted(x for x in c if -1 < x <= N + 1)


def k_candidates(N):
    return sorted({3, 4, N - 2, N - 1, 2, N, 5} & set(range(0, N + 2)))


def make_case(rng, cid, m=None, N=None, D=None, kind=None, nm=None, em=None, d=None, k=None, boundary=True,
              seed=None, **over):
    m = m or rng.choice(METHODS)
    N = rng.choice([1, 2, 3, 4, 5, 8, 20, 50]) if N is None else N
    D = rng.choice([1, 2, 3, 4, 7]) if D is None else D
    kind = kind or rng.choice(KINDS)
    nm = nm or rng.choice(NEIGH)
    em = em or rng.choice(["dense", "randomized"] if m in EIGEN else ["dense"])
    p = scalar_defaults(rng, m, N, boundary)
    p.update(over)
    if k is None:
        ks = k_candidates(N) or [3]
        # valid values most of the time
        valid = [x for x in ks if 3 <= x < N]
        k = rng.choice(valid) if (valid and rng.random() < 0.85) else rng.choice(ks)
    L = int(N * p["lr"]) if "lr" in p else None
    if d is None:
        ds = d_candidates(N, D, k, L)
        valid = [x for x in ds if 1 <= x < N]
        d = rng.choice(valid) if (valid and rng.random() < 0.9) else rng.choice(ds)
    case = {"id": cid, "m": m, "nm": nm, "em": em, "d": d, "k": k, "N": N, "D": D, "kind": kind,
            "seed": rng.randrange(1, 10 ** 6) if seed is None else seed, "p": p}
    return case


def case_text(c, X, wd):
    kv = ["id=%d" % c["id"], "m=" + c["m"], "nm=" + c["nm"], "em=" + c["em"], "d=%d" % c["d"], "k=%d" % c["k"],
          "N=%d" % c["N"], "D=%d" % c["D"], "seed=%d" % c["seed"], "wd=%d" % wd]
    for key, v in sorted(c["p"].items()):
        kv.append("%s=%s" % (key, repr(v) if isinstance(v, float) else str(v)))
    return "CASE " + " ".join(kv) + "\nX " + " ".join(repr(float(v)) for row in X for v in row) + "\n"


def data_of(c):
    if "X" in c:
        return c["X"]
    return gen_data(c["kind"], c["N"], c["D"], c["k"], c["seed"])


# ----------------------------------------------------------------------------- running the implementation
RESULT_RE = re.compile(r"^R (-?\d+) (\S+)(?: (.*))?$")


def run_chunk(ctx, exe, cases, wd, env):
    """Runs the cases in order in as few processes as possible.  Returns {id: result dict}.
    result: {"cls": "ok"|"exc"|"undoc"|"crash"|"hang"|"garbage", ...}"""
    out = {}
    pending = list(cases)
    guard = 0
    while pending and guard < len(cases) + 5:
        guard += 1
        text = "".join(case_text(c, data_of(c), wd) for c in pending)
        r = ctx.run(exe, text, timeout=wd * 3 + 30 + 2 * len(pending), env=env)
        cur = None
        done = set()
        for line in r.out.splitlines():
            if line.startswith("C "):
                try:
                    cur = int(line[2:])
                except ValueError:
                    cur = None
                continue
            if line.startswith("T "):
                try:
                    tid = int(line[2:])
                except ValueError:
                    tid = cur
                out[tid] = {"cls": "hang", "detail": "in-process watchdog (%d s) fired" % wd}
                done.add(tid)
                continue
            mm = RESULT_RE.match(line)
            if not mm:
                continue
            rid, tag, rest = int(mm.group(1)), mm.group(2), mm.group(3) or ""
            if tag == "OK":
                f = rest.split()
                try:
                    out[rid] = {"cls": "ok", "rows": int(f[0]), "cols": int(f[1]), "nonfinite": int(f[2]),
                                "rowtie": int(f[3])}
                except (ValueError, IndexError):
                    out[rid] = {"cls": "garbage", "detail": line[:200]}
            elif tag == "EXC":
                out[rid] = {"cls": "exc", "exc": rest.strip()}
            elif tag == "UNDOC":
                out[rid] = {"cls": "undoc", "detail": rest[:300]}
            else:
                out[rid] = {"cls": "garbage", "detail": line[:200]}
            done.add(rid)
        ids = [c["id"] for c in pending]
        if r.rc == 0 and not r.timed_out and all(i in done for i in ids):
            break
        # the process died / hung / skipped: blame the case in flight (last marker without a result)
        blame = None
        if cur is not None and cur not in done and cur in ids:
            blame = cur
        else:
            blame = next((i for i in ids if i not in done), None)
        if blame is None:
            break
        if blame not in out:
            if r.timed_out:
                out[blame] = {"cls": "hang", "detail": "process timeout"}
            else:
                out[blame] = {"cls": "crash", "rc": r.rc,
                              "detail": (r.sanitizer or r.err[-1500:] or "rc=%d" % r.rc)}
        done.add(blame)
        pending = [c for c in pending if c["id"] not in done]
    for c in cases:
        out.setdefault(c["id"], {"cls": "garbage", "detail": "no result line"})
    return out


def run_impl(ctx, exe, cases, wd=15, workers=8, threads="2"):
    env = {"OMP_NUM_THREADS": threads,
           "ASAN_OPTIONS": "detect_leaks=0:abort_on_error=0:allocator_may_return_null=1:handle_abort=1",
           "UBSAN_OPTIONS": "print_stacktrace=1"}
    chunks = [cases[i::workers] for i in range(workers)]
    res = {}
    with concurrent.futures.ThreadPoolExecutor(max_workers=workers) as ex:
        for part in ex.map(lambda ch: run_chunk(ctx, exe, ch, wd, env) if ch else {}, chunks):
            res.update(part)
    return res
