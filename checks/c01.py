"""C01 — every embed call returns N x target_dimension finite rows or a documented error.

proof  : coq/Shapes_Model.v (outcome decision model, index-obligation tables over a tiny expression
         language with an evaluator, fuel-bounded models of the data-dependent loops),
         coq/Shapes_Spec.v, coq/Shapes_Proof*.v, coq/Properties_C01.v.
tie    : configuration sweep through the PUBLIC API (harness/c01.cpp): method x neighbour method x
         eigensolver x target_dimension x num_neighbors x N x D x data kind, built twice
         (ASan+UBSan+_GLIBCXX_ASSERTIONS, and TAPKEE_DEBUG = Eigen's own index assertions), in-process
         watchdog per call.  The real outcome class (returned shape / exception type / crash / hang) is
         compared with the outcome class decided by the EXTRACTED Coq model, and the extracted index
         tables are evaluated on every configuration (they must be violation-free, as the theorem says).
tie T  : three tables are regenerated from the working tree on every run into files this check owns:
         coq/gen/ShapesSrc.v (translate/t_shapes.py: sizing / index expressions of spe.hpp, find_neighbors,
         locally_linear.hpp, tsne.hpp), coq/gen/Validate_C01.v (translate/t_val.py: the clauses of validate()),
         coq/gen/EigSelect_C01.v (translate/t_eig.py: eigen slices).  Shapes_Proof_Tie.v proves, for all sizes,
         that each generated expression denotes what the hand-written model uses: an edit re-opens an obligation.
rows   : the clause "row i describes input sample i": a stream on three tight clusters with an irregular membership
         pattern over the sample index; the harness dumps the returned matrix (dump=1) and the check applies a cluster
         oracle (same-cluster rows closer than other-cluster rows; methods and reasons in ROW_CLUSTER_WHY / _EXCLUDED), an
         isometry oracle (classical-scaling family with target_dimension >= D reproduces every pairwise distance) and a
         projection oracle (row i = returned projecting function of sample i); swept over landmark_ratio 1 / 0.5 / 3/N,
         k = N-1, target_dimension 1 / D / N-1, the three neighbour searches, both solvers, and three forms of the
         index range (0..N-1; N-1..0; odd columns of a wider matrix with decoy columns); an ORDER oracle on a gently bent
         arc visited in irregular order (target_dimension 1: |Spearman rho| between the returned coordinate and the arc
         parameter >= 0.9; 16 methods incl. the local ones that have no cluster oracle).  The whole row-order stream runs a
         third time in a build of the same driver whose index range is a std::deque filled from both ends (two blocks:
         a random-access range that is not contiguous in memory).
streams: besides the boundary / SPE / finiteness / random streams: HUGE finite magnitudes (1e150 .. 1e307, every method,
         all neighbour methods), SPECIAL keyword values (max_iteration 0 = automatic / 1 / 2, shifts at exactly 0,
         library defaults left unset vs set explicitly), data kinds offset (1e6 .. 1e12 x spread), bridge (two clusters
         1e-9 .. 1e-15 wide), tielattice (scaled permuted integer lattice), dupgeneric; and TWINS: the same interior
         request as a plain call and from INSIDE an application's `omp parallel` region (2 threads; 3 threads with
         OMP_THREAD_LIMIT < OMP_NUM_THREADS and nested parallelism on): same outcome class required.  Fresh heap
         memory reads as NaN in the sanitizer build (ASan malloc_fill_byte=255): a result computed from
         uninitialised doubles is non-finite.
search : when a proof obligation or the correspondence breaks: (1) model-guided: the extracted detector
         src_differs_mask tells on which requests of a box (all methods x small N x d x k x keywords) the
         regenerated tables and the model part; those requests run on the real library first; (2) a
         boundary-aimed sweep at a larger budget (all methods x rank boundaries d in {D, D+1, k, k+1, L, L+1,
         N-2, N-1}) looks for a crashing input.
"""
import concurrent.futures
import json
import math
import os
import random
import re
import sys

import vlib

PROPERTY = "C01"

TRUSTED = [
    "hand-written tables Shapes_Model.v (index obligations read off the C++ by hand, file:line cited per row); "
    "tied by the outcome-class sweep through the public API, not a proof about the C++ text",
    "memory safety is observed by ASan/UBSan/_GLIBCXX_ASSERTIONS and (second build) Eigen's own assertions; "
    "only the index arithmetic tapkee itself writes is modelled, not Eigen/STL internals",
    "scalar range predicates (landmark_ratio, perplexity, widths, ...) enter the model as booleans computed in "
    "Python with the same double expressions as the C++ (their exact semantics is property C14)",
    "extraction (ExtrOcamlBasic only) + OCaml + coq/extract/c01_driver.ml (parsing/printing)",
    "finiteness of returned entries is a TEST on the generic stream (numerical, not proved)",
    "the clause `row i describes input sample i` is PROVED only for the landmark triangulation (tri_rows, tied to the return "
    "statements and the scatter loop of landmarks.hpp read by t_shapes.py); for every method it is TESTED on the dumped "
    "matrix: cluster oracle (11 methods; klle kltsa hlle npe lltsa lpp ra tsne ms and SPE's local strategy excluded with a "
    "reason each), order oracle on an arc (16 methods; ra spe tsne ms excluded with a reason each), isometry oracle "
    "(classical-scaling family, target_dimension >= D), projection oracle (5 methods); t-SNE has NO row-order oracle "
    "(cluster, nearest-row, twin-pair and order oracles all fail on /repo HEAD), SPE's local strategy and ManifoldSculpting "
    "neither",
    "OpenMP facts (throw statements inside parallel regions, orphaned work-sharing constructs) are LEXICAL: a throw "
    "reached through a call made from inside a region, or a region entered through a callback, is seen only by the "
    "huge-magnitude / in-region streams; ASan's malloc_fill_byte=255 is trusted to poison fresh heap memory",
    "translators t_shapes.py (regex + integer-expression parser over four headers), t_val.py (C14's) and t_eig.py "
    "(C05's): trusted to report the expressions that are in the source; a statement they cannot read is recorded "
    "as 'tie not renewed' (the sweep still runs), a statement they read differently re-opens the Coq obligations",
]

METHODS = ["klle", "npe", "kltsa", "lltsa", "hlle", "la", "lpp", "dm", "isomap", "lisomap", "mds", "lmds",
           "spe", "kpca", "pca", "ra", "fa", "tsne", "ms", "passthru"]
METHOD_ID = {m: i for i, m in enumerate(METHODS)}
LOCAL = {"klle", "npe", "kltsa", "lltsa", "hlle", "la", "lpp", "isomap", "lisomap", "ms"}   # + spe when local
GENERALIZED = {"npe", "lltsa", "lpp", "la"}          # randomized solver -> unsupported_method_error
EIGEN = {"klle", "npe", "kltsa", "lltsa", "hlle", "la", "lpp", "dm", "isomap", "lisomap", "mds", "lmds",
         "kpca", "pca"}
NEIGH = ["brute", "vptree", "covertree"]
KINDS = ["generic", "duplicated", "lattice", "collinear", "axis", "constant", "wide",
         "huge", "offset", "bridge", "tielattice", "dupgeneric"]
HUGE_EXPONENTS = [150, 153, 154, 160, 200, 300, 307]
EXC = ["wrong_parameter_error", "wrong_parameter_type_error", "missed_parameter_error",
       "multiple_parameter_error", "unsupported_method_error", "not_enough_memory_error",
       "cancelled_exception", "eigendecomposition_error", "no_data_error"]


# ----------------------------------------------------------------------------- data
def gen_data(kind, N, D, k, seed):
    """N samples of dimension D (list of lists of floats), deterministic in (kind, N, D, k, seed)."""
    rng = random.Random("%s/%d/%d/%d/%d" % (kind, N, D, k, seed))
    if kind == "generic":
        X = [[rng.gauss(0, 1) for _ in range(D)] for _ in range(N)]
    elif kind == "duplicated":
        X = [[rng.gauss(0, 1) for _ in range(D)] for _ in range(N)]
        base = rng.randrange(N) if N else 0
        others = [i for i in range(N) if i != base]
        rng.shuffle(others)
        for i in others[:k + 1]:          # k+2 coincident samples (or all of them when N is smaller)
            X[i] = list(X[base])
    elif kind == "lattice":
        X = [[float(rng.randint(0, 3)) for _ in range(D)] for _ in range(N)]
        # a regular grid when possible: many exact distance ties
        side = max(2, int(round(N ** (1.0 / max(D, 1)))))
        for i in range(N):
            j = i
            for c in range(D):
                X[i][c] = float(j % side)
                j //= side
    elif kind == "collinear":
        v = [rng.gauss(0, 1) for _ in range(D)]
        X = [[(i + 1) * 0.5 * c for c in v] for i in range(N)]
    elif kind == "axis":                  # varies only in the LAST coordinate, zeros elsewhere
        X = [[0.0] * D for _ in range(N)]
        for i in range(N):
            if D:
                X[i][D - 1] = float(i) + 0.25 * rng.random()
    elif kind == "constant":
        c = [rng.gauss(0, 1) for _ in range(D)]
        X = [list(c) for _ in range(N)]
    elif kind == "wide":                  # 12 decades of dynamic range
        X = [[rng.gauss(0, 1) * 10.0 ** rng.uniform(-6, 6) for _ in range(D)] for _ in range(N)]
    elif kind == "huge":                  # finite, but squares / products of entries overflow a double
        e = HUGE_EXPONENTS[seed % len(HUGE_EXPONENTS)]
        X = [[max(-1.7e308, min(1.7e308, rng.gauss(0, 1) * 10.0 ** e)) for _ in range(D)] for _ in range(N)]
    elif kind == "offset":                # a common offset 1e6 .. 1e12 times the spread (cancellation)
        off = [rng.choice([-1.0, 1.0]) * 7.0 * 10.0 ** rng.choice([6, 8, 10, 12]) for _ in range(D)]
        X = [[off[c] + rng.gauss(0, 1) for c in range(D)] for _ in range(N)]
    elif kind == "bridge":                # two tight clusters: weakly coupled neighbourhood graph / spectrum
        eps = 10.0 ** rng.choice([-9, -12, -15])
        ctr = [[0.0] * D, [1.0] + [0.0] * (D - 1) if D else []]
        X = [[ctr[i % 2][c] + eps * rng.gauss(0, 1) for c in range(D)] for i in range(N)]
    elif kind == "tielattice":            # integer lattice (exact distance ties) scaled by a non-power-of-two, permuted
        side = max(2, int(round(N ** (1.0 / max(D, 1)))))
        sc = rng.choice([0.1, 1.0 / 3.0, 3.0, 1e-3, 7.0])
        X = []
        for i in range(N):
            j, row = i, []
            for c in range(D):
                row.append(float(j % side) * sc)
                j //= side
            X.append(row)
        rng.shuffle(X)
    elif kind == "dupgeneric":            # generic data with a few exact duplicate pairs
        X = [[rng.gauss(0, 1) for _ in range(D)] for _ in range(N)]
        for _ in range(max(1, N // 6)):
            if N >= 2:
                a, b = rng.sample(range(N), 2)
                X[a] = list(X[b])
    elif kind == "clusters":              # a few tight, well separated clusters; WHO is in which cluster is irregular
        lab = cluster_labels(N, seed)
        u = [rng.gauss(0, 1) for _ in range(D)]
        nu = math.sqrt(sum(a * a for a in u)) or 1.0
        u = [a / nu for a in u]
        pos = [0.0, 1.0, 2.5]
        ctr = [[pos[c] * u[j] + 0.05 * rng.gauss(0, 1) for j in range(D)] for c in range(3)]
        X = [[ctr[lab[i]][j] + CLUSTER_SIGMA * rng.gauss(0, 1) for j in range(D)] for i in range(N)]
    elif kind == "pairs":                 # N/2 twin pairs 1e-3 apart, the pairs O(1) apart; WHO is whose twin is irregular
        tw = pair_partners(N, seed)
        ctr = {}
        X = [None] * N
        for i in range(N):
            a = min(i, tw[i])
            if a not in ctr:
                ctr[a] = [rng.gauss(0, 1) for _ in range(D)]
            X[i] = [ctr[a][j] + CLUSTER_SIGMA * rng.gauss(0, 1) for j in range(D)]
    elif kind == "curve":                 # a gently bent arc (1-D manifold), the samples in IRREGULAR order along it
        t = curve_params(N, seed)
        Q = [[rng.gauss(0, 1) for _ in range(D)] for _ in range(3)]
        if D:                             # the FIRST coordinate is monotone along the arc (PassThru, ManifoldSculpting keep it)
            Q[0][0] = math.copysign(max(abs(Q[0][0]), 1.0), Q[0][0])
            Q[1][0] *= 0.3
            Q[2][0] *= 0.3
        X = [[t[i] * Q[0][j] + 0.3 * t[i] * t[i] * Q[1][j] + 0.1 * t[i] ** 3 * Q[2][j] for j in range(D)] for i in range(N)]
    else:
        raise ValueError(kind)
    return X


def pair_partners(N, seed):
    """twin of each sample of the `pairs` kind: a random perfect matching of the sample indices (an odd sample out is its
    own twin), deterministic in (N, seed)"""
    rng = random.Random("pair-partners/%d/%d" % (N, seed))
    order = list(range(N))
    rng.shuffle(order)
    tw = list(range(N))
    for a, b in zip(order[0::2], order[1::2]):
        tw[a], tw[b] = b, a
    return tw


def curve_params(N, seed):
    """arc parameter of each sample of the `curve` kind: jittered grid positions in [0, 1], assigned to the sample
    indices in a shuffled order, deterministic in (N, seed)"""
    rng = random.Random("curve-params/%d/%d" % (N, seed))
    t = [(i + 0.5 + 0.6 * (rng.random() - 0.5)) / max(N, 1) for i in range(N)]
    rng.shuffle(t)
    return t


def spearman(a, b):
    def ranks(v):
        o = sorted(range(len(v)), key=lambda i: v[i])
        r = [0] * len(v)
        for k, i in enumerate(o):
            r[i] = k
        return r
    ra, rb = ranks(a), ranks(b)
    n = len(a)
    if n < 3:
        return 1.0
    d2 = sum((x - y) ** 2 for x, y in zip(ra, rb))
    return 1.0 - 6.0 * d2 / (n * (n * n - 1))


CLUSTER_SIGMA = 1e-3


def cluster_labels(N, seed):
    """cluster of each sample of the `clusters` kind: three clusters of (almost) equal size, assigned to the sample
    indices in an irregular order (never sorted by cluster), deterministic in (N, seed)"""
    rng = random.Random("cluster-labels/%d/%d" % (N, seed))
    lab = [i % 3 for i in range(N)]
    for _ in range(20):
        rng.shuffle(lab)
        runs = sum(1 for i in range(1, N) if lab[i] != lab[i - 1])
        if runs >= min(N - 1, 5):
            break
    return lab


# ----------------------------------------------------------------------------- cases
def just(x, up):
    """the double next to x (one ulp above / below)"""
    return math.nextafter(x, math.inf if up else -math.inf)


def scalar_defaults(rng, m, N, boundary):
    """keyword values; mostly valid and off the boundary, sometimes on / one ulp inside / one ulp beyond /
    far beyond it."""
    p = {}
    if m in ("lmds", "lisomap"):
        r = rng.random()
        if not boundary or r < 0.6:
            p["lr"] = rng.choice([0.5, 0.75, 1.0, 0.4])
        elif r < 0.8:
            p["lr"] = 3.0 / N if N else 0.5      # exactly the lower bound
        elif r < 0.85:
            p["lr"] = just(3.0 / N, False) if N else 0.5     # one ulp below the lower bound
        elif r < 0.9:
            p["lr"] = 0.01                       # below 3/N for N < 300
        elif r < 0.95:
            p["lr"] = just(1.0, True)            # one ulp above 1
        else:
            p["lr"] = 1.5
    if m == "tsne":
        hi = (N - 1) / 3.0 if N else 0.0
        r = rng.random()
        if not boundary or r < 0.6:
            p["perp"] = max(0.34, min(hi * 0.6, 5.0)) if hi > 0.4 else hi * 0.5
        elif r < 0.75:
            p["perp"] = hi
        elif r < 0.82:
            p["perp"] = 0.0
        elif r < 0.92:
            p["perp"] = just(hi, True)           # one ulp beyond (N - 1) / 3: K would reach N
        else:
            p["perp"] = hi + 1.0
        p["theta"] = rng.choice([0.0, 0.5, 0.5, 0.2]) if (not boundary or rng.random() < 0.9) else -0.5
    if m == "ms":
        p["sq"] = rng.choice([0.8, 0.9]) if (not boundary or rng.random() < 0.85) else rng.choice([0.0, 1.0, -0.1])
        p["maxit"] = rng.choice([3, 8])
    if m in ("la", "lpp", "dm"):
        p["width"] = rng.choice([1.0, 10.0, 0.5]) if (not boundary or rng.random() < 0.9) else rng.choice([0.0, -1.0])
    if m == "dm":
        p["ts"] = rng.choice([1, 3]) if (not boundary or rng.random() < 0.9) else 0
    if m == "spe":
        p["speg"] = rng.choice([0, 1])
        p["spen"] = rng.choice([1, 5, 100]) if (not boundary or rng.random() < 0.9) else 0
        p["spetol"] = 1e-9 if (not boundary or rng.random() < 0.9) else 0.0
        p["maxit"] = rng.choice([20, 60])
    if m == "fa":
        p["fae"] = 1e-9 if (not boundary or rng.random() < 0.9) else -1.0
        p["maxit"] = rng.choice([5, 30])
    return p


def d_candidates(N, D, k, L):
    c = {1, 2, 3, N - 2, N - 1, D - 1, D, D + 1, k - 1, k, k + 1, 0, N}
    if L is not None:
        c |= {L - 1, L, L + 1}
    return sorted(x for x in c if -1 < x <= N + 1)


def k_candidates(N):
    return sorted({3, 4, N - 2, N - 1, 2, N, 5} & set(range(0, N + 2)))


def make_case(rng, cid, m=None, N=None, D=None, kind=None, nm=None, em=None, d=None, k=None, boundary=True,
              seed=None, **over):
    m = m or rng.choice(METHODS)
    N = rng.choice([1, 2, 3, 4, 5, 8, 20, 50]) if N is None else N
    D = rng.choice([1, 2, 3, 4, 7]) if D is None else D
    kind = kind or rng.choice(KINDS)
    nm = nm or rng.choice(NEIGH)
    em = em or rng.choice(["dense", "randomized"] if m in EIGEN else ["dense"])
    p = scalar_defaults(rng, m, N, boundary)
    p.update(over)
    if k is None:
        ks = k_candidates(N) or [3]
        # valid values most of the time
        valid = [x for x in ks if 3 <= x < N]
        k = rng.choice(valid) if (valid and rng.random() < 0.85) else rng.choice(ks)
    L = int(N * p["lr"]) if "lr" in p else None
    if d is None:
        ds = d_candidates(N, D, k, L)
        valid = [x for x in ds if 1 <= x < N]
        d = rng.choice(valid) if (valid and rng.random() < 0.9) else rng.choice(ds)
    case = {"id": cid, "m": m, "nm": nm, "em": em, "d": d, "k": k, "N": N, "D": D, "kind": kind,
            "seed": rng.randrange(1, 10 ** 6) if seed is None else seed, "p": p}
    return case


def case_text(c, X, wd):
    kv = ["id=%d" % c["id"], "m=" + c["m"], "nm=" + c["nm"], "em=" + c["em"], "d=%d" % c["d"], "k=%d" % c["k"],
          "N=%d" % c["N"], "D=%d" % c["D"], "seed=%d" % c["seed"], "wd=%d" % wd]
    for key, v in sorted(c["p"].items()):
        kv.append("%s=%s" % (key, repr(v) if isinstance(v, float) else str(v)))
    if 1 <= c["d"] < c["N"] and 3 <= c["k"] < c["N"]:
        kv.append("nbdump=1")
    return "CASE " + " ".join(kv) + "\nX " + " ".join(repr(float(v)) for row in X for v in row) + "\n"


def data_of(c):
    if "X" in c:
        return c["X"]
    return gen_data(c["kind"], c["N"], c["D"], c["k"], c["seed"])


# ----------------------------------------------------------------------------- running the implementation
RESULT_RE = re.compile(r"^R (-?\d+) (\S+)(?: (.*))?$")
QRESULT_RE = re.compile(r"^Q (-?\d+) (\d+) (\S+)(?: (.*))?$")


def parse_payload(tag, rest, line):
    if tag == "OK":
        f = rest.split()
        try:
            return {"cls": "ok", "rows": int(f[0]), "cols": int(f[1]), "nonfinite": int(f[2]), "rowtie": int(f[3])}
        except (ValueError, IndexError):
            return {"cls": "garbage", "detail": line[:200]}
    if tag == "EXC":
        return {"cls": "exc", "exc": rest.strip()}
    if tag == "UNDOC":
        return {"cls": "undoc", "detail": rest[:300]}
    return {"cls": "garbage", "detail": line[:200]}


def run_chunk(ctx, exe, cases, wd, env):
    """Runs the cases in order in as few processes as possible.  Returns {id: result dict}.
    result: {"cls": "ok"|"exc"|"undoc"|"crash"|"hang"|"garbage", ...}"""
    out = {}
    nbinfo = {}
    others = {}
    dumps = {}
    pending = list(cases)
    guard = 0
    while pending and guard < len(cases) + 5:
        guard += 1
        text = "".join(case_text(c, data_of(c), wd) for c in pending)
        r = ctx.run(exe, text, timeout=wd * 3 + 30 + 2 * len(pending), env=env)
        cur = None
        done = set()
        for line in r.out.splitlines():
            if line.startswith("C "):
                try:
                    cur = int(line[2:])
                except ValueError:
                    cur = None
                continue
            if line.startswith("NB "):
                f = line.split()
                try:
                    nid = int(f[1])
                    if len(f) > 2 and f[2] == "BAD":
                        nbinfo[nid] = {"bad": " ".join(f[3:])}
                    else:
                        nbinfo[nid] = {"lens": [int(x) for x in f[2:]]}
                except (ValueError, IndexError):
                    pass
                continue
            if line.startswith("T "):
                try:
                    tid = int(line[2:])
                except ValueError:
                    tid = cur
                out[tid] = {"cls": "hang", "detail": "in-process watchdog (%d s) fired" % wd}
                done.add(tid)
                continue
            if line.startswith("E ") or line.startswith("P "):
                f = line.split()
                try:
                    eid = int(f[1])
                    if f[0] == "E":
                        rws, cls_ = int(f[2]), int(f[3])
                        vals = [float.fromhex(x) for x in f[4:]]
                        if len(vals) == rws * cls_:
                            dumps.setdefault(eid, {})["E"] = [vals[i * cls_:(i + 1) * cls_] for i in range(rws)]
                    elif f[2] == "BADLEN":
                        dumps.setdefault(eid, {})["P"] = None
                    else:
                        dumps.setdefault(eid, {})["P"] = (float.fromhex(f[2]), float.fromhex(f[3]))
                except (ValueError, IndexError):
                    pass
                continue
            qm = QRESULT_RE.match(line)
            if qm:                       # par mode: what another thread of the application's region saw
                others.setdefault(int(qm.group(1)), []).append(
                    parse_payload(qm.group(3), qm.group(4) or "", line))
                continue
            mm = RESULT_RE.match(line)
            if not mm:
                continue
            rid = int(mm.group(1))
            out[rid] = parse_payload(mm.group(2), mm.group(3) or "", line)
            done.add(rid)
        ids = [c["id"] for c in pending]
        if r.rc == 0 and not r.timed_out and all(i in done for i in ids):
            break
        # the process died / hung / skipped: blame the case in flight (last marker without a result)
        blame = None
        if cur is not None and cur not in done and cur in ids:
            blame = cur
        elif cur is not None and cur in done and r.rc in (0, 7) and not r.timed_out:
            # the process ended right after reporting `cur` (watchdog exit): nobody else is to blame,
            # restart with the cases that have not run yet
            pending = [c for c in pending if c["id"] not in done]
            continue
        else:
            blame = next((i for i in ids if i not in done), None)
        if blame is None:
            break
        if blame not in out:
            if r.timed_out:
                out[blame] = {"cls": "hang", "detail": "process timeout"}
            else:
                out[blame] = {"cls": "crash", "rc": r.rc,
                              "detail": (r.sanitizer or r.err[-1500:] or "rc=%d" % r.rc)}
        done.add(blame)
        pending = [c for c in pending if c["id"] not in done]
    for c in cases:
        out.setdefault(c["id"], {"cls": "garbage", "detail": "no result line"})
        if c["id"] in nbinfo:
            out[c["id"]]["nb"] = nbinfo[c["id"]]
        if c["id"] in others:
            out[c["id"]]["others"] = others[c["id"]]
        if c["id"] in dumps and out[c["id"]]["cls"] == "ok":
            out[c["id"]].update(dumps[c["id"]])
    return out


ASAN_OPTIONS = ("detect_leaks=0:abort_on_error=0:allocator_may_return_null=1:handle_abort=1:"
                # fresh heap memory reads as NaN: a result computed from uninitialised doubles is not finite
                "malloc_fill_byte=255:max_malloc_fill_size=67108864")


def run_impl(ctx, exe, cases, wd=15, workers=8, threads="2", env_extra=None):
    env = {"OMP_NUM_THREADS": threads, "ASAN_OPTIONS": ASAN_OPTIONS, "UBSAN_OPTIONS": "print_stacktrace=1"}
    env.update(env_extra or {})
    chunks = [cases[i::workers] for i in range(workers)]
    res = {}
    with concurrent.futures.ThreadPoolExecutor(max_workers=workers) as ex:
        for part in ex.map(lambda ch: run_chunk(ctx, exe, ch, wd, env) if ch else {}, chunks):
            res.update(part)
    return res


# ----------------------------------------------------------------------------- the model side
HEAD_VARIANT = (1, 0, 1, 1)          # f6 f7 f12 f21: /repo HEAD with F12+F21 (F7 is a known finding)
F7_SIG = "F7-eig-segment-N=d+skip"
F26_SIG = "F26-covertree-all-coincident-overflow"
SITE_FINDING = {105: "F7"}
USES_NB = {"klle", "npe", "kltsa", "lltsa", "hlle", "la", "lpp", "isomap", "lisomap", "ms"}


def scalars_ok(c):
    """the method's scalar validate() predicates, with the same double expressions as the C++"""
    m, p, N = c["m"], c["p"], c["N"]
    if N <= 0:
        return True
    if m in ("lmds", "lisomap"):
        lr = p.get("lr", 0.5)
        return 3.0 / N <= lr <= 1.0
    if m == "tsne":
        return 0.0 <= p.get("perp", 30.0) <= (N - 1) / 3.0 and p.get("theta", 0.5) >= 0
    if m == "ms":
        return 0.0 <= p.get("sq", 0.99) < 1.0
    if m in ("la", "lpp"):
        return p.get("width", 1.0) > 0
    if m == "dm":
        return p.get("width", 1.0) > 0 and p.get("ts", 3) > 0
    if m == "spe":
        return p.get("spetol", 1e-9) > 0 and p.get("spen", 100) > 0
    if m == "fa":
        return p.get("fae", 1e-9) >= 0
    return True


def model_line(c, variant, lens=None):
    p, N = c["p"], c["N"]
    lr = p.get("lr", 0.5)
    L = int(N * lr) if -1e6 < N * lr < 1e6 else 0
    perp = p.get("perp", 30.0)
    K = int(3 * perp) if -1e6 < perp < 1e6 else 0
    uses = c["m"] in USES_NB or (c["m"] == "spe" and not p.get("speg", 1))
    if not uses:
        nbmode = "E"
    elif lens is not None:
        nbmode = ("U %d" % lens[0]) if (lens and len(set(lens)) == 1 and len(lens) == N) else \
                 ("L " + " ".join(str(x) for x in (lens + [0] * N)[:max(N, 0)]))
    else:
        nbmode = "U %d" % max(min(c["k"], N - 1), 0)
    return "%d %d %d %d %d %s %d %d %d %d %d %d %d %d %d %d %d %s" % (
        (c["id"],) + tuple(variant) + (c["m"], N, c["D"], c["d"], c["k"], 1 if c["em"] == "dense" else 0,
                                        1 if scalars_ok(c) else 0, L, 1 if p.get("theta", 0.5) == 0 else 0, K,
                                        1 if p.get("speg", 1) else 0, p.get("spen", 100), nbmode))


def run_model(ctx, mexe, cases, variant, lens_by_id=None):
    lines = [model_line(c, variant, (lens_by_id or {}).get(c["id"])) for c in cases]
    chunks = [lines[i:i + 400] for i in range(0, len(lines), 400)] or [[]]

    def one(chunk):
        return ctx.run(mexe, "\n".join(chunk) + "\n", timeout=600)

    with concurrent.futures.ThreadPoolExecutor(max_workers=6) as ex:
        rs = list(ex.map(one, chunks))

    class R:
        pass
    r = R()
    r.out = "".join(x.out for x in rs)
    r.err = " ".join((x.err or "")[-200:] for x in rs if x.rc != 0)
    r.rc = next((x.rc for x in rs if x.rc != 0), 0)
    out = {}
    for line in r.out.splitlines():
        f = line.split()
        if len(f) < 2:
            continue
        try:
            cid = int(f[0])
        except ValueError:
            continue
        f7 = f[-1] == "F7"
        src = 0
        for tok in f[2:]:
            if re.fullmatch(r"S\d+", tok):
                src = int(tok[1:])
        if f[1] == "SHAPE":
            out[cid] = {"cls": "shape", "rows": int(f[2]), "cols": int(f[3]), "f7": f7}
        elif f[1] == "EXC":
            out[cid] = {"cls": "exc", "exc": f[2], "f7": f7}
        elif f[1] == "CRASH":
            out[cid] = {"cls": "crash", "site": int(f[2]), "idx": int(f[3]), "size": int(f[4]), "f7": f7}
        elif f[1] == "HANG":
            out[cid] = {"cls": "hang", "site": int(f[2]), "f7": f7}
        if cid in out and src:
            out[cid]["src"] = src
    if r.rc != 0 or len(out) != len(cases):
        raise vlib.BuildError("C01 model driver failed: rc=%s %s" % (r.rc, (r.err or r.out)[-400:]))
    return out


# ----------------------------------------------------------------------------- verdicts per case
NUMERIC_EXC = {"eigendecomposition_error", "not_enough_memory_error"}
# the finiteness clause (a TEST, labelled as such in the evidence): every method whose result is a function of
# the data alone (dense solver, brute-force neighbours) + RandomProjection / PassThru
FINITE_METHODS = {"pca", "ra", "passthru", "mds", "kpca", "klle", "kltsa", "hlle", "npe", "lltsa", "la", "lpp",
                  "dm", "isomap", "lisomap", "lmds", "spe", "fa", "tsne", "ms"}


def finiteness_interior(c):
    """the hypotheses of the last sentence of C01: samples pairwise distinct and in general position,
    target_dimension within the rank of the problem, no numeric parameter on the boundary of its range"""
    m, N, D, d, k, p = c["m"], c["N"], c["D"], c["d"], c["k"], c["p"]
    if c["kind"] != "generic" or m not in FINITE_METHODS or N < 6:
        return False
    if m in EIGEN and c["em"] != "dense":
        return False
    if m in USES_NB:
        if c["nm"] != "brute" or not (3 < k < N - 1) or not p.get("cc", 1):
            return False
        if d > k - 1:
            return False                  # local rank: the neighbourhood spans at most k directions
    if m in ("klle", "kltsa", "hlle", "la", "dm"):
        if d > N - 3:
            return False                  # next to the F7 zone / the trivial eigenvector
    if m in ("klle", "kltsa", "hlle"):
        if d > D:
            return False                  # the manifold has at most D dimensions: null space not unique
    if m == "hlle" and k < 1 + d + d * (d + 1) // 2 + 1:
        return False                      # Hessian estimator needs k > 1 + d + d(d+1)/2
    if m in ("pca", "npe", "lltsa", "lpp") and d > min(D, N - 2):
        return False
    if m in ("mds", "kpca", "isomap") and d > min(D, N - 2):
        return False                      # number of positive eigenvalues of the centred Gram matrix
    if m in ("lmds", "lisomap"):
        L = int(N * p.get("lr", 0.5))
        if not (0.4 <= p.get("lr", 0.5) <= 1.0) or d > min(D, L - 2):
            return False                  # positive eigenvalues of the centred landmark matrix
    if m in ("spe", "fa", "ms") and d > D:
        return False
    if m == "spe" and not p.get("speg", 1) and (c["nm"] != "brute" or not (3 < k < N - 1)):
        return False
    if m == "ms" and not (0.5 <= p.get("sq", 0.99) < 1.0):
        return False
    if m == "tsne":
        if not (0.3 <= p.get("perp", 30.0) < (N - 1) / 3.0) or (p.get("theta", 0.5) > 0 and d != 2) or d > 3:
            return False
    if p.get("nshift", 1.0) == 0.0 or p.get("kshift", 1.0) == 0.0:
        return False                      # a regulariser at exactly 0 is the boundary of its range
    if m in ("la", "lpp", "dm") and not (0.25 <= p.get("width", 1.0) <= 100.0):
        return False
    if m == "dm" and p.get("ts", 3) < 1:
        return False
    return scalars_ok(c)


# ----------------------------------------------------------------------------- the clause "row i describes input sample i"
def _dist(a, b):
    return math.sqrt(sum((x - y) * (x - y) for x, y in zip(a, b)))


def row_cluster_metrics(E, lab):
    """-> (i, intra, inter) for the sample i with the smallest margin: intra = distance in the returned rows from row i
    to the farthest row of a sample of ITS cluster, inter = to the nearest row of a sample of another cluster"""
    worst = None
    N = len(E)
    for i in range(N):
        intra = max([_dist(E[i], E[j]) for j in range(N) if j != i and lab[j] == lab[i]] or [0.0])
        inter = min([_dist(E[i], E[j]) for j in range(N) if lab[j] != lab[i]] or [math.inf])
        if worst is None or inter - intra < worst[2] - worst[1]:
            worst = (i, intra, inter)
    return worst


def row_nn_metrics(E, lab):
    """-> (i, j) = a sample whose NEAREST returned row belongs to a sample of another cluster, or None"""
    N = len(E)
    for i in range(N):
        j = min((x for x in range(N) if x != i), key=lambda x: _dist(E[i], E[x]), default=None)
        if j is not None and lab[j] != lab[i]:
            return (i, j)
    return None


def row_isometry_metrics(E, X):
    """-> (i, j, dev, scale): the pair of samples whose distance in the returned rows differs most from their distance
    in the input; scale = the largest input distance"""
    worst, scale = (0, 0, 0.0), 0.0
    N = len(E)
    for i in range(N):
        for j in range(i + 1, N):
            a, b = _dist(X[i], X[j]), _dist(E[i], E[j])
            scale = max(scale, a)
            if abs(a - b) > worst[2]:
                worst = (i, j, abs(a - b))
    return worst + (scale,)


# Methods on which the cluster oracle is REQUIRED (a violation otherwise) on the `clusters` kind, and why it must hold there
# (three clusters of width 1e-3 whose centres lie within 0.05 of a line at 0, 1, 2.5: the between-cluster scatter is the
# dominant structure by a factor > 100 in every direction that counts):
ROW_CLUSTER_WHY = {
    "passthru": "the rows are the samples",
    "pca": "orthogonal projection on the top principal directions; the first one is the line through the centres up to "
           "O(0.05), so centres stay >= 0.9 apart while a projection never expands the 1e-3 clusters",
    "mds": "classical scaling reproduces the distances of the best rank-d approximation of the centred Gram matrix, whose "
           "leading direction is the centre line",
    "kpca": "linear kernel: the same Gram matrix as MDS",
    "lmds": "as MDS for the landmarks (they hit >= 2 clusters: more landmarks than a cluster has members) + distance-based "
            "triangulation of the rest, exact in the landmark span",
    "isomap": "geodesics >= Euclidean distances between clusters and <= 2 hops of 1e-3 inside a cluster, then MDS",
    "lisomap": "as Isomap, on the landmark columns",
    "fa": "rows are a linear image (posterior means) of the centred samples",
    "spe": "GLOBAL strategy only: stochastic descent on the stress over ALL pairs (300 sweeps) keeps 1e-3 pairs together "
           "and unit pairs apart (observed margin >= 20x over 64 requests); the local strategy sees neighbour pairs only",
    "la": "heat-kernel graph: weights inside a cluster ~1, between clusters <= exp(-1/width): the first non-trivial "
          "generalized eigenvectors are constant on clusters up to O(1e-3) and separate them",
    "dm": "as LaplacianEigenmaps (diffusion coordinates of a nearly block-diagonal Markov matrix)",
}
# Methods on which it cannot be expected, and why
ROW_CLUSTER_EXCLUDED = {
    "klle": "reconstruction weights of a sample from neighbours that coincide up to 1e-3 are not unique; the bottom "
            "eigenvectors of (I-W)^T (I-W) on three near-singular blocks are an arbitrary mixture",
    "kltsa": "local tangent spaces of 1e-3 noise balls are arbitrary; the alignment null space is (numerically) "
             "degenerate over the three blocks",
    "hlle": "as KLTSA, with second-order terms estimated from noise",
    "npe": "linear version of LLE: same degenerate weights",
    "lltsa": "linear version of LTSA: same degenerate tangent spaces",
    "ra": "the random direction(s) are orthogonal to the centre line up to the cluster width with a probability of the "
          "order of that width (met on /repo HEAD: target_dimension 1, D = 3, seed 5); RandomProjection is covered "
          "by the projection oracle instead (row i == projection(sample i), exact)",
    "lpp": "the generalized eigenvectors with the SMALLEST eigenvalues are directions in which neighbours differ least "
           "relative to the variance: with 3 features these are noise directions across the centre line, where the "
           "clusters overlap (observed on /repo HEAD); LPP is covered by the projection oracle instead",
    "tsne": "random initialisation + early exaggeration + 1000 fixed iterations: clusters regularly split into sub-clumps "
            "that interleave (observed on /repo HEAD for target_dimension 1 always, for 2 at N >= 20); the t-SNE "
            "affinities are property C17's",
    "ms": "ManifoldSculpting keeps the first d coordinates and squishes the others with a stochastic hill climb; the "
          "centre line need not lie in the kept coordinates",
}
# The ORDER oracle (kind `curve`: samples on a gently bent arc, visited in an irregular order by the sample index;
# target_dimension 1): the returned coordinate must be a monotone function of the arc parameter, |Spearman rho| >= 0.9
# (on /repo HEAD: >= 0.9989 for all 16 methods over 582 requests).  Required for:
ROW_CURVE_WHY = {
    "klle": "one-dimensional manifold, k = 6 neighbours on the arc: the bottom non-constant eigenvector of (I-W)^T (I-W) is the arc coordinate",
    "kltsa": "aligned local tangent coordinates of a curve = its arc length up to an affine map",
    "hlle": "the null space of the Hessian functional on a curve is spanned by 1 and the arc length",
    "npe": "linear LLE: the projection direction that preserves the local reconstructions of a gently bent arc is along it",
    "lltsa": "linear LTSA: as NPE",
    "la": "the Fiedler vector of a path-like neighbourhood graph is monotone along the path",
    "lpp": "linear LaplacianEigenmaps: on an arc the smoothest direction relative to the variance is along the arc",
    "dm": "first non-trivial diffusion coordinate of a path-like graph is monotone",
    "isomap": "geodesic distance along the arc, one-dimensional classical scaling",
    "lisomap": "as Isomap on the landmark columns",
    "mds": "first principal coordinate of a gently bent arc (curvature terms 0.3 t^2, 0.1 t^3 against t) is monotone in t",
    "lmds": "as MDS, landmarks spread along the arc",
    "kpca": "linear kernel: as MDS",
    "pca": "first principal direction of the arc",
    "fa": "one factor: a linear functional of the centred sample dominated by the arc direction",
    "passthru": "the first feature is monotone along the arc by construction of the data",
}
ROW_CURVE_EXCLUDED = {
    "ms": "the stochastic hill climb on the kept coordinate scrambles neighbouring samples locally (rho 0.888 observed once in 36 "
          "requests on /repo HEAD, >= 0.999 otherwise): too close to the threshold to be required",
    "ra": "a random direction can be nearly orthogonal to the arc (rho 0.72 observed); covered by the projection oracle",
    "spe": "one-dimensional stochastic descent folds the arc (rho 0.06 .. 0.4 observed on /repo HEAD)",
    "tsne": "one-dimensional t-SNE breaks the arc into pieces (rho 0.06 .. 0.3 observed on /repo HEAD); no row-order oracle "
            "holds for t-SNE on /repo HEAD: the cluster, nearest-row and twin-pair oracles were tried and fail there",
}


def row_curve_expected(c):
    m, N, d, k, p = c["m"], c["N"], c["d"], c["k"], c["p"]
    if c["kind"] != "curve" or m not in ROW_CURVE_WHY or d != 1 or N < 10:
        return False
    if m in EIGEN and c["em"] != "dense":
        return False
    if m in USES_NB and not (4 <= k <= 8 and p.get("cc", 1)):
        return False
    if m in ("la", "lpp", "dm") and not (0.01 <= p.get("width", 1.0) <= 0.25):
        return False
    return scalars_ok(c)


ROW_ISOMETRIC = {"mds", "kpca", "pca", "lmds", "isomap", "lisomap"}


def row_isometry_expected(c):
    """requests on which the returned rows must reproduce ALL pairwise distances of the input (up to rounding): classical
    scaling of Euclidean distances with target_dimension >= D, dense solver"""
    m, N, D, d, k, p = c["m"], c["N"], c["D"], c["d"], c["k"], c["p"]
    if m not in ROW_ISOMETRIC or c["em"] != "dense" or d < D or c["kind"] not in ("clusters", "generic"):
        return False
    if m == "pca":
        return d == D
    if m in ("isomap", "lisomap") and k != N - 1:
        return False                      # complete neighbourhood graph: geodesic = Euclidean distance
    if m == "lisomap":
        return p.get("lr", 0.5) == 1.0    # the B B^T formulation is classical scaling only when every sample is a landmark
    if m == "lmds":
        return int(N * p.get("lr", 0.5)) >= D + 1
    return True


def row_cluster_expected(c):
    m, N, D, d, p = c["m"], c["N"], c["D"], c["d"], c["p"]
    if c["kind"] != "clusters" or m not in ROW_CLUSTER_WHY or N < 6:
        return False
    if m in EIGEN and c["em"] != "dense":
        return False
    if m == "spe" and not p.get("speg", 1):
        return False
    if m in ("lmds", "lisomap"):
        L = int(N * p.get("lr", 0.5))
        if L <= (N + 2) // 3 and not d >= D:
            return False                  # all landmarks may sit in one cluster: only the full-dimensional case is exact
    return scalars_ok(c)


def judge_rows(ctx, c, real, where, stats):
    """the clause `row i describes input sample i` on the dumped matrix. -> True if a violation was recorded"""
    E = real.get("E")
    if not E or real.get("nonfinite") or len(E) != c["N"]:
        return False
    X = data_of(c)
    rs = stats.setdefault("rows", {"cluster": {}, "order": {}, "isometry": {}, "projection": {}, "not_expected": {}})
    if "P" in real:
        rs["projection"][c["m"]] = rs["projection"].get(c["m"], 0) + 1
        P = real["P"]
        if P is None or not (P[0] <= 1e-7 * max(P[1], 1.0)):
            ctx.violation(pub(c), "row i of the returned matrix is not the returned projecting function applied to sample i: "
                                  "max deviation %s, largest entry %s [%s]" % (P and P[0], P and P[1], where))
            return True
    if row_isometry_expected(c):
        rs["isometry"][c["m"]] = rs["isometry"].get(c["m"], 0) + 1
        i, j, dev, scale = row_isometry_metrics(E, X)
        if not (dev <= 1e-6 * max(scale, 1e-300)):
            ctx.violation(pub(c), "rows do not describe the samples in input order: |row %d - row %d| differs from "
                                  "|sample %d - sample %d| by %.3g (largest distance %.3g) although %s with target_dimension "
                                  ">= D reproduces every pairwise distance [%s]" % (i, j, i, j, dev, scale, c["m"], where))
            return True
    if row_cluster_expected(c):
        rs["cluster"][c["m"]] = rs["cluster"].get(c["m"], 0) + 1
        lab = cluster_labels(c["N"], c["seed"])
        i, intra, inter = row_cluster_metrics(E, lab)
        if not (intra < inter):
            ctx.violation(pub(c), "rows do not describe the samples in input order: the samples form three clusters of width "
                                  "1e-3 at mutual distance >= 0.9 (cluster of sample i: %s); row %d is at %.3g from a row of "
                                  "its own cluster but at %.3g from a row of another cluster [%s]" % (
                                      "".join(str(x) for x in lab), i, intra, inter, where))
            return True
    elif c["kind"] == "clusters":
        rs["not_expected"][c["m"]] = rs["not_expected"].get(c["m"], 0) + 1
    if row_curve_expected(c):
        rs["order"][c["m"]] = rs["order"].get(c["m"], 0) + 1
        t = curve_params(c["N"], c["seed"])
        rho = spearman([row[0] for row in E], t)
        if not abs(rho) >= 0.9:
            ctx.violation(pub(c), "rows do not describe the samples in input order: the samples lie on a gently bent arc (visited in "
                                  "an irregular order by the sample index) and %s with target_dimension 1 recovers the position "
                                  "along it, but the rank correlation between the returned coordinate of row i and the arc "
                                  "parameter of sample i is %.3f [%s]" % (c["m"], rho, where))
            return True
    elif c["kind"] == "curve":
        rs["not_expected"][c["m"]] = rs["not_expected"].get(c["m"], 0) + 1
    return False


def new_stats():
    return {"f7_seen": 0, "f7_silent": 0, "nonfinite_cases": 0, "numeric_exc": 0, "nonfinite_by_method": {},
            "finite_checked": {}}


def pub(c):
    """the replayable form of a case"""
    return {k: c[k] for k in ("m", "nm", "em", "d", "k", "N", "D", "kind", "seed", "p") if k in c} | \
           ({"X": c["X"]} if "X" in c else {})


def judge(ctx, c, real, model, build, stats, thread=0):
    """spec on the implementation's own outcome + correspondence with the model. real = result dict of
    run_chunk, model = dict of run_model."""
    cls = real["cls"]
    N, d, D = c["N"], c["d"], c["D"]
    where = "%s build" % build
    if c["p"].get("par"):
        where += ", called inside an application's omp parallel region of %d threads, thread %d" % (c["p"]["par"], thread)
        if thread == 0:
            for t, o in enumerate(real.get("others", []), 1):
                judge(ctx, c, o, model, build, stats, thread=t)
    if cls in ("crash", "hang", "undoc", "garbage"):
        what = {"crash": "terminates the process (%s)" % str(real.get("detail", ""))[:700],
                "hang": "does not return within the watchdog (%s)" % real.get("detail", ""),
                "undoc": "throws an undocumented exception: %s" % real.get("detail", ""),
                "garbage": "produces no/garbled result line: %s" % real.get("detail", "")}[cls]
        sig = None
        if cls == "crash" and model["cls"] == "crash" and SITE_FINDING.get(model["site"]) == "F7":
            sig = F7_SIG
            stats["f7_seen"] += 1
        elif cls == "crash" and "covertree.hpp" in str(real.get("detail", "")) and \
                "signed integer overflow" in str(real.get("detail", "")):
            sig = F26_SIG              # all samples coincide + cover tree: `max_scale - 1` at INT_MIN
        cc = c
        if sig is None and cls in ("crash", "hang", "undoc") and stats.get("shrunk", 0) < 2 and "exe_" + build in stats:
            stats["shrunk"] = stats.get("shrunk", 0) + 1
            try:
                cc = shrink_case(ctx, stats["exe_" + build], c, cls)
            except Exception:
                cc = c
        ctx.violation(pub(cc), "tapkee::embed %s [%s; model: %s]" % (what, where, model), signature=sig)
        return
    if cls == "ok":
        want_cols = D if c["m"] == "passthru" else d
        if real["rows"] != N or real["cols"] != want_cols or not real["rowtie"]:
            ctx.violation(pub(c), "returned matrix is %dx%d (rowtie=%d), contract says %dx%d [%s]" % (
                real["rows"], real["cols"], real["rowtie"], N, want_cols, where))
            return
        if real["nonfinite"]:
            stats["nonfinite_cases"] += 1
            stats["nonfinite_by_method"][c["m"]] = stats["nonfinite_by_method"].get(c["m"], 0) + 1
            if finiteness_interior(c):
                ctx.violation(pub(c), "%d non-finite entries on generic data with target_dimension within the "
                                      "rank of the problem [%s]" % (real["nonfinite"], where))
                return
        if finiteness_interior(c) and build == "san":
            stats["finite_checked"][c["m"]] = stats["finite_checked"].get(c["m"], 0) + 1
        if "E" in real and judge_rows(ctx, c, real, where, stats):
            return
        if model["cls"] == "shape":
            return
        if model["cls"] == "crash" and SITE_FINDING.get(model["site"]) == "F7":
            stats["f7_silent"] += 1          # the read one past the end went unnoticed by this build
            return
        ctx.mismatch(pub(c), "implementation returns %dx%d, model says %s [%s]" % (
            real["rows"], real["cols"], model, where))
        return
    # a documented exception
    e = real["exc"]
    if model["cls"] == "exc":
        if model["exc"] != e:
            ctx.mismatch(pub(c), "implementation throws %s, model says %s [%s]" % (e, model["exc"], where))
        return
    if model["cls"] == "shape" and e in NUMERIC_EXC and c["m"] in EIGEN:
        stats["numeric_exc"] += 1
        return
    if model["cls"] == "crash" and SITE_FINDING.get(model["site"]) == "F7" and e in NUMERIC_EXC:
        stats["numeric_exc"] += 1      # the solver failed (info() != Success) before the slice was taken
        return
    ctx.mismatch(pub(c), "implementation throws %s, model says %s [%s]" % (e, model, where))


def judge_twins(ctx, cases, results, stats):
    """par_cases twins (`twin` = id of the serial call): the outcome of embed must not depend on where the application calls it from.
    Compared: the outcome class (matrix / which exception) and, on the finiteness stream, finiteness."""
    by_id = {c["id"]: c for c in cases}
    for c in cases:
        if not c["p"].get("par") or c.get("twin") not in by_id:
            continue
        for b in results:
            ser, par = results[b].get(c["twin"]), results[b].get(c["id"])
            if not ser or not par or ser["cls"] not in ("ok", "exc"):
                continue
            seen = [par] + list(par.get("others", []))
            stats["par_compared"] = stats.get("par_compared", 0) + len(seen)
            for t, o in enumerate(seen):
                if o["cls"] not in ("ok", "exc"):
                    continue                      # already a violation by itself (judge)
                same = o["cls"] == ser["cls"] and (o.get("exc") == ser.get("exc")) and \
                    (o["cls"] != "ok" or ((o["rows"], o["cols"]) == (ser["rows"], ser["cols"]) and
                                          bool(o["nonfinite"]) == bool(ser["nonfinite"])))
                if not same:
                    ctx.violation(pub(c), "the outcome of tapkee::embed depends on the calling context: the plain serial "
                                          "call gives %s, the same call made from inside an application's omp parallel "
                                          "region of %d threads gives %s in thread %d [%s build]" % (
                                              brief(ser), c["p"]["par"], brief(o), t, b))
                    break


def brief(r):
    if r["cls"] == "ok":
        return "a %dx%d matrix with %d non-finite entries" % (r["rows"], r["cols"], r["nonfinite"])
    if r["cls"] == "exc":
        return r["exc"]
    return r["cls"]


def failure_sig(r):
    """what kind of failure: the sanitizer error class, the assertion text, the escaping exception"""
    d = str(r.get("detail", ""))
    for rx in (r"Assertion `([^']{1,80})", r"terminate called after throwing an instance of '([^']+)'",
               r"AddressSanitizer: ([\w-]+)", r"runtime error: ([^\n]{1,60})", r"std::exception:([^\n]{1,60})"):
        m = re.search(rx, d)
        if m:
            return m.group(1)
    return r.get("cls")


def shrink_case(ctx, exe, c, cls, budget=8):
    """smaller request that still makes this build fail in the same class (crash / hang / undoc) with the same
    kind of failure (same assertion / sanitizer error class), staying away from the F7 zone d >= N - 2"""
    best = dict(c)
    tried = 0
    env = {"OMP_NUM_THREADS": "2", "UBSAN_OPTIONS": "print_stacktrace=1", "ASAN_OPTIONS": ASAN_OPTIONS}
    want = failure_sig(run_chunk(ctx, exe, [dict(c)], 10, env)[c["id"]])

    def fails(cand):
        r = run_chunk(ctx, exe, [cand], 10, env)[cand["id"]]
        return r["cls"] == cls and failure_sig(r) == want

    cands = []
    for N2 in (4, 5, 6, 8, 12):
        if N2 < best["N"] and best["d"] < N2 - 2 and best["k"] < N2 and not best["p"].get("stack"):
            cands.append({"N": N2})
    cands += [{"kind": "generic"}, {"nm": "brute"}, {"D": max(1, min(best["D"], 2))}]
    for ch in cands:
        if tried >= budget:
            break
        if all(best.get(k) == v for k, v in ch.items()):
            continue
        cand = dict(best, **ch)
        cand.pop("X", None)
        if "lr" in cand.get("p", {}) or cand["m"] == "tsne":
            if "N" in ch:
                continue                    # scalar bounds depend on N: keep N
        tried += 1
        if fails(cand):
            best = cand
    return best


def evaluate(ctx, exes, mexe, cases, stats, wd=10, workers=5, env_extra=None):
    """exes = {"san": path, "dbg": path}"""
    results = {}
    with concurrent.futures.ThreadPoolExecutor(max_workers=2) as ex:
        futs = {b: ex.submit(run_impl, ctx, exe, cases, wd, workers, "2", env_extra) for b, exe in exes.items()}
        for b, f in futs.items():
            results[b] = f.result()
    lens = {}
    for b in exes:
        for cid, r in results[b].items():
            nb = r.get("nb")
            if nb and "lens" in nb and cid not in lens:
                lens[cid] = nb["lens"]
            if nb and "bad" in nb:
                c = next(x for x in cases if x["id"] == cid)
                ctx.violation(pub(c), "find_neighbors returned an entry that is not a sample index: " + nb["bad"])
    model = run_model(ctx, mexe, cases, HEAD_VARIANT, lens)
    for b, exe in exes.items():
        stats["exe_" + b] = exe
    judge_twins(ctx, cases, results, stats)
    for c in cases:
        for b in exes:
            judge(ctx, c, results[b][c["id"]], model[c["id"]], b, stats)
        stats["model_" + model[c["id"]]["cls"]] = stats.get("model_" + model[c["id"]]["cls"], 0) + 1
        for b in exes:
            key = "real_%s_%s" % (b, results[b][c["id"]]["cls"])
            stats[key] = stats.get(key, 0) + 1
    return model, results


# ----------------------------------------------------------------------------- case streams
def boundary_cases(rng, start_id, per_method):
    """per method: target_dimension / num_neighbors on both sides of every rank boundary the index
    obligations of Shapes_Proof_Main.v split on"""
    out = []
    cid = start_id
    for m in METHODS:
        combos = []
        for (N, D, k) in [(8, 3, 3), (20, 2, 5), (5, 3, 3), (9, 4, 4)]:
            lr = 0.5
            L = int(N * lr)
            for d in sorted({1, 2, 3, D, D + 1, k, k + 1, L, L + 1, N - 2, N - 1, N}):
                if d >= 1:
                    combos.append((N, D, k, d, lr))
        rng.shuffle(combos)
        for (N, D, k, d, lr) in combos[:per_method]:
            heavy = m in ("tsne", "ms", "spe", "fa")
            over = {}
            if m in ("lmds", "lisomap"):
                over["lr"] = lr
            if m == "tsne":
                over["perp"] = min(2.0, (N - 1) / 3.0)
                over["theta"] = rng.choice([0.0, 0.5])
            c = make_case(rng, cid, m=m, N=N, D=D, d=d, k=k, boundary=False,
                          kind=rng.choice(["generic", "generic", "lattice", "duplicated"]),
                          em=rng.choice(["dense", "dense", "randomized"]) if m in EIGEN else "dense", **over)
            c["p"]["cc"] = rng.choice([0, 1])
            out.append(c)
            cid += 1
    return out


def spe_cases(rng, start_id, quick):
    """StochasticProximityEmbedding with the update count on both sides of its clamp N / 2, odd and even N,
    both strategies (the two index sets [0, nu) and [nu, 2 nu) must fit N entries)"""
    out = []
    cid = start_id
    for N in ([5, 8, 9] if quick else [3, 4, 5, 7, 8, 9, 15, 20, 21, 51]):
        for speg in (0, 1):
            if N < 5 and not speg:
                continue                                   # local strategy needs 3 <= k < N
            for spen in sorted({max(1, N // 2 - 1), N // 2, (N + 1) // 2, N // 2 + 1, N, 100}):
                c = make_case(rng, cid, m="spe", N=N, D=3, d=min(2, N - 1), k=3 if N > 3 else 2, kind="generic",
                              nm="brute", em="dense", boundary=False, speg=speg, spen=spen, maxit=12)
                c["p"]["cc"] = 0
                out.append(c)
                cid += 1
    return out


def finite_cases(rng, start_id, per_method):
    """the finiteness clause: samples in general position (Gaussian), target_dimension within every rank,
    keywords away from their bounds; one stream per method whose result depends on the data only"""
    out = []
    cid = start_id
    for m in sorted(FINITE_METHODS):
        for i in range(per_method):
            N = [12, 20, 9, 30, 16, 50][i % 6]
            D = [3, 4, 5, 3][i % 4]
            d = 1 + (i % 2)
            k = [5, 6, 7][i % 3]
            if m == "hlle":
                k = max(k, 2 + d + d * (d + 1) // 2)
            over = {}
            if m in ("la", "lpp", "dm"):
                over["width"] = [1.0, 4.0, 10.0][i % 3]
            if m == "dm":
                over["ts"] = 1 + (i % 3)
            c = make_case(rng, cid, m=m, N=N, D=D, d=d, k=min(k, N - 2), kind="generic", nm="brute", em="dense",
                          boundary=False, **over)
            c["p"]["cc"] = 1
            out.append(c)
            cid += 1
    return out


def interior_case(rng, cid, m, N=12, D=3, **over):
    """a request well inside every bound, on samples in general position"""
    if m in ("lmds", "lisomap"):
        over.setdefault("lr", 0.5)
    if m == "tsne":
        over.setdefault("perp", 2.0)
        over.setdefault("theta", 0.5)
    if m == "ms":
        over.setdefault("maxit", 3)
        over.setdefault("sq", 0.9)
    if m == "spe":
        over.setdefault("maxit", 20)
        over.setdefault("speg", 1)
        over.setdefault("spen", 5)
        over.setdefault("spetol", 1e-9)
    if m == "fa":
        over.setdefault("maxit", 5)
        over.setdefault("fae", 1e-9)
    if m in ("la", "lpp", "dm"):
        over.setdefault("width", 4.0)
    if m == "dm":
        over.setdefault("ts", 2)
    nm = over.pop("nm", "brute")
    em = over.pop("em", "dense")
    kind = over.pop("kind", "generic")
    seed = over.pop("seed", None)
    c = make_case(rng, cid, m=m, N=N, D=D, d=2, k=7 if m == "hlle" else 5, kind=kind, nm=nm, em=em,
                  boundary=False, seed=seed, **over)
    c["p"].setdefault("cc", 1)
    return c


def huge_cases(rng, start_id, quick):
    """every method on FINITE samples of magnitude 1e150 .. 1e307: squares, Gram entries and distances overflow.
    The outcome must still be a matrix or a documented exception -- never std::terminate / abort / a hang (an
    exception raised inside an OpenMP region, a recursion that cannot make progress, a search on NaN keys)"""
    out = []
    cid = start_id
    exps = [154, 160, 300] if quick else HUGE_EXPONENTS
    for mi, m in enumerate(METHODS):
        uses = m in USES_NB or m == "spe"
        for ei, e in enumerate(exps):
            nms = [NEIGH[(mi + ei) % 3]] if uses else ["brute"]
            if uses and (e == 160 or not quick):
                nms = list(NEIGH)
            for ni, nm in enumerate(nms):
                over = {"speg": 0} if m == "spe" and nm != "brute" else {}
                em = "randomized" if (m in EIGEN and (mi + ei + ni) % 4 == 3) else "dense"
                c = interior_case(rng, cid, m, kind="huge", nm=nm, em=em,
                                  seed=HUGE_EXPONENTS.index(e) + len(HUGE_EXPONENTS) * (1 + mi + ni), **over)
                c["p"]["cc"] = (mi + ei + ni) % 2
                out.append(c)
                cid += 1
    return out


SPECIAL_UNSET = [("klle", "d"), ("klle", "k"), ("isomap", "d,k"), ("isomap", "nm"), ("pca", "em"), ("pca", "d"),
                 ("mds", "d,em"), ("la", "d,k,nm,em"), ("kltsa", "k,nm"), ("lmds", "em"), ("spe", "d,k,nm")]


def special_cases(rng, start_id, quick):
    """keyword values that select another code path: 0 meaning "automatic" / "no iterations", 1 (one annealing
    step), shifts at exactly 0, and the library default left UNSET versus set explicitly to the same value"""
    out = []
    cid = start_id

    def add(m, **over):
        nonlocal cid
        out.append(interior_case(rng, cid, m, **over))
        cid += 1

    for N in ([12] if quick else [12, 30]):
        for maxit in (0, 1, 2):
            for speg in (1, 0):
                add("spe", N=N, maxit=maxit, speg=speg)
            add("ms", N=N, maxit=maxit)
            add("fa", N=N, maxit=maxit)
        for m in ("klle",):
            add(m, N=N, kshift=0.0)
        for m in ("kltsa", "hlle"):
            add(m, N=N, nshift=0.0)
        add("dm", N=N, ts=1)
        add("tsne", N=N, theta=0.0, perp=(N - 1) / 3.0)
        add("spe", N=N, spen=1)
        add("spe", N=N, spen=N // 2, speg=0)
    # default left unset / set explicitly (d = 2, k = 5, cover tree, dense are the library defaults)
    for m, unset in SPECIAL_UNSET:
        over = {"speg": 0} if m == "spe" else {}
        add(m, nm="covertree", em="dense", unset=unset, **over)
        add(m, nm="covertree", em="dense", **over)
    return out


def deep_cases(rng, start_id, quick):
    """many samples along a curve / on a grid (a path-like neighbourhood graph), cheap methods, the call made on a
    thread with a 128 KiB stack: recursion whose depth grows with N (instead of with log N) overflows it"""
    out = []
    cid = start_id
    plan = [("ms", 3000, "vptree", "collinear"), ("spe", 1000, "vptree", "collinear"),
            ("spe", 1000, "covertree", "collinear"), ("ms", 1000, "covertree", "lattice")]
    if not quick:
        plan += [("spe", 3000, "vptree", "lattice"), ("ms", 3000, "covertree", "collinear"),
                 ("spe", 3000, "covertree", "collinear"), ("ms", 2000, "brute", "collinear")]
    for m, N, nm, kind in plan:
        over = {"speg": 0, "maxit": 2, "spen": 5} if m == "spe" else {"maxit": 1}
        c = interior_case(rng, cid, m, N=N, D=2, kind=kind, nm=nm, stack=128, **over)
        c["d"], c["k"] = (2 if m == "spe" else 1), 4
        out.append(c)
        cid += 1
    return out


def row_cases(rng, start_id, quick):
    """the clause `row i describes input sample i`: every method on the `clusters` kind (irregular membership pattern),
    the returned matrix dumped; swept over the special configurations that select fast paths (landmark_ratio = 1 and
    3 / N, num_neighbors = N - 1, target_dimension = 1 / D / the maximum N - 1, every neighbour search, both solvers)
    and over the forms of the index range (0 .. N-1; N-1 .. 0; odd columns of a wider matrix with decoy columns)"""
    out = []
    cid = start_id
    state = {"ix": 0}

    def add(m, N=12, D=3, d=2, k=None, **over):
        nonlocal cid
        ix = over.pop("ix", None)
        if ix is None:
            ix = state["ix"] % 3
            state["ix"] += 1
        kind = over.pop("kind", "clusters")
        if m in ("la", "lpp", "dm"):
            over.setdefault("width", 0.25)      # between-cluster weights exp(-1 / 0.25) and below: nearly block diagonal
        if m == "spe":
            over.setdefault("maxit", 300)
        c = interior_case(rng, cid, m, N=N, D=D, kind=kind, seed=1 + (cid % 5), **over)
        c["d"] = d
        if k is not None:
            c["k"] = k
        elif m == "hlle":
            c["k"] = max(c["k"], 2 + d + d * (d + 1) // 2)
        c["p"]["dump"] = 1
        if ix:
            c["p"]["ix"] = ix
        if m == "tsne":
            c["p"]["theta"] = 0.5 if d == 2 else 0.0
        out.append(c)
        cid += 1

    Ns = [12] if quick else [12, 9, 30]
    for N in Ns:
        for m in METHODS:
            uses = m in USES_NB or m == "spe"
            lrs = [1.0, 0.5] if m in ("lmds", "lisomap") else [None]
            for lr in lrs:
                over = {} if lr is None else {"lr": lr}
                add(m, N=N, d=2, **over)                                   # the plain request
                add(m, N=N, d=1, **over)                                   # target_dimension = 1
                if uses:
                    ov = dict(over, speg=0) if m == "spe" else dict(over)
                    add(m, N=N, d=2, k=N - 1, **ov)                         # complete neighbourhood graph
                    for nm in ("vptree", "covertree"):
                        add(m, N=N, d=2, nm=nm, **ov)
                if m in EIGEN and m not in GENERALIZED:
                    add(m, N=N, d=2, em="randomized", **over)
            # full-dimensional requests: the isometric methods must reproduce every distance
            if m in ROW_ISOMETRIC:
                for ix in (0, 1, 2):
                    for lr in ([1.0, 0.75, 3.0 / N] if m == "lmds" else [1.0] if m == "lisomap" else [None]):
                        over = {} if lr is None else {"lr": lr}
                        if lr is not None and lr < 0.5:
                            over["kind"] = "generic"      # three landmarks inside one 1e-3 cluster would be ill-conditioned
                        add(m, N=N, D=2, d=2, k=N - 1, ix=ix, **over)
                add(m, N=N, D=1, d=1, k=N - 1, **({"lr": 1.0} if m in ("lmds", "lisomap") else {}))
                if m in ("mds", "kpca", "isomap", "lmds"):
                    add(m, N=N, D=2, d=N - 1, k=N - 1, **({"lr": 1.0} if m == "lmds" else {}))   # the maximum
    # the order oracle: every method on the arc, target_dimension 1 (the local methods have no cluster oracle)
    for N in ([12, 20] if quick else [12, 20, 30, 50]):
        for m in METHODS:
            over = {"width": 0.05} if m in ("la", "lpp", "dm") else {}
            if m == "tsne":
                over = {"perp": min(3.0, (N - 1) / 3.0 - 0.1)}
            nms = ["brute"] if m not in USES_NB else (["brute", "covertree"] if N == 12 else ["vptree"])
            for nm in nms:
                for lr in ([1.0, 0.5] if m in ("lmds", "lisomap") and nm == nms[0] else [None]):
                    o = dict(over) if lr is None else dict(over, lr=lr)
                    add(m, N=N, d=1, k=6, nm=nm, kind="curve", **o)
    return out


PAR_ENVS = [("region of 2 threads", 2, {}),
            ("region of 3 threads, OMP_THREAD_LIMIT=3 < OMP_NUM_THREADS=4, nested parallelism on", 3,
             {"OMP_NUM_THREADS": "4", "OMP_THREAD_LIMIT": "3", "OMP_MAX_ACTIVE_LEVELS": "2", "OMP_NESTED": "true"})]


def par_cases(rng, start_id, T, methods=None):
    """the same interior request (a) as a plain serial call and (b) from INSIDE an application's own
    `omp parallel num_threads(T)` region, once per thread; the second carries `twin` = id of the first"""
    out = []
    cid = start_id
    for m in (methods or METHODS):
        a = interior_case(rng, cid, m, seed=11)
        b = dict(a, id=cid + 1, twin=cid, p=dict(a["p"], par=T))
        out += [a, b]
        cid += 2
    return out


def large_cases(rng, start_id, n, sizes):
    """requests beyond N = 50 (thorough tier): every method, mostly valid keywords, generic / lattice data"""
    out = []
    for i in range(n):
        m = METHODS[i % len(METHODS)]
        N = rng.choice(sizes)
        if m in ("tsne", "hlle", "spe", "fa"):
            N = min(N, 120)
        if m == "ms":
            N = 64
        D = rng.choice([2, 3, 5, 8])
        k = rng.choice([5, 8, 12])          # the extracted model walks lists: keep N * k * k small
        L = None
        over = {}
        if m in ("lmds", "lisomap"):
            over["lr"] = rng.choice([0.1, 0.25, 3.0 / N])
            L = int(N * over["lr"])
        if m == "tsne":
            over["perp"] = rng.choice([5.0, 10.0, (N - 1) / 3.0])
            over["theta"] = rng.choice([0.0, 0.5])
        if m == "ms":
            over["maxit"] = 3
        if m == "spe":
            over["maxit"] = 20
            over["spen"] = rng.choice([N // 2, (N + 1) // 2, 100, N])
        if m == "fa":
            over["maxit"] = 5
        dmax = {"hlle": 4, "tsne": 3}.get(m, 12)
        # no d next to N here: a 300 x 299 Gram-Schmidt in the -O0 sanitizer build is slow, not hung
        ds = [x for x in (1, 2, 3, D, D + 1, (L or 0), (L or 0) + 1, min(k, dmax)) if 1 <= x <= min(N, 40)]
        d = rng.choice(ds)
        if m == "hlle":
            d = min(d, 4)
        c = make_case(rng, start_id + i, m=m, N=N, D=D, d=d, k=k, boundary=False,
                      kind=rng.choice(["generic", "generic", "lattice"]),
                      em=rng.choice(["dense", "randomized"]) if m in EIGEN else "dense", **over)
        out.append(c)
    return out


def random_cases(rng, start_id, n, max_N):
    out = []
    for i in range(n):
        c = make_case(rng, start_id + i, N=rng.choice([x for x in [1, 2, 3, 4, 5, 8, 20, 50] if x <= max_N]))
        if c["m"] in ("tsne", "ms", "hlle") and c["N"] > 20:      # heavy methods (HLLE: O(d^4) per neighbourhood)
            c["N"] = 20
            c["d"] = min(c["d"], 19)
            c["k"] = min(c["k"], 19)
            if c["m"] == "tsne":
                c["p"]["perp"] = min(c["p"]["perp"], 19 / 3.0)
        out.append(c)
    return out


def corpus_cases(ctx, start_id):
    out = []
    for name, obj in ctx.corpus():
        c = dict(obj.get("case", obj))
        c.setdefault("p", {})
        c.setdefault("seed", 1)
        c.setdefault("kind", "generic")
        c.setdefault("nm", "brute")
        c.setdefault("em", "dense")
        c["id"] = start_id + len(out)
        c["corpus"] = name
        out.append(c)
    return out


# ----------------------------------------------------------------------------- tie T: the three tables
GEN = {"shapes": "ShapesSrc.v", "validate": "Validate_C01.v", "eig": "EigSelect_C01.v"}


def translate_all(ctx):
    """regenerates coq/gen/{ShapesSrc,Validate_C01,EigSelect_C01}.v from ctx.repo.
    -> ({name: text or None}, {name: "regenerated"|"unchanged"|"unreadable: .."})"""
    tdir = os.path.join(ctx.verif, "translate")
    if tdir not in sys.path:
        sys.path.insert(0, tdir)
    import t_eig
    import t_shapes
    import t_val
    texts, status = {}, {}

    def shapes():
        return t_shapes.translate(ctx.repo)[0]

    def validate():
        t = t_val.translate(ctx.repo)[0]
        return t.replace("(* GENERATED by translate/t_val.py from the C++ working tree -- do not edit.",
                         "(* GENERATED by translate/t_val.py from the C++ working tree (copy owned by property C01, "
                         "written by checks/c01.py) -- do not edit.", 1)

    def eig():
        return "(* copy owned by property C01, written by checks/c01.py *)\n" + t_eig.emit(t_eig.parse(ctx.repo))

    for name, fn, err in (("shapes", shapes, t_shapes.TranslateError), ("validate", validate, t_val.TranslateError),
                          ("eig", eig, t_eig.TranslateError)):
        try:
            texts[name] = fn()
        except err as ex:
            texts[name] = None
            status[name] = "unreadable: " + str(ex)[:300]
        except (OSError, ValueError, KeyError, IndexError, AttributeError, TypeError, RecursionError) as ex:
            texts[name] = None
            status[name] = "unreadable: %s: %s" % (type(ex).__name__, str(ex)[:300])
    for name, text in texts.items():
        if text is None:
            continue
        path = os.path.join(ctx.verif, "coq", "gen", GEN[name])
        status[name] = "regenerated" if t_shapes.write_if_changed(path, text) else "unchanged"
    return texts, status


def tables_in_place(ctx, texts):
    """True if the generated files still hold what this run wrote (another run of this check may have
    regenerated them from a different tree in the meantime)"""
    for name, text in texts.items():
        if text is None:
            continue
        try:
            if open(os.path.join(ctx.verif, "coq", "gen", GEN[name])).read() != text:
                return False
        except OSError:
            return False
    return True


def suspect_cases(ctx, mexe, rng, limit):
    """model-guided part of the search phase: requests of a small box on which a table regenerated from the
    source and the hand-written model disagree (extracted src_differs_mask), most informative first"""
    box = []
    cid = 700000
    for m in METHODS:
        for N in (4, 5, 7, 8, 9, 12):
            D = 3
            for k in sorted({3, 4, N - 1} & set(range(3, N))) or [3]:
                over_list = [{}]
                if m in ("lmds", "lisomap"):
                    over_list = [{"lr": 0.5}, {"lr": 1.0}]
                elif m == "tsne":
                    hi = (N - 1) / 3.0
                    over_list = [{"perp": hi, "theta": 0.5}, {"perp": hi, "theta": 0.0}, {"perp": hi / 2, "theta": 0.5}]
                elif m == "spe":
                    over_list = [{"speg": g, "spen": n_, "maxit": 12} for g in (0, 1)
                                 for n_ in sorted({1, N // 2, (N + 1) // 2, N, 100})]
                elif m == "ms":
                    over_list = [{"maxit": 3}]
                elif m == "fa":
                    over_list = [{"maxit": 5}]
                for over in over_list:
                    L = int(N * over["lr"]) if "lr" in over else None
                    for d in d_candidates(N, D, k, L):
                        for em in (["dense", "randomized"] if m in EIGEN else ["dense"]):
                            c = make_case(rng, cid, m=m, N=N, D=D, d=d, k=k, kind="generic", nm="brute", em=em,
                                          boundary=False, seed=7, **over)
                            c["p"]["cc"] = 0
                            box.append(c)
                            cid += 1
    model = run_model(ctx, mexe, box, HEAD_VARIANT)
    sus = [c for c in box if model[c["id"]].get("src")]
    # the hand model lets the request through (shape) or rejects it while a table says otherwise; requests
    # the base range check rejects anyway are the least informative
    def rank(c):
        mo = model[c["id"]]
        return (0 if mo["cls"] == "shape" else 1 if mo["cls"] == "exc" else 2, c["N"], c["d"])
    sus.sort(key=rank)
    picked, per = [], {}
    for c in sus:
        key = (c["m"], model[c["id"]]["src"], model[c["id"]]["cls"])
        if per.get(key, 0) >= 3:
            continue
        per[key] = per.get(key, 0) + 1
        picked.append(c)
        if len(picked) >= limit:
            break
    return picked, len(box), len(sus)


def search_phase(ctx, exes, mexe, rng, stats, budget):
    """(1) model-guided suspects, (2) in-region twins + huge magnitudes + special keyword values at the thorough
    budget, (3) boundary-aimed sweep at a larger budget, every method, dense solver, connectivity check off"""
    n = 0
    try:
        picked, nbox, nsus = suspect_cases(ctx, mexe, rng, 60)
        ctx.note("search phase, model-guided: %d of %d box requests are treated differently by the regenerated "
                 "tables and the model; %d run on the library" % (nsus, nbox, len(picked)))
        if picked:
            evaluate(ctx, exes, mexe, picked, stats)
            n += len(picked)
            if ctx.has_violation():
                return n
    except vlib.BuildError as ex:
        ctx.note("search phase, model-guided part failed: " + str(ex)[:200])
    # (2) calling context, huge magnitudes, special keyword values at the thorough budget: what the wave-3 facts
    # (throw inside an OpenMP region, orphaned work-sharing construct, annealing divisor) are about
    for i, (label, T, env_extra) in enumerate(PAR_ENVS):
        pc = par_cases(rng, 600000 + 1000 * i, T)
        evaluate(ctx, {"san": exes["san"]}, mexe, pc, stats, env_extra=env_extra)
        n += len(pc)
    extra = huge_cases(rng, 610000, False) + special_cases(rng, 620000, False) + row_cases(rng, 640000, False)
    evaluate(ctx, exes, mexe, extra, stats)
    extra2 = deep_cases(rng, 630000, False)
    evaluate(ctx, exes, mexe, extra2, stats, wd=90, workers=4)
    n += len(extra2)
    n += len(extra)
    if ctx.has_violation():
        return n
    # (3) boundary sweep
    cases = boundary_cases(rng, 500000, budget)
    for c in cases:
        if c["m"] in EIGEN:
            c["em"] = "dense"
        c["p"]["cc"] = 0
        c["kind"] = "generic"
    evaluate(ctx, exes, mexe, cases, stats)
    return n + len(cases)


def key_of(c):
    return json.dumps([c["m"], c["nm"], c["em"], c["N"], c["D"], c["d"], c["k"], c["kind"],
                       sorted(c["p"].items())], sort_keys=True, default=str)


def build_all(ctx, with_coq=False):
    """the two C++ builds (70-100 s each, one TU) run in threads while the main thread does the Coq
    build (when asked) and the extraction, which share vlib's Coq lock"""
    with concurrent.futures.ThreadPoolExecutor(max_workers=3) as ex:
        f_san = ex.submit(ctx.cpp, "harness/c01.cpp", "c01_san", (), True, False, ["-O0", "-g0"])
        f_dbg = ex.submit(ctx.cpp, "harness/c01.cpp", "c01_dbg", (), False, True, ["-O0"])
        # the same driver with the index range in a std::deque filled from both ends (two blocks: not contiguous)
        f_deq = ex.submit(ctx.cpp, "harness/c01.cpp", "c01_deq", ("C01_RANGE_DEQUE",), True, False, ["-O0", "-g0"])
        errs = []
        coq = mexe = None
        try:
            if with_coq:
                coq = ctx.coq()
            mexe = ctx.extract()
        except vlib.BuildError as e:
            errs.append(e)
        res = []
        for f in (f_san, f_dbg, f_deq):
            try:
                res.append(f.result())
            except vlib.BuildError as e:
                errs.append(e)
                res.append(None)
        if errs:
            raise errs[0]
    return {"san": res[0], "dbg": res[1], "deq": res[2]}, mexe


def split_exes(exes):
    """-> (the two builds every request runs in, the deque-range build)"""
    return {b: e for b, e in exes.items() if b != "deq"}, {"deq": exes["deq"]}


def deque_cases(cases, start_id):
    """copies of row-order requests for the build whose index range is a two-block std::deque"""
    out = []
    for i, c in enumerate(cases):
        out.append(dict(c, id=start_id + i, p=dict(c["p"], range="deque")))
    return out


def run(ctx):
    rng = ctx.rng
    texts, tstatus = translate_all(ctx)
    exes3, mexe = build_all(ctx, with_coq=True)
    for attempt in range(2):
        if tables_in_place(ctx, texts):
            break
        ctx.note("the generated tables were rewritten by a concurrent run: regenerating and rebuilding")
        ctx._unshown[:] = [u for u in ctx._unshown if not u.startswith("proof obligations")]
        texts, tstatus = translate_all(ctx)
        exes3, mexe = build_all(ctx, with_coq=True)
    exes, exe_deq = split_exes(exes3)
    unreadable = {k: v for k, v in tstatus.items() if v.startswith("unreadable")}
    for k, v in unreadable.items():
        ctx.note("tie T not renewed for table `%s` (%s): the statements are written in a form the translator does "
                 "not read; the differential sweep remains the tie for them and runs at the search budget" % (k, v))
    t_build = ctx.elapsed()
    quick = ctx.quick
    stats = new_stats()
    cases = corpus_cases(ctx, 1)
    ncorpus = len(cases)
    cases += boundary_cases(rng, 1000, 16 if quick else 44)
    cases += spe_cases(rng, 50000, quick)
    cases += finite_cases(rng, 60000, 3 if quick else 12)
    nhuge = len(cases)
    cases += huge_cases(rng, 70000, quick)
    nhuge = len(cases) - nhuge
    nspecial = len(cases)
    cases += special_cases(rng, 80000, quick)
    nspecial = len(cases) - nspecial
    nrows = len(cases)
    cases += row_cases(rng, 85000, quick)
    nrows = len(cases) - nrows
    nboundary = len(cases) - ncorpus
    cases += random_cases(rng, 100000, 600 if quick else 6000, 50)
    nrandom = len(cases) - ncorpus - nboundary
    nlarge = 0
    model, results = evaluate(ctx, exes, mexe, cases, stats)
    deep = deep_cases(rng, 95000, quick)
    model2, results2 = evaluate(ctx, exes, mexe, deep, stats, wd=60, workers=4)
    model.update(model2)
    for b in results2:
        results[b].update(results2[b])
    cases += deep
    npar = n_single_build = 0
    dq = deque_cases([c for c in cases if c["p"].get("dump")], 96000)
    model2, results2 = evaluate(ctx, exe_deq, mexe, dq, stats)
    model.update(model2)
    cases += dq
    n_single_build += len(dq)
    ndeque = len(dq)
    for i, (label, T, env_extra) in enumerate(PAR_ENVS):
        pc = par_cases(rng, 90000 + 1000 * i, T)
        npar += len(pc)
        # not in the TAPKEE_DEBUG build: its RESTRICT_ALLOC instrumentation is one process-wide Eigen flag
        model2, results2 = evaluate(ctx, {"san": exes["san"]}, mexe, pc, stats, env_extra=env_extra)
        model.update(model2)
        for b in results2:
            results[b].update(results2[b])
        cases += pc
        n_single_build += len(pc)
    if not quick:
        large = large_cases(rng, 300000, 400, [64, 100, 150, 200, 300])
        nlarge = len(large)
        model2, results2 = evaluate(ctx, exes, mexe, large, stats, wd=90)     # slow is not hung
        model.update(model2)
        for b in results:
            results[b].update(results2[b])
        cases += large
    ctx.note("phases (s): Coq + extraction, with both C++ builds in parallel %.0f; sweep %.0f" % (t_build, ctx.elapsed() - t_build))
    n = 2 * len(cases) - n_single_build
    if (ctx.is_unshown() or unreadable) and not ctx.has_violation():
        n += 2 * search_phase(ctx, exes, mexe, rng, stats, 12 if quick else 40)
    for b in exes:
        stats.pop("exe_" + b, None)
    stats_fin, stats_nonfin = stats.get("finite_checked", {}), stats.get("nonfinite_by_method", {})
    distinct = {key_of(c) for c in cases if model[c["id"]]["cls"] in ("shape", "crash")}
    hist = {"generators": {"corpus": ncorpus, "boundary": nboundary - nhuge - nspecial - nrows, "huge_magnitude": nhuge,
                           "special_values": nspecial, "row_order": nrows, "random": nrandom, "large": nlarge,
                           "in_parallel_region_twins": npar, "small_stack_large_N": len(deep),
                           "row_order_on_deque_range": ndeque},
            "translators": tstatus,
            "method": {}, "N": {}, "kind": {}, "neighbors_method": {}, "eigen_method": {}, "stats": stats}
    for c in cases:
        for hk, ck in (("method", "m"), ("N", "N"), ("kind", "kind"), ("neighbors_method", "nm"),
                       ("eigen_method", "em")):
            hist[hk][str(c[ck])] = hist[hk].get(str(c[ck]), 0) + 1
    ctx.finish(
        evaluations=n, distinct_nontrivial=len(distinct),
        rule="requests through tapkee::embed (public API): corpus witnesses, a boundary stream (per method, "
             "target_dimension on both sides of D, num_neighbors, #landmarks, N-2, N-1, N) and a random stream "
             "(20 methods x 3 neighbour methods x 2 solvers x N in {1..50} x 12 data kinds, keywords mostly valid, "
             "sometimes on/beyond their bound), a huge-magnitude stream (1e154 .. 1e300), a special-keyword-value stream, "
             "a row-order stream (three tight clusters with an irregular membership pattern, the returned matrix dumped: "
             "cluster / isometry / projection oracles for the clause `row i describes sample i`, three index-range forms) "
             "and in-parallel-region twins (sanitizer build only); each other request runs in the ASan+UBSan+_GLIBCXX_ASSERTIONS build and "
             "in the Eigen-assertions build (evaluations = 2 per request); non-trivial = the model lets the request "
             "proceed to embed(); distinct by (method, back-ends, N, D, d, k, kind, keywords)",
        samples=[pub(c) for c in cases[:3] + cases[ncorpus:ncorpus + 3] + cases[-2:]],
        histogram=hist, trusted_base=TRUSTED,
        assumptions=["samples are finite doubles", "neighbour lists are as C02/C03 state (equal length k_eff, "
                     "entries are sample indices): the harness dumps the real lists' lengths and feeds them to the model",
                     "scalar keyword predicates are evaluated in Python with the C++'s double expressions (C14)",
                     "F7 (known finding) is open: requests in the F7 zone are expected to crash and reported as KNOWN-FINDING"],
        extra={"builds": ["sanitize(-O0 -g0)", "eigen_debug(-O0, no sanitizer)",
                          "sanitize(-O0 -g0) with the index range in a two-block std::deque (row-order stream only)"],
               "watchdog_s": 10,
               "obligation_files": ["coq/gen/ShapesSrc.v (regenerated)", "coq/gen/Validate_C01.v (regenerated)",
                                    "coq/gen/EigSelect_C01.v (regenerated)", "coq/Properties_C01.v"],
               "finiteness_clause": {"status": "TEST (not proved)", "checked_by_method": stats_fin,
                                     "nonfinite_by_method": stats_nonfin},
               "row_order_clause": {
                   "status": "TEST through three oracles on the dumped matrix (both builds) + the theorem "
                             "c01_tri_rows_src_in_sample_order for the landmark triangulation",
                   "checked": stats.get("rows", {}),
                   "cluster_oracle_required_for": ROW_CLUSTER_WHY,
                   "cluster_oracle_not_expected_for": ROW_CLUSTER_EXCLUDED,
                   "order_oracle_required_for": ROW_CURVE_WHY,
                   "order_oracle_not_expected_for": ROW_CURVE_EXCLUDED,
                   "isometry_oracle": "mds kpca pca lmds isomap(k=N-1) lisomap(k=N-1, ratio 1) with target_dimension >= D, "
                                      "dense solver: every pairwise distance of the rows equals that of the samples (1e-6 rel.)",
                   "projection_oracle": "pca ra npe lpp lltsa: row i == returned projecting function applied to sample i (1e-7 rel.)"}})


def replay(ctx, case):
    translate_all(ctx)
    exes3, mexe = build_all(ctx)
    exes, exe_deq = split_exes(exes3)
    if (case.get("p") or {}).get("range") == "deque":
        exes = exe_deq
    c = dict(case)
    c.setdefault("p", {})
    c.setdefault("seed", 1)
    c.setdefault("kind", "generic")
    c.setdefault("nm", "brute")
    c.setdefault("em", "dense")
    c["id"] = 1
    stats = new_stats()
    todo = [c]
    if c["p"].get("par"):
        # a call from inside a parallel region: its serial twin first (ids 1, 2); the TAPKEE_DEBUG build is left out
        # (its RESTRICT_ALLOC instrumentation is one process-wide Eigen flag)
        c["id"], c["twin"] = 2, 1
        todo = [dict(c, id=1, p={k: v for k, v in c["p"].items() if k != "par"}), c]
        todo[0].pop("twin", None)
        exes = {"san": exes["san"]} if "san" in exes else exes
    model, results = evaluate(ctx, exes, mexe, todo, stats, workers=1)
    print("model (head variant): %s" % model[c["id"]])
    for b in exes:
        for t in todo:
            print("%s build%s: %s" % (b, " (inside a parallel region)" if t["p"].get("par") else "",
                                      {k: (str(v)[:600]) for k, v in results[b][t["id"]].items()}))
    if ctx.has_violation() or ctx.is_unshown():
        print("replay: property C01 FAILS on this request")
        return 1
    print("replay: property C01 holds on this request" + (" (known finding F7)" if ctx._known else ""))
    return 0
