"""C17 — t-SNE: calibrated similarities from true neighbours, true KL gradient.

proof  : coq/Properties_C17.v over coq/Tsne_Model.v (dense algebra at Qc, perplexity search over Q with
         exp/log oracles, K by PrimFloat), Tsne_Vp_Model.v (tsne::VpTree + neighbour loop), Tsne_Sym_Model.v
         (symmetrizeMatrix with bounds-checked arrays).
tie    : harness/c17.cpp reaches the private members of tsne::TSNE / tsne::VpTree (`#define private public`
         around the three barnes_hut_sne headers only) and is compiled against ctx.repo on every run.
         exact streams (dyadic inputs, model and implementation must agree to the last bit):
           DD  computeSquaredEuclideanDistance  vs extracted sqdist_fixed / true_sqdist (Qc)
           ZM  zeroMean (N a power of two)       vs extracted zero_mean; column sums exactly 0
           SY  symmetrizeMatrix                  vs extracted symmetrize (Q), spec sym_spec_b on the output
           VP  tsne::VpTree create+search        tree dump -> extracted vp_inv_b / vp_holds_b, extracted search
                                                 on the DUMPED tree (integer distances), brute force, is_knn_b
           PK  K-NN overload: neighbour columns  vs extracted is_knn_b on the exact squared-distance table
         tolerance streams (labelled as such; exp/log/division round):
           PD/PK rows: row sum, Shannon entropy vs log(perplexity) (1e-4, the property's figure), Gaussian shape
                  p_m ~ exp(-beta |x_n - x_m|^2), and a Python transliteration of Tsne_Model.perp_loop (1e-6)
           GE  computeExactGradient vs extracted exact_grad_fixed = grad_spec (1e-9) and vs central finite
               differences of KL(P||Q) (1e-5)
           GB  computeGradient (Barnes-Hut) vs the O(N^2) closed form for theta in {0.5, 0.1, 1e-6}
           EE  evaluateError vs KL formula;  API: whole runs (centred, finite, separated clusters stay separated)
search : when a proof or a tie breaks the generators are re-run at a larger budget against the spec only.
"""
import hashlib
import json
import math
import os
import re
from fractions import Fraction

import vlib

PROPERTY = "C17"

TRUSTED = [
    "hand-written models Tsne_Model.v / Tsne_Vp_Model.v / Tsne_Sym_Model.v tied by differential testing "
    "(exact on dyadic inputs), not a proof about the C++ text",
    "exp, log, sqrt are value oracles: theorems hold for every oracle; IEEE rounding is not modelled except "
    "K = (int)(3*perplexity) (PrimFloat, vm_compute)",
    "perplexity loop: tied (1) through the EXTRACTED search Tsne_PerpRed_Model.perp_row_r (proved to return what "
    "Tsne_Model.perp_loop returns, perplexity_reduced_model_equiv) with binary64 exp/log of the OCaml runtime as the "
    "oracles, on selected rows of small dyadic cases (same search: 1e-16 observed; the verdict threshold is the 2e-4 of (2), "
    "a deviation above 1e-9 is counted in the evidence: another search path that reaches the target still meets the property), and (2) on every row through a Python "
    "transliteration in binary64, 2e-4 per entry (any equally valid search path passes); spec (entropy, Gaussian "
    "shape) on every row",
    "OpenMP: the models are serial programs; the check scans tsne.hpp / quadtree.hpp / vptree.hpp / methods/tsne.hpp for "
    "`#pragma omp`, _Pragma(\"omp\"), std::thread/async/execution::par (none today: the assumption under which "
    "bh_gradient_limit and the other theorems speak about this code) and runs computeGradient, the K-NN perplexity "
    "overload and symmetrizeMatrix at N ~ 1200-1500 under 1, 8 and 16 threads; libgomp, the scheduler and the C++ memory "
    "model are not modelled",
    "std::nth_element, std::priority_queue, uniform_random(): oracles (contract nth_ok / any maximal element / "
    "any pivot); the real tree is dumped and checked against vp_inv_b on every VP case",
    "Eigen product in computeSquaredEuclideanDistance: exact on dyadic inputs (compared exactly)",
    "quadtree (computeGradient): C18's model under Tsne_BH_Model.bh_gradient, EXECUTED (extracted) against the real "
    "computeGradient on small dyadic maps (1e-9: centre of mass and 1/(1+D) round in binary64); larger maps: "
    "BH-vs-closed-form numerics and the quadtree's public interface queried point by point (tests, not theorems)",
    "extraction (ExtrOcamlBasic only) + OCaml 4.13.1 + coq/extract/c17_driver.ml (parsing/printing)",
    "harness/c17.cpp; g++ ASan/UBSan/_GLIBCXX_ASSERTIONS as the memory-safety observer",
    "max-normalisation X /= X.maxCoeff() and the 12x exaggeration / momentum schedule inside run() are not "
    "observable separately: covered by theorem (max_normalise_ok) and whole-run tests only",
    "PrimFloat / PrimInt63 primitives (listed by Print Assumptions K_max_perplexity)",
]


# ----------------------------------------------------------------------------- number helpers
def fr(x):
    x = Fraction(x)
    return str(x.numerator) if x.denominator == 1 else "%d/%d" % (x.numerator, x.denominator)


def hx(tok):
    """hex float token -> float (None when unparsable)."""
    try:
        return float.fromhex(tok)
    except (ValueError, OverflowError):
        try:
            return float(tok)
        except ValueError:
            return None


def fl(x):
    return float(x).hex()


def parse_q(tok):
    return Fraction(tok)


def rel_err(a, b, scale):
    return abs(a - b) / max(scale, 1e-300)


# ----------------------------------------------------------------------------- process plumbing
def run_impl(ctx, exe, lines, timeout=600):
    """lines: list of (id, text).  Returns {id: ('R', tokens) | ('CRASH', why) | ('TIMEOUT', why)}."""
    out = {}
    todo = list(lines)
    guard = 0
    while todo and guard < 12:
        guard += 1
        r = ctx.run(exe, "".join(t + "\n" for _, t in todo), timeout=timeout)
        last = None
        for ln in r.out.splitlines():
            if ln.startswith("C "):
                try:
                    last = int(ln[2:])
                except ValueError:
                    last = None
            elif ln.startswith("R "):
                w = ln.split()
                try:
                    out[int(w[1])] = ("R", w[2:])
                except (ValueError, IndexError):
                    pass
            elif ln.startswith("T "):
                try:
                    out[int(ln[2:])] = ("TIMEOUT", "in-process watchdog fired")
                except ValueError:
                    pass
        if r.rc == 0 and not r.timed_out:
            for i, _ in todo:
                out.setdefault(i, ("CRASH", "no result line"))
            break
        ids = [i for i, _ in todo]
        if last is None or last not in ids:
            last = ids[0]
        if last not in out or out[last][0] == "R":
            why = r.sanitizer or ("timeout" if r.timed_out else "rc=%d %s" % (r.rc, r.err[-400:]))
            if last not in out:
                out[last] = ("TIMEOUT" if r.timed_out else "CRASH", str(why)[:900])
        k = ids.index(last)
        todo = todo[k + 1:]
    for i, _ in lines:
        out.setdefault(i, ("CRASH", "no output"))
    return out


def run_model(ctx, mexe, lines):
    r = ctx.run(mexe, "".join(t + "\n" for _, t in lines), timeout=900)
    out = {}
    for ln in r.out.splitlines():
        w = ln.split()
        if len(w) >= 2 and w[0] == "R":
            try:
                out[int(w[1])] = w[2:]
            except ValueError:
                pass
    if r.rc != 0 or len(out) != len(lines):
        raise vlib.BuildError("model driver failed: rc=%s %s" % (r.rc, (r.err or r.out)[-500:]))
    for k, v in out.items():
        if v and v[0] == "ERROR":
            raise vlib.BuildError("model driver error on case %d: %s" % (k, " ".join(v)[:300]))
    return out


def split_bar(tokens):
    parts, cur = [], []
    for t in tokens:
        if t == "|":
            parts.append(cur)
            cur = []
        else:
            cur.append(t)
    parts.append(cur)
    return parts


# ----------------------------------------------------------------------------- generators
def dyadic(rng, lo, hi, m):
    return Fraction(rng.randint(lo * (1 << m), hi * (1 << m)), 1 << m)


def gen_points(rng, N, D, kind):
    if kind == "ints":
        return [[Fraction(rng.randint(-6, 6)) for _ in range(D)] for _ in range(N)]
    if kind == "dyadic":
        m = rng.choice([1, 3, 6])
        return [[dyadic(rng, -4, 4, m) for _ in range(D)] for _ in range(N)]
    if kind == "big":
        return [[Fraction(rng.randint(-2000, 2000) * 1024) for _ in range(D)] for _ in range(N)]
    if kind == "coincident":
        base = [[Fraction(rng.randint(-3, 3)) for _ in range(D)] for _ in range(max(1, N // 2))]
        return [list(rng.choice(base)) for _ in range(N)]
    if kind == "zero":
        return [[Fraction(0)] * D for _ in range(N)]
    raise ValueError(kind)


def distinct_points(rng, N, D, kind):
    seen, pts = set(), []
    tries = 0
    while len(pts) < N and tries < 100 * N:
        tries += 1
        if kind == "lattice":
            p = tuple(Fraction(rng.randint(-5, 5)) for _ in range(D))
        elif kind == "line34":          # integer multiples of (3,4): all distances are integers
            t = rng.randint(-40, 40)
            p = (Fraction(3 * t), Fraction(4 * t)) + (Fraction(0),) * (D - 2) if D >= 2 else (Fraction(t),)
        elif kind == "line1":
            p = (Fraction(rng.randint(-60, 60)),) + (Fraction(0),) * (D - 1)
        else:
            p = tuple(dyadic(rng, -4, 4, 5) for _ in range(D))
        if p not in seen:
            seen.add(p)
            pts.append(list(p))
    return pts


def sqd(a, b):
    return sum((x - y) * (x - y) for x, y in zip(a, b))


def gen_clusters(rng, N, D, nc, sep):
    centres = [[sep * (c if d == 0 else (c * c) % 3) for d in range(D)] for c in range(nc)]
    pts, lab = [], []
    for i in range(N):
        c = i % nc
        pts.append([centres[c][d] + rng.gauss(0, 0.3) for d in range(D)])
        lab.append(c)
    return pts, lab


def gen_csr(rng, N, kind):
    """rows of distinct columns; values dyadic > 0."""
    rows = []
    for n in range(N):
        if kind == "knn":
            K = min(N - 1, 3)
            cols = rng.sample([c for c in range(N) if c != n], K) if N > 1 else []
        elif kind == "sparse":
            cols = [c for c in range(N) if rng.random() < 0.35]
            rng.shuffle(cols)
        elif kind == "full":
            cols = list(range(N))
            rng.shuffle(cols)
        elif kind == "star":
            cols = [0] if n != 0 else []
        elif kind == "diag":
            cols = [n] + ([rng.randrange(N)] if rng.random() < 0.5 else [])
            cols = list(dict.fromkeys(cols))
        elif kind == "empty":
            cols = []
        else:
            raise ValueError(kind)
        rows.append(cols)
    row_P, col_P, val_P = [0], [], []
    for cols in rows:
        for c in cols:
            col_P.append(c)
            val_P.append(Fraction(rng.randint(1, 64), 64))
        row_P.append(len(col_P))
    return row_P, col_P, val_P


# ----------------------------------------------------------------------------- case construction
# every case is a JSON-serialisable dict {"kind": ..., ...} with rationals as "p/q" strings
def qs(rows):
    return [[fr(x) for x in r] for r in rows]


def unq(rows):
    return [[Fraction(x) for x in r] for r in rows]


def flat(rows):
    return [x for r in rows for x in r]


def gen_cases(ctx, rng, scale):
    """scale = 1 for the quick tier; generators are count-driven (never time-driven)."""
    cases = []
    hist = {}

    def add(c, tag):
        cases.append(c)
        hist[tag] = hist.get(tag, 0) + 1

    # DD exact
    for kind in ["ints", "dyadic", "big", "coincident", "zero"]:
        for _ in range(6 * scale if kind in ("ints", "dyadic") else 2 * scale):
            N, D = rng.choice([1, 2, 3, 5, 8]), rng.choice([1, 2, 3, 5])
            add({"kind": "DD", "X": qs(gen_points(rng, N, D, kind))}, "DD/" + kind)
    # ZM exact (N power of two) and tolerance (other N)
    for _ in range(8 * scale):
        N, D = rng.choice([1, 2, 4, 8, 16]), rng.choice([1, 2, 3])
        add({"kind": "ZM", "X": qs(gen_points(rng, N, D, rng.choice(["ints", "dyadic"])))}, "ZM/pow2")
    for _ in range(4 * scale):
        N, D = rng.choice([3, 5, 6, 7, 12]), rng.choice([1, 2, 3])
        add({"kind": "ZM", "X": qs(gen_points(rng, N, D, "dyadic"))}, "ZM/other")
    # SY exact
    for kind in ["knn", "sparse", "full", "star", "diag", "empty"]:
        for _ in range(8 * scale if kind in ("knn", "sparse", "diag") else 3 * scale):
            N = rng.choice([1, 2, 3, 4, 6, 9, 14])
            row_P, col_P, val_P = gen_csr(rng, N, kind)
            add({"kind": "SY", "N": N, "row": row_P, "col": col_P, "val": [fr(v) for v in val_P]}, "SY/" + kind)
    add({"kind": "SY", "N": 0, "row": [0], "col": [], "val": []}, "SY/empty")
    if scale >= 12:
        # thorough tier / search phase: every sparsity pattern of a 3 x 3 matrix (2^9), columns ascending
        for mask in range(512):
            row_P, col_P, val_P = [0], [], []
            for n in range(3):
                for c in range(3):
                    if mask >> (3 * n + c) & 1:
                        col_P.append(c)
                        val_P.append(Fraction(1 + 3 * n + c, 16))
                row_P.append(len(col_P))
            add({"kind": "SY", "N": 3, "row": row_P, "col": col_P, "val": [fr(v) for v in val_P]}, "SY/exhaustive3x3")
    # VP exact (integer distances) and lattice (spec only)
    for kind in ["line1", "line34", "lattice", "dyadic"]:
        for _ in range(6 * scale):
            D = 1 if kind == "line1" else rng.choice([2, 3])
            N = rng.choice([1, 2, 3, 5, 9, 17, 30])
            pts = distinct_points(rng, N, D, kind)
            k = rng.choice([1, 2, 3, max(1, len(pts) // 2), len(pts), len(pts) + 2])
            add({"kind": "VP", "X": qs(pts), "k": k}, "VP/" + kind)
    for _ in range(3 * scale):       # coincident samples: brute-force distance multiset only
        N = rng.choice([4, 8, 13])
        add({"kind": "VP", "X": qs(gen_points(rng, N, 2, "coincident")), "k": rng.choice([2, 3, N])}, "VP/coincident")
    # PK: neighbour rows of the Barnes-Hut branch
    for kind in ["lattice", "dyadic", "line1"]:
        for _ in range(5 * scale):
            D = 1 if kind == "line1" else rng.choice([2, 3])
            N = rng.choice([8, 13, 22, 30, 40])
            pts = distinct_points(rng, N, D, kind)
            N = len(pts)
            pmax = (N - 1) / 3.0
            perp = rng.choice([pmax, 2.0, min(pmax, 3.5), 1.0 + rng.random() * (pmax - 1.0)])
            add({"kind": "PK", "X": qs(pts), "perp": fl(perp), "K": int(3 * perp)}, "PK/" + kind)
    for _ in range(max(1, scale // 3)):      # a deeper VP tree
        pts = distinct_points(rng, 150, 3, "dyadic")
        add({"kind": "PK", "X": qs(pts), "perp": fl(10.0), "K": 30}, "PK/large")
    # PK with coincident samples (the query is not necessarily the first result of the tree search)
    for _ in range(3 * scale):
        N = rng.choice([8, 12, 20])
        pts = gen_points(rng, N, 2, "coincident")
        perp = rng.choice([2.0, (N - 1) / 3.0])
        add({"kind": "PK", "X": qs(pts), "perp": fl(perp), "K": int(3 * perp)}, "PK/coincident")
    # PD: dense conditional similarities (generic doubles)
    for _ in range(8 * scale):
        N, D = rng.choice([5, 9, 16, 30]), rng.choice([1, 2, 4])
        pts = [[rng.gauss(0, 1) * rng.choice([0.2, 1.0, 3.0]) for _ in range(D)] for _ in range(N)]
        pmax = (N - 1) / 3.0
        perp = rng.choice([pmax, 1.5, 1.0 + rng.random() * (pmax - 1.0)])
        add({"kind": "PD", "X": [[fl(x) for x in p] for p in pts], "perp": fl(perp)}, "PD")
    # GE: exact gradient
    for _ in range(10 * scale):
        N, D = rng.choice([2, 3, 4, 6]), rng.choice([1, 2, 3])
        W = [[0] * N for _ in range(N)]
        for a in range(N):
            for b in range(a + 1, N):
                W[a][b] = W[b][a] = rng.randint(1, 9)
        tot = sum(map(sum, W)) or 1
        P = [[Fraction(W[a][b], tot) for b in range(N)] for a in range(N)]
        Y = gen_points(rng, N, D, "dyadic")
        add({"kind": "GE", "P": qs(P), "Y": qs(Y)}, "GE")
    # GB: Barnes-Hut gradient vs closed form
    for _ in range(4 * scale):
        N = rng.choice([10, 25, 60])
        Y = [[rng.gauss(0, 1) * rng.choice([0.01, 1.0, 10.0]), rng.gauss(0, 1)] for _ in range(N)]
        edges = {}
        for a in range(N):
            for b in rng.sample(range(N), min(N - 1, 4)):
                if a != b:
                    edges[(min(a, b), max(a, b))] = rng.random()
        tot = 2 * sum(edges.values()) or 1.0
        rows = [[] for _ in range(N)]
        for (a, b), v in edges.items():
            rows[a].append((b, v / tot))
            rows[b].append((a, v / tot))
        row_P, col_P, val_P = [0], [], []
        for r in rows:
            for c, v in r:
                col_P.append(c)
                val_P.append(fl(v))
            row_P.append(len(col_P))
        add({"kind": "GB", "N": N, "row": row_P, "col": col_P, "val": val_P,
             "Y": [[fl(x) for x in p] for p in Y]}, "GB")
    # EE: evaluateError (map dimension 1, 2, 3)
    for D in [1, 2, 3]:
        for _ in range(2 * scale):
            N = rng.choice([3, 5, 8])
            W = [[0 if a == b else rng.randint(1, 9) for b in range(N)] for a in range(N)]
            tot = sum(map(sum, W))
            P = [[fl(W[a][b] / tot) for b in range(N)] for a in range(N)]
            Y = [[fl(rng.gauss(0, 1)) for _ in range(D)] for _ in range(N)]
            add({"kind": "EE", "P": P, "Y": Y}, "EE/D%d" % D)
    # ---- wave 2 ----------------------------------------------------------------------------------------
    # scale sweep: run() centres and divides by the largest entry, so every similarity stage is scale-free; the
    # member functions are driven with the same dyadic data multiplied by 2^s (exact), so that an absolute
    # threshold anywhere in them (a tolerance, an epsilon, DBL_MIN used as a cut-off) shows
    SC = [-60, -31, 30, 60]
    for _ in range(2 * scale):
        s_ = rng.choice(SC)
        N, D = rng.choice([3, 5, 8]), rng.choice([1, 2, 3])
        add({"kind": "DD", "X": qs(scaled(gen_points(rng, N, D, "dyadic"), s_)), "scale": s_}, "DD/scaled")
    for _ in range(2 * scale):
        s_ = rng.choice(SC)
        N, D = rng.choice([2, 4, 8]), rng.choice([1, 2])
        add({"kind": "ZM", "X": qs(scaled(gen_points(rng, N, D, "dyadic"), s_)), "scale": s_}, "ZM/scaled")
    for _ in range(2 * scale):
        s_ = rng.choice(SC)
        D = rng.choice([2, 3])
        pts = distinct_points(rng, rng.choice([13, 22, 30]), D, rng.choice(["lattice", "dyadic"]))
        N = len(pts)
        perp = rng.choice([2.0, 3.5, (N - 1) / 3.0])
        add({"kind": "PK", "X": qs(scaled(pts, s_)), "perp": fl(perp), "K": int(3 * perp), "scale": s_}, "PK/scaled")
    # dense conditional similarities on dyadic data (squared distances exact), some scaled; `model`: rows are also
    # computed by the EXTRACTED perplexity search (Tsne_PerpRed_Model.perp_row_r, binary64 exp/log oracles)
    for j in range(3 * scale):
        N, D = rng.choice([5, 6, 8, 12]), rng.choice([1, 2])
        pts = distinct_points(rng, N, D, "dyadic")
        N = len(pts)
        pmax = (N - 1) / 3.0
        perp = rng.choice([pmax, 1.0 + 0.5 * (pmax - 1.0), 1.0 + rng.random() * (pmax - 1.0)])
        s_ = rng.choice([0, 0, -30, 30]) if j % 3 else rng.choice(SC)
        c = {"kind": "PD", "X": [[fl(x) for x in p] for p in scaled(pts, s_)], "perp": fl(perp), "scale": s_, "dyadic": True}
        if abs(s_) <= 30:
            c["model_rows"] = sorted({j % N, N - 1})      # 0.15 .. 0.5 s per row through the extracted search
        add(c, "PD/dyadic" + ("" if s_ == 0 else "-scaled"))
    for j in range(3 * scale):
        kind = rng.choice(["lattice", "dyadic", "line1"])
        D = 1 if kind == "line1" else 2
        pts = distinct_points(rng, rng.choice([8, 10, 13]), D, kind)
        N = len(pts)
        pmax = (N - 1) / 3.0
        perp = rng.choice([pmax, 2.0, 1.0 + rng.random() * (pmax - 1.0)])
        s_ = rng.choice([0, 0, -30, 30])
        add({"kind": "PK", "X": qs(scaled(pts, s_)), "perp": fl(perp), "K": int(3 * perp), "scale": s_,
             "model_rows": [(5 * j + 1) % N]}, "PK/small-model")
    # GM: computeGradient against the EXTRACTED model (Tsne_BH_Model.bh_gradient on c18's tsne_tree) on small
    # dyadic maps, theta in {0, 1/8, 1/2, 1}
    for j in range(4 * scale):
        N = rng.choice([2, 3, 4, 5, 6, 8, 8, 12])
        if j % 4 == 3 and N >= 4:
            base = distinct_points(rng, max(2, N // 2), 2, "dyadic")
            Y = [list(base[i]) if i < len(base) else list(rng.choice(base)) for i in range(N)]
            tag = "GM/coincident"
        else:
            Y = distinct_points(rng, N, 2, rng.choice(["lattice", "dyadic"]))
            tag = "GM/distinct"
        N = len(Y)
        edges = {}
        for a in range(N):
            for b in rng.sample(range(N), min(N - 1, 3)):
                if a != b:
                    edges[(min(a, b), max(a, b))] = rng.randint(1, 16)
        tot = 1
        while tot < 2 * sum(edges.values()):
            tot *= 2
        rows = [[] for _ in range(N)]
        for (a, b), v in sorted(edges.items()):
            rows[a].append((b, Fraction(v, tot)))
            rows[b].append((a, Fraction(v, tot)))
        row_P, col_P, val_P = [0], [], []
        for r in rows:
            for cidx, v in r:
                col_P.append(cidx)
                val_P.append(fr(v))
            row_P.append(len(col_P))
        add({"kind": "GM", "N": N, "row": row_P, "col": col_P, "val": val_P, "Y": qs(Y),
             "theta": fr(rng.choice([Fraction(0), Fraction(1, 8), Fraction(1, 2), Fraction(1)]))}, tag)
    # ---- round 5 ---------------------------------------------------------------------------------------
    # GB on anisotropic maps: "every map configuration reached during optimisation" includes filaments.  The quadtree's
    # cells inherit the aspect ratio of the root box (hw and hh come from the two extents independently), so the
    # opening criterion is exercised with hh >> hw (tall) and hw >> hh (wide), centred and far from the origin.  Same
    # thresholds as GB above (measured on /repo d944bac over 240 such maps: 0.19 / 4e-3 / 1.5e-15 at theta 0.5 / 0.1 / 1e-6)
    for j in range(3 * scale):
        N = rng.choice([10, 25, 60])
        small = rng.choice([1e-2, 1e-4, 1e-6, 1e-9])
        sx, sy = (small, 1.0) if j % 2 == 0 else (1.0, small)
        if rng.random() < 0.25:
            sx, sy = sx * 100.0, sy * 100.0
        ox, oy = rng.choice([(0.0, 0.0), (3.0, -7.0)])
        Y = [[rng.gauss(0, 1) * sx + ox, rng.gauss(0, 1) * sy + oy] for _ in range(N)]
        edges = {}
        for a in range(N):
            for b in rng.sample(range(N), min(N - 1, 4)):
                if a != b:
                    edges[(min(a, b), max(a, b))] = rng.random()
        tot = 2 * sum(edges.values()) or 1.0
        rows = [[] for _ in range(N)]
        for (a, b), v in edges.items():
            rows[a].append((b, v / tot))
            rows[b].append((a, v / tot))
        row_P, col_P, val_P = [0], [], []
        for r in rows:
            for cidx, v in r:
                col_P.append(cidx)
                val_P.append(fl(v))
            row_P.append(len(col_P))
        add({"kind": "GB", "N": N, "row": row_P, "col": col_P, "val": val_P,
             "Y": [[fl(x) for x in p] for p in Y]}, "GB/tall" if j % 2 == 0 else "GB/wide")
    return cases, hist


def scaled(X, s):
    f = Fraction(2) ** s
    return [[Fraction(x) * f for x in p] for p in X]


def gen_api_cases(ctx, rng, quick):
    cases = []
    specs = [(24, 3, 2, 2, 4.0, 0.0), (36, 2, 2, 3, 5.0, 0.5), (12, 2, 1, 2, 2.0, 0.0), (18, 3, 3, 2, 3.0, 0.5),
             (30, 2, 2, 2, 4.0, 0.01), (18, 3, 3, 2, 3.0, 0.0)]
    if not quick:
        # perplexity at most a third of the cluster size: otherwise the neighbourhoods themselves span clusters
        specs += [(60, 4, 2, 3, 6.0, 0.5), (60, 4, 2, 4, 5.0, 0.0), (45, 2, 2, 3, 5.0, 0.2), (30, 3, 3, 2, 5.0, 0.0),
                  (40, 2, 2, 2, 6.0, 1.0), (90, 5, 2, 3, 10.0, 0.5)]
    # coincident samples: all identical (centred data is all zero: F43), and two groups of identical samples
    for (N, theta) in [(10, 0.5), (8, 0.0)]:
        v = [rng.randint(-3, 3) + 0.5 for _ in range(2)]
        cases.append({"kind": "API", "X": [[fl(x) for x in v] for _ in range(N)], "labels": [0] * N, "d": 2,
                      "perp": fl(2.0), "theta": fl(theta), "seed": rng.randint(1, 10 ** 6)})
    for (N, D, d, nc, perp, theta) in specs:
        pts, lab = gen_clusters(rng, N, D, nc, 8.0)
        cases.append({"kind": "API", "X": [[fl(x) for x in p] for p in pts], "labels": lab, "d": d,
                      "perp": fl(perp), "theta": fl(theta), "seed": rng.randint(1, 10 ** 6)})
    # scale sweep through the public path: the same request with the features multiplied by 2^s.  Centring and the
    # division by the largest entry are exact under a power of two, so the normalised data, hence the whole run
    # (same seed), must come out bit for bit the same
    twins = []
    for (j, s_) in ([(2, 60), (3, -60)] if quick else [(2, 60), (3, -60), (4, 30), (5, -31), (6, -60), (7, 60)]):
        if j < len(cases):
            b = cases[j]
            twins.append(dict(b, X=[[fl(hx(x) * 2.0 ** s_) for x in p] for p in b["X"]], twin_of=j, scale=s_))
    return cases + twins


# ----------------------------------------------------------------------------- case -> harness / model lines
def impl_line(i, c):
    k = c["kind"]
    if k in ("DD", "ZM"):
        X = c["X"]
        N, D = len(X), (len(X[0]) if X else 1)
        return "%s %d %d %d %s" % (k, i, N, D, " ".join(fl(Fraction(x)) for x in flat(X)))
    if k == "SY":
        return "SY %d %d %d %s %s %s" % (i, c["N"], len(c["col"]), " ".join(map(str, c["row"])),
                                         " ".join(map(str, c["col"])), " ".join(fl(Fraction(v)) for v in c["val"]))
    if k == "VP":
        X = c["X"]
        return "VP %d %d %d %d %s" % (i, len(X), len(X[0]) if X else 1, c["k"],
                                      " ".join(fl(Fraction(x)) for x in flat(X)))
    if k == "PK":
        X = c["X"]
        return "PK %d %d %d %s %d %s" % (i, len(X), len(X[0]), c["perp"], c["K"],
                                         " ".join(fl(Fraction(x)) for x in flat(X)))
    if k == "PD":
        X = c["X"]
        return "PD %d %d %d %s %s" % (i, len(X), len(X[0]), c["perp"], " ".join(flat(X)))
    if k == "GE":
        P, Y = c["P"], c["Y"]
        return "GE %d %d %d %s %s" % (i, len(Y), len(Y[0]), " ".join(fl(Fraction(x)) for x in flat(P)),
                                      " ".join(fl(Fraction(x)) for x in flat(Y)))
    if k == "EE":
        P, Y = c["P"], c["Y"]
        return "EE %d %d %d %s %s" % (i, len(Y), len(Y[0]), " ".join(flat(P)), " ".join(flat(Y)))
    if k == "GB":
        return "GB %d %d %s %d %s %s %s %s" % (i, c["N"], c["theta"], len(c["col"]), " ".join(map(str, c["row"])),
                                               " ".join(map(str, c["col"])), " ".join(c["val"]), " ".join(flat(c["Y"])))
    if k == "GM":
        return "GB %d %d %s %d %s %s %s %s" % (i, c["N"], fl(Fraction(c["theta"])), len(c["col"]), " ".join(map(str, c["row"])),
                                               " ".join(map(str, c["col"])), " ".join(fl(Fraction(v)) for v in c["val"]),
                                               " ".join(fl(Fraction(x)) for x in flat(c["Y"])))
    if k == "API":
        X = c["X"]
        return "API %d %d %d %d %s %s %d %s" % (i, len(X), len(X[0]), c["d"], c["perp"], c["theta"], c["seed"],
                                                " ".join(flat(X)))
    raise ValueError(k)


def model_line(i, c):
    k = c["kind"]
    if k in ("DD", "ZM"):
        X = c["X"]
        return "%s %d %d %d %s" % (k, i, len(X), len(X[0]) if X else 1, " ".join(flat(X)))
    if k == "SY":
        return "SY %d %d %d %s %s %s" % (i, c["N"], len(c["col"]), " ".join(map(str, c["row"])),
                                         " ".join(map(str, c["col"])), " ".join(c["val"]))
    if k == "GE":
        P, Y = c["P"], c["Y"]
        return "GE %d %d %d %s %s" % (i, len(Y), len(Y[0]), " ".join(flat(P)), " ".join(flat(Y)))
    if k == "GM":
        return "GM %d %d %s %s 80 %s %d %s %s %s" % (i, c["N"], c["theta"], fr(Fraction(1e-5)), " ".join(flat(c["Y"])),
                                                     len(c["col"]), " ".join(map(str, c["row"])),
                                                     " ".join(map(str, c["col"])), " ".join(c["val"]))
    raise ValueError(k)


def pr_line(self_idx, perp, dd):
    """the extracted perplexity search on one row: tol = the double 1e-5, DBL_MIN, exact rationals."""
    return "PR 0 %d %s %s %s %d %s" % (-1 if self_idx is None else self_idx, fr(Fraction(perp)), fr(Fraction(1e-5)),
                                       fr(Fraction(DBL_MIN)), len(dd), " ".join(fr(x) for x in dd))


PRSTAT = {"rows": 0, "not_found": 0, "max_dev": 0.0, "differ_over_1e-9": 0}


def pr_handler(what, n, row, skip):
    """compare the implementation's row with the extracted model's; rows on which the model's search does not end
    with found (target entropy unattainable in binary64) are left to the spec checks.  The same search gives the
    same row to 1e-16; an implementation that reaches the target entropy along ANOTHER path still meets the property
    (its row is within ROW_TOL): counted in the evidence, no verdict."""
    def handler(out):
        if not out or out[0] == "NONE" or out[0] != "1":
            PRSTAT["not_found"] += 1
            return None
        mrow = [hx(t) for t in out[2:]]
        if len(mrow) != len(row):
            return ("mismatch", "%s row %d: extracted perplexity search returns %d entries for %d" % (what, n, len(mrow), len(row)))
        PRSTAT["rows"] += 1
        dev = 0.0
        for m in range(len(row)):
            if m == skip:
                continue
            if row[m] is None or abs(mrow[m] - row[m]) > ROW_TOL:
                return ("mismatch", "%s row %d entry %d: implementation %r, extracted perplexity search (beta = %r) %r" % (
                    what, n, m, row[m], hx(out[1]), mrow[m]))
            dev = max(dev, abs(mrow[m] - row[m]))
        PRSTAT["max_dev"] = max(PRSTAT["max_dev"], dev)
        if dev > 1e-9:
            PRSTAT["differ_over_1e-9"] += 1
        return None
    return handler


# ----------------------------------------------------------------------------- Python mirrors (tolerance)
DBL_MIN = 2.2250738585072014e-308
# any bisection that ends within tol = 1e-5 of the target entropy is acceptable: two such rows differ by up to
# about 1e-4 per entry (the property's own figure); the transliterated loop is compared with that slack, so a
# different but equally valid search path does not raise a mismatch
ROW_TOL = 2e-4


# oracle contract of perplexity_converges, observed: over the betas one search visits, the entropy H the loop computes
# is non-increasing in beta (binary64 exp/log; counted, reported in the evidence, not a verdict)
MONO = {"searches": 0, "pairs": 0, "violations": 0, "worst": 0.0}


def mono_observe(trace):
    trace = sorted(t for t in trace if t[1] == t[1] and abs(t[1]) != float("inf"))
    MONO["searches"] += 1
    for (b1, h1), (b2, h2) in zip(trace, trace[1:]):
        if b2 > b1:
            MONO["pairs"] += 1
            if h2 > h1 + 1e-9 * (1.0 + abs(h1)):
                MONO["violations"] += 1
                MONO["worst"] = max(MONO["worst"], h2 - h1)


def perp_row_mirror(dd, self_idx, perplexity):
    """transliteration of Tsne_Model.perp_loop / the C++ loop in binary64; returns (found, row, beta)."""
    found, row, beta, trace = perp_row_mirror_traced(dd, self_idx, perplexity)
    mono_observe(trace)
    return found, row, beta


def perp_row_mirror_traced(dd, self_idx, perplexity):
    beta, minb, maxb = 1.0, None, None
    tol = 1e-5
    lp = math.log(perplexity)
    row, sum_P = None, None
    found = False
    trace = []
    for _ in range(200):
        row = [math.exp(-beta * x) for x in dd]
        if self_idx is not None:
            row[self_idx] = DBL_MIN
        sum_P = DBL_MIN
        for p in row:
            sum_P += p
        H = 0.0
        for x, p in zip(dd, row):
            H += beta * (x * p)
        H = H / sum_P + math.log(sum_P)
        trace.append((beta, H))
        Hdiff = H - lp
        if Hdiff < tol and -Hdiff < tol:
            found = True
            break
        if Hdiff > 0:
            minb = beta
            beta = beta * 2.0 if maxb is None else (beta + maxb) / 2.0
        else:
            maxb = beta
            beta = beta / 2.0 if minb is None else (beta + minb) / 2.0
    return found, [p / sum_P for p in row], beta, trace


def entropy(row):
    return -sum(p * math.log(p) for p in row if p > 0)


def check_cond_row(row, dd, others, perplexity, feasible=True, extra_mass=0.0, dscale=0.0):
    """spec of one conditional row over the index set `others` (positions into row/dd).
    returns None or a reason string."""
    vals = [row[j] for j in others]
    if any((v is None) or not (v >= 0.0) or math.isinf(v) for v in vals):
        return "entry not a finite non-negative number"
    s = sum(vals) + extra_mass
    if (feasible and abs(s - 1.0) > 1e-9) or not (s <= 1.0 + 1e-9):
        return "row sums to %r, not 1" % s
    if feasible:
        H = entropy(vals)
        if abs(H - math.log(perplexity)) > 1e-4:
            return "row entropy %.9g differs from log(perplexity) = %.9g by more than 1e-4 (perplexity %.6g instead of %.6g)" % (
                H, math.log(perplexity), math.exp(H), perplexity)
    # Gaussian shape: log p_j + beta d_j constant.  Only entries whose raw kernel value exp(-beta d_j) is a normal
    # double (beta d_j < 680) and that are not negligible in the row take part (denormals carry few bits).
    big = [j for j in others if row[j] > 1e-9]
    if len(big) >= 3:
        j0 = max(big, key=lambda j: row[j])
        j1 = min(big, key=lambda j: row[j])
        if dd[j1] != dd[j0]:
            beta = -(math.log(row[j1]) - math.log(row[j0])) / (dd[j1] - dd[j0])
            if all(abs(beta) * dd[j] < 680 for j in big):
                for j in big:
                    lhs = math.log(row[j]) - math.log(row[j0])
                    rhs = -beta * (dd[j] - dd[j0])
                    # the implementation's squared distances carry a rounding error of a few ulps of dscale
                    # (norms + norms - 2<x,y>; sqrt then square); beta multiplies it
                    if abs(lhs - rhs) > 1e-6 * (1.0 + abs(lhs) + abs(rhs)) + abs(beta) * 1e-13 * dscale:
                        return ("row is not a Gaussian kernel of the squared distances: log(p_%d/p_%d) = %.9g, "
                                "-beta (d_%d - d_%d) = %.9g" % (j, j0, lhs, j, j0, rhs))
    return None


def kl_dense(P, Y):
    N = len(Y)
    w = [[0.0 if a == b else 1.0 / (1.0 + sum((Y[a][d] - Y[b][d]) ** 2 for d in range(len(Y[0]))))
          for b in range(N)] for a in range(N)]
    Z = sum(map(sum, w))
    C = 0.0
    for a in range(N):
        for b in range(N):
            if a != b and P[a][b] > 0:
                C += P[a][b] * math.log(P[a][b] / (w[a][b] / Z))
    return C


def closed_form_grad(N, row, col, val, Y):
    """dC_n = sum_edges p (y_n - y_m)/(1+d) - (sum_{m != n} q^2 (y_n - y_m)) / Z   (what computeGradient
    approximates), in binary64."""
    D = len(Y[0])
    Z = 0.0
    neg = [[0.0] * D for _ in range(N)]
    for a in range(N):
        for b in range(N):
            if a != b:
                dist = sum((Y[a][d] - Y[b][d]) ** 2 for d in range(D))
                q = 1.0 / (1.0 + dist)
                Z += q
                for d in range(D):
                    neg[a][d] += q * q * (Y[a][d] - Y[b][d])
    g = [[0.0] * D for _ in range(N)]
    for a in range(N):
        for i in range(row[a], row[a + 1]):
            b = col[i]
            dist = sum((Y[a][d] - Y[b][d]) ** 2 for d in range(D))
            for d in range(D):
                g[a][d] += val[i] / (1.0 + dist) * (Y[a][d] - Y[b][d])
        for d in range(D):
            g[a][d] -= neg[a][d] / Z
    return g


# ----------------------------------------------------------------------------- evaluation
def floats(tokens):
    return [hx(t) for t in tokens]


def eval_cases(ctx, exe, mexe, cases, stats, spec_only=False):
    """runs every case; records violations (spec on the implementation's output / crash) and mismatches
    (model vs implementation).  Returns the number of evaluations."""
    extra_evals = 0
    for c in cases:
        if c["kind"] in ("TG", "TP"):
            try:
                extra_evals += (eval_tg if c["kind"] == "TG" else eval_tp)(ctx, exe, c, stats)
            except (ValueError, IndexError, TypeError, KeyError, ZeroDivisionError, OverflowError, StopIteration) as ex:
                extra_evals += 1
                ctx.violation(c, "output of the implementation on a %d-sample %s case cannot be parsed / is not a number: %r" % (
                    c.get("N", len(c.get("X", []))), "computeGradient" if c["kind"] == "TG" else "K-NN similarities", ex))
    cases = [c for c in cases if c["kind"] not in ("TG", "TP")]
    if not cases:
        return extra_evals
    # expand GB into three thetas
    runs = []
    for ci, c in enumerate(cases):
        if c["kind"] == "GB" and "theta" not in c:
            for th in (0.5, 0.1, 1e-6):
                runs.append((ci, dict(c, theta=fl(th))))
        else:
            runs.append((ci, c))
    lines = [(i, impl_line(i, c)) for i, (_, c) in enumerate(runs)]
    res = run_impl(ctx, exe, lines, timeout=900)
    mlines = [(i, model_line(i, c)) for i, (_, c) in enumerate(runs) if c["kind"] in ("DD", "ZM", "SY", "GE", "GM")]
    mres = run_model(ctx, mexe, mlines) if mlines else {}
    post = []          # second round model queries that need the implementation's output
    gb_err = {}
    for i, (ci, c) in enumerate(runs):
        tag, payload = res[i]
        k = c["kind"]
        stats["by_kind"][k] = stats["by_kind"].get(k, 0) + 1
        if tag != "R":
            ctx.violation(c, "the implementation %s on this %s case: %s" % (
                "hangs" if tag == "TIMEOUT" else "aborts (memory error / assertion / crash)", k, payload))
            continue
        if payload and payload[0] == "BADCASE":
            continue
        try:
            verdict = check_one(ctx, c, payload, mres.get(i), post, i, gb_err, ci)
        except (ValueError, IndexError, TypeError, KeyError, ZeroDivisionError, OverflowError, StopIteration) as ex:
            verdict = ("violation", "output of the implementation cannot be parsed / is not a number: %r" % (ex,))
        if verdict:
            kind, why = verdict[0], verdict[1]
            if kind == "violation":
                ctx.violation(c, why, signature=(verdict[2] if len(verdict) > 2 else None))
            else:
                ctx.mismatch(c, why)
    # scale twins of whole runs: bit-identical embeddings expected
    at = {ci: i for i, (ci, c) in enumerate(runs)}
    for i, (ci, c) in enumerate(runs):
        if c.get("kind") == "API" and c.get("twin_of") is not None and c["twin_of"] in at:
            a, b = res[i], res[at[c["twin_of"]]]
            if a[0] == "R" and b[0] == "R" and a[1] and b[1] and a[1][0] == "OK" and b[1][0] == "OK":
                ya, yb = split_bar(a[1][3:])[0], split_bar(b[1][3:])[0]
                stats["twins"] = stats.get("twins", 0) + 1
                if ya != yb:
                    j = next((k for k in range(min(len(ya), len(yb))) if ya[k] != yb[k]), 0)
                    # not a verdict: the scaled run is checked against the spec on its own (centred, clusters, logged KL
                    # vs the prescribed P); a bitwise difference only says that something depends on the absolute scale
                    stats["twins_differ"] = stats.get("twins_differ", 0) + 1
                    ctx.note("t-SNE of the features multiplied by 2^%d (same seed) differs from the run on the original "
                             "features: coordinate %d is %r instead of %r (centring and the division by the largest entry are "
                             "exact under a power of two: something downstream depends on the absolute scale)" % (
                                 c.get("scale", 0), j, hx(ya[j]) if j < len(ya) else None, hx(yb[j]) if j < len(yb) else None))
    # Barnes-Hut convergence: per original case the three errors
    for ci, errs in gb_err.items():
        c = cases[ci]
        e5, e1, e0 = errs.get(0.5), errs.get(0.1), errs.get(1e-6)
        stats["gb_err"].append([e5, e1, e0])
        if e0 is not None and e0 > 1e-7:
            ctx.violation(dict(c, theta=fl(1e-6)), "Barnes-Hut gradient at theta = 1e-6 differs from the closed form "
                          "(edge forces - non-edge forces / sum_Q) by %.3g relative: no convergence as theta -> 0" % e0)
        elif e1 is not None and e1 > 0.02:
            ctx.violation(dict(c, theta=fl(0.1)), "Barnes-Hut gradient at theta = 0.1 is %.3g away (relative) from the "
                          "closed form; expected <= 0.02" % e1)
        elif e5 is not None and e5 > 0.25:
            ctx.violation(dict(c, theta=fl(0.5)), "Barnes-Hut gradient at theta = 0.5 is %.3g away (relative) from the "
                          "closed form; expected <= 0.25" % e5)
    # second round: extracted decision procedures on the implementation's outputs
    if post:
        pres = run_model(ctx, mexe, [(j, t.replace(" 0 ", " %d " % j, 1)) for j, (t, _, _) in enumerate(post)])
        for j, (_, handler, c) in enumerate(post):
            try:
                verdict = handler(pres[j])
            except (ValueError, IndexError, TypeError, KeyError, ZeroDivisionError, OverflowError) as ex:
                verdict = ("violation", "output of the implementation cannot be interpreted: %r" % (ex,))
            if verdict:
                kind, why = verdict[0], verdict[1]
                if kind == "violation":
                    ctx.violation(c, why, signature=(verdict[2] if len(verdict) > 2 else None))
                else:
                    ctx.mismatch(c, why)
    return len(runs) + len(post) + extra_evals


def int_scale(pts):
    """common denominator L so that L*coordinates are integers; squared distances scale by L^2."""
    L = 1
    for p in pts:
        for x in p:
            L = L * x.denominator // math.gcd(L, x.denominator)
    return L


def check_one(ctx, c, payload, mout, post, i, gb_err, ci):
    k = c["kind"]
    if k == "DD":
        X = unq(c["X"])
        N = len(X)
        got = [Fraction(v) for v in floats(payload)]
        if len(got) != N * N:
            return ("violation", "DD has %d entries, expected %d" % (len(got), N * N))
        parts = split_bar(mout)
        model = [parse_q(t) for t in parts[0]]
        spec = [parse_q(t) for t in parts[1]]
        for j in range(N * N):
            if got[j] != spec[j]:
                return ("violation", "computeSquaredEuclideanDistance: DD[%d,%d] = %s but |x_%d - x_%d|^2 = %s" % (
                    j // N, j % N, got[j], j // N, j % N, spec[j]))
        if got != model:
            return ("mismatch", "DD: model sqdist_fixed disagrees with the implementation")
        return None
    if k == "ZM":
        X = unq(c["X"])
        N, D = len(X), len(X[0])
        gotf = floats(payload)
        if len(gotf) != N * D or any(v is None or math.isnan(v) or math.isinf(v) for v in gotf):
            return ("violation", "zeroMean returned %d entries / non-finite values" % len(gotf))
        got = [Fraction(v) for v in gotf]
        model = [parse_q(t) for t in mout]
        pow2 = N & (N - 1) == 0
        scale = max([abs(x) for x in flat(X)] + [Fraction(1)])
        for d in range(D):
            s = sum(got[n * D + d] for n in range(N))
            if (pow2 and s != 0) or (not pow2 and abs(s) > Fraction(1, 10 ** 12) * scale * N):
                return ("violation", "zeroMean: coordinate %d sums to %s over the samples, not 0" % (d, float(s)))
        for j in range(N * D):
            if (pow2 and got[j] != model[j]) or (not pow2 and abs(got[j] - model[j]) > Fraction(1, 10 ** 12) * scale):
                return ("violation" if abs(got[j] - model[j]) > Fraction(1, 10 ** 9) * scale else "mismatch",
                        "zeroMean: entry (%d,%d) = %s, x - mean = %s" % (j // D, j % D, float(got[j]), float(model[j])))
        return None
    if k == "SY":
        N = c["N"]
        parts = split_bar(payload)
        if len(parts) != 3:
            return ("violation", "symmetrizeMatrix output malformed")
        row = [int(t) for t in parts[0]]
        col = [int(t) for t in parts[1]]
        val = [Fraction(v) for v in floats(parts[2])]
        wf = all(len(set(c["col"][c["row"][n]:c["row"][n + 1]])) == c["row"][n + 1] - c["row"][n] for n in range(N))
        if mout[0] != "OK":
            if wf:
                return ("mismatch", "symmetrize model reports %s on a well-formed input" % " ".join(mout))
            return None
        mparts = split_bar(mout[1:])
        mrow = [int(t) for t in mparts[0]]
        mcol = [int(t) for t in mparts[1]]
        mval = [parse_q(t) for t in mparts[2]]
        same = (row == mrow and col == mcol and val == mval)
        if wf:
            ok_shape = (len(row) == N + 1 and all(0 <= x < max(N, 1) or N == 0 for x in col)
                        and len(col) == len(val) and (not row or row[-1] == len(col))
                        and all(0 <= r <= len(col) for r in row))
            if not ok_shape:
                return ("violation", "symmetrizeMatrix returned a malformed CSR (row pointers %s, %d columns, %d values)"
                        % (row[:8], len(col), len(val)))
            line = "SS 0 %d %d %s %s %s %d %s %s %s" % (
                N, len(c["col"]), " ".join(map(str, c["row"])), " ".join(map(str, c["col"])), " ".join(c["val"]),
                len(col), " ".join(map(str, row)), " ".join(map(str, col)), " ".join(fr(v) for v in val))

            def handler(out, same=same):
                if out and out[0] == "false":
                    return ("violation", "symmetrizeMatrix output does not represent (P + P^T)/2 "
                                         "(extracted sym_spec_b is false): rows %s cols %s" % (row[:10], col[:12]))
                if not same:
                    return ("mismatch", "symmetrizeMatrix: model output differs from the implementation "
                                        "(same matrix, different layout)")
                return None
            post.append((line, handler, c))
            return None
        if not same:
            return ("mismatch", "symmetrizeMatrix (input with duplicate columns): model differs from implementation")
        return None
    if k == "VP":
        return check_vp(ctx, c, payload, post)
    if k == "PK":
        return check_pk(ctx, c, payload, post)
    if k == "PD":
        X = [[hx(x) for x in p] for p in c["X"]]
        N = len(X)
        perp = hx(c["perp"])
        P = floats(payload)
        if len(P) != N * N:
            return ("violation", "dense P has %d entries" % len(P))
        for n in range(N):
            dd = [sum((a - b) ** 2 for a, b in zip(X[n], X[m])) for m in range(N)]
            row = P[n * N:(n + 1) * N]
            # attainability of the target entropy in binary64 is decided by the transliterated loop: near-ties
            # at the nearest distance need a beta at which every kernel value underflows
            found, mrow, _ = perp_row_mirror(dd, n, perp)
            # P[n,n] = DBL_MIN / sum_P: negligible unless every kernel value is in the denormal range; a sample
            # counted as its own neighbour would get the LARGEST entry of its row (>= 1/N)
            # (data fed to this member function WITHOUT run()'s max-normalisation, i.e. the scaled copies: where the
            # nearest distances are nearly tied the kernel works at exp(-700) and `DD * P` itself underflows for tiny
            # DD, the search stalls and the row is what the last step left; run() never calls it that way: only rows
            # on which the transliterated search converges are judged there)
            if (found or not c.get("scale")) and not (row[n] is not None and 0 <= row[n] < min(1e-3, 0.1 / N)):
                return ("violation", "P[%d,%d] = %r: a sample must not be its own neighbour" % (n, n, row[n]))
            why = check_cond_row(row, dd, [m for m in range(N) if m != n], perp, feasible=found and row[n] < 1e-12,
                                 extra_mass=row[n],
                                 dscale=max(dd) + 2 * max(sum(a * a for a in p) for p in X))
            if why:
                return ("violation", "dense conditional similarities, row %d: %s" % (n, why))
            if found:
                for m in range(N):
                    if abs(mrow[m] - row[m]) > ROW_TOL:
                        return ("mismatch", "dense row %d entry %d: implementation %r, transliterated model %r" % (
                            n, m, row[m], mrow[m]))
            if n in c.get("model_rows", ()):
                XF = [[Fraction(v) for v in p] for p in X]
                post.append((pr_line(n, perp, [sqd(XF[n], XF[m]) for m in range(N)]), pr_handler("dense", n, row, None), c))
        return None
    if k == "GE":
        P, Y = unq(c["P"]), unq(c["Y"])
        N, D = len(Y), len(Y[0])
        got = floats(payload)
        if len(got) != N * D or any(v is None or math.isnan(v) or math.isinf(v) for v in got):
            return ("violation", "computeExactGradient returned %d entries / non-finite values" % len(got))
        parts = split_bar(mout)
        model = [float(parse_q(t)) for t in parts[0]]
        spec = [float(parse_q(t)) for t in parts[1]]
        scale = max([abs(v) for v in spec] + [1e-12])
        for j in range(N * D):
            if abs(got[j] - spec[j]) > 1e-9 * scale:
                return ("violation", "computeExactGradient: dC[%d,%d] = %.12g but the closed form "
                                     "sum_m (p_nm - q_nm) w_nm (y_n - y_m) = %.12g" % (j // D, j % D, got[j], spec[j]))
            if abs(got[j] - model[j]) > 1e-9 * scale:
                return ("mismatch", "exact gradient: model %.12g vs implementation %.12g" % (model[j], got[j]))
        # central finite differences of KL(P||Q): grad = 4 dC
        Pf = [[float(x) for x in r] for r in P]
        Yf = [[float(x) for x in r] for r in Y]
        h = 1e-5
        gs = max(4 * scale, 1e-9)
        for n in range(N):
            for d in range(D):
                Yp = [r[:] for r in Yf]
                Ym = [r[:] for r in Yf]
                Yp[n][d] += h
                Ym[n][d] -= h
                fd = (kl_dense(Pf, Yp) - kl_dense(Pf, Ym)) / (2 * h)
                if abs(fd - 4 * got[n * D + d]) > 1e-5 * gs + 1e-9:
                    return ("violation", "computeExactGradient: 4*dC[%d,%d] = %.10g but the central finite difference "
                                         "of KL(P||Q) is %.10g" % (n, d, 4 * got[n * D + d], fd))
        return None
    if k == "EE":
        P = [[hx(x) for x in r] for r in c["P"]]
        Y = [[hx(x) for x in r] for r in c["Y"]]
        N = len(Y)
        got = hx(payload[0])
        w = [[2.2250738585072014e-308 if a == b else 1.0 / (1.0 + sum((Y[a][d] - Y[b][d]) ** 2 for d in range(len(Y[0]))))
              for b in range(N)] for a in range(N)]
        Z = 2.2250738585072014e-308 + sum(w[a][b] for a in range(N) for b in range(N) if a != b)
        C = sum(P[a][b] * math.log((P[a][b] + 1e-9) / (w[a][b] / Z + 1e-9)) for a in range(N) for b in range(N))
        if got is None or not abs(got - C) <= 1e-9 * max(1.0, abs(C)):
            return ("violation", "evaluateError = %r but KL(P||Q) of this %d-dimensional map is %.12g" % (
                got, len(Y[0]), C))
        return None
    if k == "GB":
        N = c["N"]
        Y = [[hx(x) for x in p] for p in c["Y"]]
        val = [hx(v) for v in c["val"]]
        got = floats(payload)
        if len(got) != 2 * N or any(v is None or math.isnan(v) or math.isinf(v) for v in got):
            return ("violation", "computeGradient returned %d entries / non-finite values" % len(got))
        ref = closed_form_grad(N, c["row"], c["col"], val, Y)
        scale = max(abs(v) for r in ref for v in r) or 1e-300
        err = max(abs(got[n * 2 + d] - ref[n][d]) for n in range(N) for d in range(2)) / scale
        gb_err.setdefault(ci, {})[hx(c["theta"])] = err
        return None
    if k == "GM":
        N = c["N"]
        Y = [[float(Fraction(x)) for x in p] for p in c["Y"]]
        val = [float(Fraction(v)) for v in c["val"]]
        theta = float(Fraction(c["theta"]))
        got = floats(payload)
        if len(got) != 2 * N or any(v is None or math.isnan(v) or math.isinf(v) for v in got):
            return ("violation", "computeGradient returned %d entries / non-finite values" % len(got))
        distinct = len(set(tuple(p) for p in c["Y"])) == N
        ref = closed_form_grad(N, c["row"], c["col"], val, Y)
        # attraction and repulsion may cancel (exactly, for two points): errors are measured against the size of the
        # terms, not of their difference
        terms = 1e-300
        for a in range(N):
            for i2 in range(c["row"][a], c["row"][a + 1]):
                b = c["col"][i2]
                dist = sum((Y[a][d] - Y[b][d]) ** 2 for d in range(2))
                terms = max(terms, max(abs(val[i2] / (1.0 + dist) * (Y[a][d] - Y[b][d])) for d in range(2)))
        scale = max(max(abs(v) for r in ref for v in r), terms)
        if distinct and theta == 0.0:
            # theta = 0: nothing is summarised, the quadtree sums ARE the closed form (theta > 0 on a handful of points
            # is as coarse as one likes: left to the model comparison below and to the GB / TG streams)
            err = max(abs(got[n * 2 + d] - ref[n][d]) for n in range(N) for d in range(2)) / scale
            if err > 1e-9:
                return ("violation", "Barnes-Hut gradient at theta = %g on a %d-point dyadic map is %.3g away (relative) from "
                                     "the closed form edge forces - non-edge forces / sum_Q" % (theta, N, err))
        if not mout or mout[0] != "OK":
            return ("mismatch", "computeGradient model (bh_gradient on tsne_tree) reports %s" % " ".join(mout or ["nothing"]))
        model = [hx(t) for t in mout[1:]]
        if len(model) != 2 * N:
            return ("mismatch", "computeGradient model returns %d entries" % len(model))
        mscale = max([abs(v) for v in model] + [terms])
        for j in range(2 * N):
            if abs(got[j] - model[j]) > 1e-9 * mscale:
                return ("mismatch", "computeGradient (theta = %g, N = %d): dC[%d,%d] = %.12g, extracted model "
                                    "(Tsne_BH_Model.bh_gradient on c18's quadtree) %.12g" % (theta, N, j // 2, j % 2, got[j], model[j]))
        return None
    if k == "API":
        return check_api(ctx, c, payload)
    return None


def check_vp(ctx, c, payload, post):
    X = unq(c["X"])
    N, k = len(X), c["k"]
    L = int_scale(X) if X else 1
    sq = [[int(sqd(X[a], X[b]) * L * L) for b in range(N)] for a in range(N)]
    parts = split_bar(payload)
    if not parts or not parts[0] or parts[0][0] != "T":
        return ("violation", "VpTree dump malformed")
    tree = parts[0][1:]
    rows = parts[1:]
    if len(rows) != N:
        return ("violation", "VpTree::search: %d result rows for %d queries" % (len(rows), N))
    kk = min(k, N)
    res = []
    for q, r in enumerate(rows):
        pairs = []
        for t in r:
            a, b = t.split(":")
            pairs.append((int(a), hx(b)))
        res.append(pairs)
        idx = [a for a, _ in pairs]
        if len(idx) != kk or len(set(idx)) != len(idx) or any(not (0 <= a < N) for a in idx):
            return ("violation", "VpTree::search(query %d, k = %d) returned indices %s (expected %d distinct samples)"
                    % (q, k, idx[:12], kk))
        want = sorted(sq[q])[:kk]
        gotd = [sq[q][a] for a in idx]
        if sorted(gotd) != want:
            return ("violation", "VpTree::search(query %d, k = %d): squared distances %s (x %d), brute force %s" % (
                q, k, sorted(gotd)[:10], L * L, want[:10]))
        if gotd != sorted(gotd):
            return ("violation", "VpTree::search(query %d): results not nearest first" % q)
        for (a, dv) in pairs:
            # the reported number must be the distance to that sample in ONE convention for the whole
            # call (Euclidean, what the kernel row squares; a squared report is left to the PK stream)
            e = math.sqrt(sq[q][a]) / L
            if dv is None or (abs(dv - e) > 1e-9 * (1 + e) and abs(dv - e * e) > 1e-9 * (1 + e * e)):
                return ("violation", "VpTree::search(query %d): reported distance %r to %d is neither the Euclidean "
                                     "distance %r nor its square" % (q, dv, a, e))
    # integer-distance inputs: extracted invariant checkers + extracted search on the dumped tree
    isq = [[math.isqrt(v) for v in r] for r in sq]
    if all(isq[a][b] ** 2 == sq[a][b] for a in range(N) for b in range(N)) and N >= 1:
        toks = []
        it = iter(tree)
        ok = True
        for t in it:
            if t in ("(", ")", "-"):
                toks.append(t)
            else:
                toks.append(t)                       # item
                thr = hx(next(it))
                if thr is None or thr * L != int(thr * L):
                    ok = False
                    break
                toks.append(str(int(thr * L)))
        if ok:
            line = "VP 0 %d %d %s %s" % (N, k, " ".join(str(v) for r in isq for v in r), " ".join(toks))

            def handler(out, res=res, isq=isq):
                p = split_bar(out)
                head = p[0]
                if "inv=true" not in head:
                    return ("violation", "the dumped VP tree violates the build invariant (an item of a left subtree is "
                                         "farther from the vantage point than the threshold, or one on the right nearer)")
                if "holds=true" not in head:
                    return ("violation", "the dumped VP tree does not hold every sample exactly once")
                for q, r in enumerate(p[1:]):
                    if r == ["NONE"]:
                        continue
                    md = [int(t.split(":")[1]) for t in r]
                    gd = [isq[q][a] for a, _ in res[q]]
                    if md != gd:
                        return ("mismatch", "VpTree::search query %d: model distances %s, implementation %s" % (q, md, gd))
                return None
            post.append((line, handler, c))
    # no coincident samples: the query is first, the rest are the k-1 nearest others (extracted is_knn_b)
    if N >= 2 and kk >= 2 and all(sq[a][b] > 0 for a in range(N) for b in range(N) if a != b):
        for q in range(N):
            if res[q][0][0] != q:
                return ("violation", "VpTree::search(query %d): first result is %d, not the query itself" % (q, res[q][0][0]))
        line = "KN 0 %d %d %s %s" % (N, kk - 1, " ".join(str(v) for r in sq for v in r),
                                     " ".join("| " + " ".join(str(a) for a, _ in res[q][1:]) for q in range(N)))

        def handler2(out):
            if any(t != "t" for t in out):
                q = [j for j, t in enumerate(out) if t != "t"][0]
                return ("violation", "VpTree::search: results 1..k-1 of query %d are not its k-1 nearest other samples "
                                     "(extracted is_knn_b)" % q)
            return None
        post.append((line, handler2, c))
    return None


def check_pk(ctx, c, payload, post):
    X = unq(c["X"])
    N, K = len(X), c["K"]
    perp = hx(c["perp"])
    L = int_scale(X)
    sq = [[int(sqd(X[a], X[b]) * L * L) for b in range(N)] for a in range(N)]
    parts = split_bar(payload)
    if len(parts) != 3:
        return ("violation", "K-NN computeGaussianPerplexity output malformed")
    row = [int(t) for t in parts[0]]
    col = [int(t) for t in parts[1]]
    val = floats(parts[2])
    if row != [n * K for n in range(N + 1)] or len(col) != N * K or len(val) != N * K:
        return ("violation", "row_P is not n*K / arrays have the wrong length")
    if any(not (0 <= a < N) for a in col):
        return ("violation", "col_P holds an index outside 0..N-1")
    for n in range(N):
        cols = col[n * K:(n + 1) * K]
        vals = val[n * K:(n + 1) * K]
        dd = [sq[n][m] / float(L * L) for m in cols]
        # attainability of the target entropy (ties at the nearest distance: the row tends to uniform over them)
        # is decided by the transliterated loop
        found, mrow, _ = perp_row_mirror(dd, None, perp)
        # DBL_MIN guard: when every kernel value is in the denormal range the row sums to 1 - DBL_MIN/sum_P < 1
        clean = found and abs(sum(mrow) - 1.0) <= 1e-12
        why = check_cond_row(vals, dd, list(range(K)), perp, feasible=clean, dscale=max(dd) if dd else 0.0)
        if why:
            return ("violation", "Barnes-Hut conditional similarities, row %d (neighbours %s): %s" % (n, cols[:12], why))
        if found:
            for m in range(K):
                if abs(mrow[m] - vals[m]) > ROW_TOL:
                    return ("mismatch", "K-NN row %d entry %d: implementation %r, transliterated model %r" % (
                        n, m, vals[m], mrow[m]))
        if n in c.get("model_rows", ()):
            # the number the C++ feeds the kernel: distances[m] * distances[m] with distances[m] = sqrt(exact sum)
            ddm = []
            for m in cols:
                dv = math.sqrt(float(Fraction(sq[n][m], L * L)))
                ddm.append(Fraction(dv * dv))
            post.append((pr_line(None, perp, ddm), pr_handler("K-NN", n, vals, None), c))
    line = "KN 0 %d %d %s %s" % (N, K, " ".join(str(v) for r in sq for v in r),
                                 " ".join("| " + " ".join(str(a) for a in col[n * K:(n + 1) * K]) for n in range(N)))

    def handler(out):
        bad = [j for j, t in enumerate(out) if t != "t"]
        selfrows = [n for n in range(N) if n in col[n * K:(n + 1) * K]]
        if selfrows and all(b in selfrows for b in bad):
            q = selfrows[0]
            return ("violation", "Barnes-Hut mode: row %d of P lists sample %d itself among its %d neighbours %s "
                                 "(a coincident sample came first in the tree search and position 0 was dropped); "
                                 "%d of %d rows" % (q, q, K, col[q * K:(q + 1) * K][:10], len(selfrows), N),
                    "F44-tsne-bh-self-neighbour-coincident")
        if bad:
            q = bad[0]
            cols = col[q * K:(q + 1) * K]
            want = sorted(sq[q][m] for m in range(N) if m != q)[:K]
            return ("violation", "Barnes-Hut mode: row %d of P is computed over samples %s (squared distances %s x %d), "
                                 "not over the %d nearest others (squared distances %s); %d of %d rows wrong" % (
                                     q, cols[:10], sorted(sq[q][m] for m in cols)[:10], L * L, K, want[:10], len(bad), N))
        return None
    post.append((line, handler, c))
    return None


def check_api(ctx, c, payload):
    X = [[hx(x) for x in p] for p in c["X"]]
    N, d = len(X), c["d"]
    theta = hx(c["theta"])
    if payload[0] == "EXC":
        if theta > 0 and d != 2:
            return None          # documented: the Barnes-Hut approximation needs a two-dimensional map
        return ("violation", "t-SNE raised %s on a valid request (N=%d, d=%d, perplexity %s, theta %s)" % (
            payload[1], N, d, hx(c["perp"]), theta))
    if payload[0] != "OK":
        return ("violation", "t-SNE raised an undocumented exception: %s" % " ".join(payload[1:])[:200])
    rows, cols = int(payload[1]), int(payload[2])
    parts = split_bar(payload[3:])
    Y = floats(parts[0])
    logged = parts[1] if len(parts) > 1 else []
    if rows != N or cols != d or len(Y) != N * d:
        return ("violation", "t-SNE returned a %dx%d matrix for N=%d, d=%d" % (rows, cols, N, d))
    if any(v is None or math.isnan(v) or math.isinf(v) for v in Y):
        return ("violation", "t-SNE returned non-finite coordinates")
    Ym = [Y[n * d:(n + 1) * d] for n in range(N)]
    scale = max(abs(v) for v in Y) or 1.0
    for j in range(d):
        mean = sum(r[j] for r in Ym) / N
        if abs(mean) > 1e-9 * scale:
            return ("violation", "the returned map is not centred: mean of coordinate %d is %.3g (scale %.3g)" % (j, mean, scale))
    lab = c["labels"]
    if theta > 0.5:
        return None      # theta = 1 is a crude approximation: only shape / finite / centred are claimed
    if d < 2:
        # a one-dimensional map cannot untangle a random start: no purity clause
        return check_reported_kl(c, X, Ym, logged)
    bad = 0
    for a in range(N):
        best = min((sum((Ym[a][j] - Ym[b][j]) ** 2 for j in range(d)), b) for b in range(N) if b != a)[1]
        if lab[best] != lab[a]:
            bad += 1
    if bad > 0.1 * N:
        return ("violation", "well-separated input clusters are mixed in the map: %d of %d points have their nearest "
                             "map neighbour in another cluster" % (bad, N))
    return check_reported_kl(c, X, Ym, logged)


FLT_MIN = 1.1754943508222875e-38


def spec_joint(X, perp, theta):
    """the joint P the property prescribes, in binary64 along the library's own order of operations:
    centre, divide by the largest entry, conditional rows at the given perplexity (all others / the K nearest),
    symmetrise, normalise.  Returns a dict {(n, m): p} or None when a row's target entropy is unattainable or the
    K-th neighbour is tied (the set is then not unique)."""
    N, D = len(X), len(X[0])
    mean = [0.0] * D
    for p in X:
        for j in range(D):
            mean[j] += p[j]
    mean = [m / N for m in mean]
    Xc = [[p[j] - mean[j] for j in range(D)] for p in X]
    mx = max(v for p in Xc for v in p)
    if mx > 0:
        Xc = [[v / mx for v in p] for p in Xc]
    cond = {}
    for n in range(N):
        dd = [sum((a - b) ** 2 for a, b in zip(Xc[n], Xc[m])) for m in range(N)]
        if theta == 0.0:
            found, row, _ = perp_row_mirror(dd, n, perp)
            if not found:
                return None
            for m in range(N):
                cond[(n, m)] = row[m]
        else:
            K = int(3 * perp)
            order = sorted((m for m in range(N) if m != n), key=lambda m: dd[m])
            if K < len(order) and dd[order[K]] - dd[order[K - 1]] <= 1e-12 * (1 + dd[order[K]]):
                return None
            nb = order[:K]
            found, row, _ = perp_row_mirror([math.sqrt(dd[m]) ** 2 for m in nb], None, perp)
            if not found:
                return None
            for m, v in zip(nb, row):
                cond[(n, m)] = v
    joint = {}
    if theta == 0.0:
        for n in range(N):
            for m in range(N):
                joint[(n, m)] = cond[(n, n)] if n == m else cond[(n, m)] + cond[(m, n)]
    else:
        for (n, m) in cond:
            joint[(n, m)] = (cond[(n, m)] + cond.get((m, n), 0.0)) / 2.0
            joint[(m, n)] = joint[(n, m)]
    tot = sum(joint.values())
    return {k: v / tot for k, v in joint.items()}


def check_reported_kl(c, X, Ym, logged):
    """the KL divergence the library logs at its last iteration is KL(P || Q(map)) for ITS internal P and the map it
    returns: compare with the prescribed P (ties the symmetrisation / normalisation / exaggeration schedule inside
    run(), which no member function exposes)."""
    N, d = len(X), c["d"]
    theta, perp = hx(c["theta"]), hx(c["perp"])
    if len(logged) != 2 or len(set(tuple(p) for p in X)) < N:
        return None
    it, C = int(logged[0]), hx(logged[1])
    if it != 999:
        return ("mismatch", "the last logged error line is for iteration %d, expected 999" % it)
    P = spec_joint(X, perp, theta)
    if P is None or C is None:
        return None
    w = {}
    Z = 0.0
    for a in range(N):
        for b in range(N):
            if a != b:
                w[(a, b)] = 1.0 / (1.0 + sum((Ym[a][j] - Ym[b][j]) ** 2 for j in range(d)))
                Z += w[(a, b)]
    if theta == 0.0:
        Zg = DBL_MIN + Z
        Cs = 0.0
        for (a, b), pv in P.items():
            q = (DBL_MIN if a == b else w[(a, b)]) / Zg
            Cs += pv * math.log((pv + 1e-9) / (q + 1e-9))
        tol = 1e-6 * max(1.0, abs(Cs))
    else:
        Cs = sum(pv * math.log((pv + FLT_MIN) / (w[(a, b)] / Z + FLT_MIN)) for (a, b), pv in P.items() if a != b)
        tol = (1e-6 if theta <= 0.01 else 0.1 if theta <= 0.5 else 0.3) * max(1.0, abs(Cs))
    if not abs(C - Cs) <= tol:
        return ("violation", "the error t-SNE reports at its last iteration (%.9g) is not KL(P||Q) of the prescribed joint "
                             "similarities (perplexity %.6g, %s) and the returned map (%.9g): the P used by the optimisation "
                             "is not the calibrated, symmetrised, normalised one" % (
                                 C, perp, "all others" if theta == 0.0 else "%d nearest" % int(3 * perp), Cs))
    return None



# ----------------------------------------------------------------------------- OpenMP obligation (source level)
# The models of this slice (and C18's quadtree model under bh_gradient_limit) are SERIAL programs.  They speak
# about the real code only as long as the code they mirror contains no parallel region: QuadTree keeps a scratch
# member buff[2] per node that computeNonEdgeForces / computeEdgeForces write and then read, VpTree::search keeps
# _tau in the tree object, the perplexity loops share indices / distances / cur_P across rows.  C15's translator
# (translate/t_omp.py, coq/gen/Omp.v) owns the known regions of the library; none of them is in these files.
OMP_FILES = ["include/tapkee/external/barnes_hut_sne/tsne.hpp",
             "include/tapkee/external/barnes_hut_sne/quadtree.hpp",
             "include/tapkee/external/barnes_hut_sne/vptree.hpp",
             "include/tapkee/methods/tsne.hpp"]
PAR_RE = re.compile(r'^[ \t]*#[ \t]*pragma[ \t]+omp\b([^\n]*)'
                    r'|_Pragma\s*\(\s*"\s*omp\b([^"]*)"'
                    r'|\bstd\s*::\s*(?:thread|jthread|async)\b'
                    r'|\bstd\s*::\s*execution\s*::\s*par\w*', re.M)


def strip_cxx_comments(text):
    """comments -> blanks (same length, newlines kept); string / char literals are left alone."""
    out = []
    i, n = 0, len(text)
    while i < n:
        ch = text[i]
        if ch == '/' and i + 1 < n and text[i + 1] == '/':
            j = i
            while j < n and text[j] != '\n':
                # a line comment continues over a backslash-newline
                if text[j] == '\\' and j + 1 < n and text[j + 1] == '\n':
                    out.append(' \n')
                    j += 2
                    continue
                out.append(' ')
                j += 1
            i = j
        elif ch == '/' and i + 1 < n and text[i + 1] == '*':
            j = text.find('*/', i + 2)
            j = n if j < 0 else j + 2
            out.append(''.join('\n' if c == '\n' else ' ' for c in text[i:j]))
            i = j
        elif ch in '"\'':
            j = i + 1
            while j < n and text[j] != ch and text[j] != '\n':
                j += 2 if text[j] == '\\' else 1
            j = min(j + 1, n)
            out.append(text[i:j])
            i = j
        else:
            out.append(ch)
            i += 1
    return ''.join(out)


def scan_parallel(repo):
    """[(file, line, directive text, integers of its if(...) clause)] for every OpenMP directive / thread
    construct in the t-SNE headers (comments stripped, continuation lines joined)."""
    found = []
    files = list(OMP_FILES)
    try:        # any further header that appears beside the three
        bdir = os.path.join(repo, "include/tapkee/external/barnes_hut_sne")
        for f in sorted(os.listdir(bdir)):
            rel = "include/tapkee/external/barnes_hut_sne/" + f
            if rel not in files and f.endswith((".hpp", ".h", ".hxx", ".ipp")):
                files.append(rel)
    except OSError:
        pass
    for rel in files:
        try:
            orig = open(os.path.join(repo, rel), errors="replace").read()
        except OSError:
            continue                      # a missing header is a build error, reported by ctx.cpp
        txt = strip_cxx_comments(orig).replace("\\\n", "  ")
        for m in PAR_RE.finditer(txt):
            clause = m.group(1) or m.group(2) or ""
            nums = []
            for cond in re.findall(r'\bif\s*\(([^)]*)\)', clause):
                nums += [int(x) for x in re.findall(r'\d+', cond)]
            found.append((rel, txt.count("\n", 0, m.start()) + 1, " ".join(m.group(0).split())[:200], nums))
    return found


# ----------------------------------------------------------------------------- thread-count streams (TG, TP)
THREADS = [1, 8, 16]
DEV_TOL = 1e-9       # a reduction may reassociate a sum (rounding level, left free); anything above is a wrong value


def bh_threshold(theta):
    return 1e-7 if theta <= 1e-6 else 0.02 if theta <= 0.1 else 0.25


def gen_tg_case(rng, N, thetas=(0.5, 1e-6), threads=THREADS, reps=2, closed=True):
    """a map as it occurs mid-optimisation (a few blobs) + a sparse symmetric joint P that sums to one."""
    nb = rng.choice([3, 5])
    sd = rng.choice([1.5, 2.5])
    Y = [[12.0 * math.cos(1.3 * (i % nb)) + sd * rng.gauss(0, 1), 12.0 * math.sin(1.3 * (i % nb)) + sd * rng.gauss(0, 1)]
         for i in range(N)]
    offs = [1, 5, 10]
    w = {}
    for i in range(N):
        for o in offs:
            j = (i + o) % N
            if i != j:
                w[(min(i, j), max(i, j))] = 0.25 + rng.random()
    tot = 2 * sum(w.values())
    rows = [[] for _ in range(N)]
    for (a, b), v in sorted(w.items()):
        rows[a].append((b, v / tot))
        rows[b].append((a, v / tot))
    row_P, col_P, val_P = [0], [], []
    for r in rows:
        for cidx, v in r:
            col_P.append(cidx)
            val_P.append(fl(v))
        row_P.append(len(col_P))
    return {"kind": "TG", "N": N, "row": row_P, "col": col_P, "val": val_P, "Y": [[fl(x) for x in p] for p in Y],
            "thetas": [fl(t) for t in thetas], "threads": list(threads), "reps": reps, "closed": bool(closed)}


def gen_tp_case(rng, N, threads=THREADS, reps=1):
    pts = distinct_points(rng, N, 3, "dyadic")
    return {"kind": "TP", "X": qs(pts), "perp": fl(10.0), "K": 30, "threads": list(threads), "reps": reps,
            "rows_checked": 120, "pick": rng.randint(0, 10 ** 9)}


def closed_form_fast(N, row, col, val, Y):
    """closed_form_grad for a two-dimensional map, flat result (binary64)."""
    xs = [p[0] for p in Y]
    ys = [p[1] for p in Y]
    Z = 0.0
    negx, negy = [0.0] * N, [0.0] * N
    for a in range(N):
        xa, ya = xs[a], ys[a]
        nx = ny = 0.0
        za = 0.0
        for b in range(N):
            dx = xa - xs[b]
            dy = ya - ys[b]
            q = 1.0 / (1.0 + dx * dx + dy * dy)
            za += q
            q *= q
            nx += q * dx
            ny += q * dy
        Z += za - 1.0               # the term b == a is q = 1 with a zero force
        negx[a], negy[a] = nx, ny
    g = [0.0] * (2 * N)
    for a in range(N):
        px = py = 0.0
        for i in range(row[a], row[a + 1]):
            b = col[i]
            dx = xs[a] - xs[b]
            dy = ys[a] - ys[b]
            f = val[i] / (1.0 + dx * dx + dy * dy)
            px += f * dx
            py += f * dy
        g[2 * a] = px - negx[a] / Z
        g[2 * a + 1] = py - negy[a] / Z
    return g


def gb_line(cmd, i, c, theta):
    return "%s %d %d %s %d %s %s %s %s" % (cmd, i, c["N"], fl(theta), len(c["col"]), " ".join(map(str, c["row"])),
                                          " ".join(map(str, c["col"])), " ".join(c["val"]), " ".join(flat(c["Y"])))


def eval_tg(ctx, exe, c, stats):
    """computeGradient under several OpenMP thread counts against (1) the quadtree queried point by point through
    its public interface by the serial driver and (2) the O(N^2) closed form."""
    N = c["N"]
    thetas = [hx(t) for t in c["thetas"]]
    plan = []
    for th in thetas:
        plan.append(("S", th, 0, 0))
        for T in c["threads"]:
            for r in range(c["reps"]):
                plan.append(("B", th, T, r))
    lines = [(i, gb_line("GS" if p[0] == "S" else "GB@%d" % p[2], i, c, p[1])) for i, p in enumerate(plan)]
    res = run_impl(ctx, exe, lines, timeout=900)
    st = stats.setdefault("threads", {"tg_runs": 0, "tg_bit_identical": 0, "tg_max_dev": 0.0, "tp_runs": 0,
                                      "tp_bit_identical": 0, "serial_vs_closed_form": []})
    cf = None
    if c.get("closed", True) and N <= 1700:
        cf = closed_form_fast(N, c["row"], c["col"], [hx(v) for v in c["val"]], [[hx(x) for x in p] for p in c["Y"]])
    ref = {}
    reported = False

    def narrowed(th, T):
        return dict(c, thetas=[fl(th)], threads=[T], reps=max(3, c["reps"]))

    for i, p in enumerate(plan):
        tag, payload = res[i]
        kind, th, T, r = p
        what = "the serial quadtree driver" if kind == "S" else "computeGradient with %d OpenMP thread(s)" % T
        if tag != "R":
            if not reported:
                ctx.violation(narrowed(th, T or 1), "%s %s on a %d-point map at theta = %g: %s" % (
                    what, "hangs" if tag == "TIMEOUT" else "aborts", N, th, payload))
                reported = True
            continue
        g = floats(payload)
        if len(g) != 2 * N or any(v is None or math.isnan(v) or math.isinf(v) for v in g):
            if not reported:
                ctx.violation(narrowed(th, T or 1), "%s returned %d entries / non-finite values (N = %d, theta = %g)" % (
                    what, len(g), N, th))
                reported = True
            continue
        if kind == "S":
            ref[th] = g
            if cf is not None:
                scale = max(abs(v) for v in cf) or 1e-300
                err = max(abs(a - b) for a, b in zip(g, cf)) / scale
                st["serial_vs_closed_form"].append([th, err])
                if err > bh_threshold(th) and not reported:
                    ctx.violation(narrowed(th, 1), "Barnes-Hut gradient (quadtree queried point by point) of a %d-point map at "
                                  "theta = %g is %.3g away (relative) from the closed form edge forces - non-edge forces / "
                                  "sum_Q; expected <= %g" % (N, th, err, bh_threshold(th)))
                    reported = True
            continue
        st["tg_runs"] += 1
        rf = ref.get(th)
        if rf is None:
            continue
        if g == rf:
            st["tg_bit_identical"] += 1
            continue
        scale = max(abs(v) for v in rf) or 1e-300
        j = max(range(2 * N), key=lambda k: abs(g[k] - rf[k]))
        dev = abs(g[j] - rf[j]) / scale
        st["tg_max_dev"] = max(st["tg_max_dev"], dev)
        if dev > DEV_TOL:
            if not reported:
                extra = ""
                if cf is not None:
                    extra = "; closed form %.12g" % cf[j]
                ctx.violation(narrowed(th, T), "computeGradient (Barnes-Hut, theta = %g) on a %d-point map with %d OpenMP "
                              "thread(s): dC[%d,%d] = %.12g but the quadtree's own sums, taken point by point, give %.12g%s "
                              "(largest deviation %.3g relative; run %d of %d): the gradient depends on the thread count and "
                              "is not edge forces - non-edge forces / sum_Q" % (
                                  th, N, T, j // 2, j % 2, g[j], rf[j], extra, dev, r + 1, c["reps"]))
                reported = True
        else:
            ctx.note("TG: computeGradient with %d thread(s) differs from the serial quadtree sums at rounding level "
                     "(%.3g relative, N = %d, theta = %g): left free" % (T, dev, N, th))
    return len(plan)


def tp_rows(c, payload):
    """parse + structural spec of the K-NN CSR; returns (verdict, row, col, val)."""
    N, K = len(c["X"]), c["K"]
    parts = split_bar(payload)
    if len(parts) != 3:
        return ("violation", "K-NN computeGaussianPerplexity output malformed"), None, None, None
    row = [int(t) for t in parts[0]]
    col = [int(t) for t in parts[1]]
    val = floats(parts[2])
    if row != [n * K for n in range(N + 1)] or len(col) != N * K or len(val) != N * K:
        return ("violation", "row_P is not n*K / arrays have the wrong length"), None, None, None
    if any(not (0 <= a < N) for a in col):
        return ("violation", "col_P holds an index outside 0..N-1"), None, None, None
    if any(v is None or not (v >= 0.0) or math.isinf(v) for v in val):
        return ("violation", "val_P holds a negative / non-finite entry"), None, None, None
    return None, row, col, val


def tp_check_rows(c, col, val, rows):
    """full row spec (true neighbours by brute force on exact integers, sum, entropy, Gaussian shape) on `rows`."""
    X = unq(c["X"])
    N, K = len(X), c["K"]
    perp = hx(c["perp"])
    L = int_scale(X)
    XI = [[int(x * L) for x in p] for p in X]
    for n in rows:
        cols = col[n * K:(n + 1) * K]
        vals = val[n * K:(n + 1) * K]
        pn = XI[n]
        d2 = [sum((a - b) * (a - b) for a, b in zip(pn, XI[m])) for m in range(N)]
        if n in cols or len(set(cols)) != K:
            return ("violation", "Barnes-Hut mode: row %d of P lists %s (the sample itself / a repeated neighbour)" % (n, cols[:10]))
        want = sorted(d2[m] for m in range(N) if m != n)[:K]
        if sorted(d2[m] for m in cols) != want:
            return ("violation", "Barnes-Hut mode: row %d of P is computed over samples %s (squared distances %s x %d), not "
                                 "over the %d nearest others (squared distances %s)" % (
                                     n, cols[:10], sorted(d2[m] for m in cols)[:10], L * L, K, want[:10]))
        dd = [d2[m] / float(L * L) for m in cols]
        found, mrow, _ = perp_row_mirror(dd, None, perp)
        clean = found and abs(sum(mrow) - 1.0) <= 1e-12
        why = check_cond_row(vals, dd, list(range(K)), perp, feasible=clean, dscale=max(dd) if dd else 0.0)
        if why:
            return ("violation", "Barnes-Hut conditional similarities, row %d (neighbours %s): %s" % (n, cols[:12], why))
    return None


def sym_reference(N, row, col, val):
    P = {}
    for n in range(N):
        for i in range(row[n], row[n + 1]):
            P[(n, col[i])] = val[i]
    E = {}
    for (n, m), v in P.items():
        o = P.get((m, n))
        e = (v + o) / 2.0 if o is not None else v / 2.0
        E[(n, m)] = e
        E[(m, n)] = e
    return E


def sym_check(N, E, payload):
    parts = split_bar(payload)
    if len(parts) != 3:
        return "symmetrizeMatrix output malformed"
    row = [int(t) for t in parts[0]]
    col = [int(t) for t in parts[1]]
    val = floats(parts[2])
    if (len(row) != N + 1 or row[0] != 0 or any(row[i] > row[i + 1] for i in range(N)) or row[N] != len(col)
            or len(col) != len(val) or any(not (0 <= a < N) for a in col)):
        return "symmetrizeMatrix returned a malformed CSR (%d row pointers, %d columns, %d values)" % (len(row), len(col), len(val))
    G = {}
    for n in range(N):
        for i in range(row[n], row[n + 1]):
            if (n, col[i]) in G:
                return "symmetrizeMatrix: entry (%d,%d) stored twice" % (n, col[i])
            G[(n, col[i])] = val[i]
    if G != E:
        bad = [k for k in E if G.get(k) != E[k]] + [k for k in G if k not in E]
        k = min(bad)
        return "symmetrizeMatrix: entry (%d,%d) = %r but (P + P^T)/2 has %r there (%d entries differ, N = %d)" % (
            k[0], k[1], G.get(k), E.get(k), len(bad), N)
    return None


def eval_tp(ctx, exe, c, stats):
    """K-NN computeGaussianPerplexity and symmetrizeMatrix on a larger sample set under several thread counts."""
    X = c["X"]
    N, K = len(X), c["K"]
    st = stats.setdefault("threads", {"tg_runs": 0, "tg_bit_identical": 0, "tg_max_dev": 0.0, "tp_runs": 0,
                                      "tp_bit_identical": 0, "serial_vs_closed_form": []})
    plan = [(T, r) for T in c["threads"] for r in range(c["reps"])]
    body = "%d %d %s %d %s" % (N, len(X[0]), c["perp"], K, " ".join(fl(Fraction(x)) for x in flat(X)))
    res = run_impl(ctx, exe, [(i, "PK@%d %d %s" % (T, i, body)) for i, (T, r) in enumerate(plan)], timeout=900)
    import random as _random
    pick = _random.Random(c.get("pick", 0))
    rows = sorted(pick.sample(range(N), min(N, c.get("rows_checked", 120))))
    base = None
    count = len(plan)
    for i, (T, r) in enumerate(plan):
        tag, payload = res[i]
        one = dict(c, threads=[T], reps=max(2, c["reps"]))
        if tag != "R":
            ctx.violation(one, "K-NN computeGaussianPerplexity with %d OpenMP thread(s) %s on %d samples: %s" % (
                T, "hangs" if tag == "TIMEOUT" else "aborts", N, payload))
            return count
        st["tp_runs"] += 1
        if base is not None and payload == base[0]:
            st["tp_bit_identical"] += 1
            continue
        verdict, row, col, val = tp_rows(c, payload)
        if not verdict:
            chk = rows
            if base is not None:
                # rows that differ from the first run come first
                diff = [n for n in range(N) if col[n * K:(n + 1) * K] != base[2][n * K:(n + 1) * K]
                        or val[n * K:(n + 1) * K] != base[3][n * K:(n + 1) * K]]
                chk = diff[:40] + rows
            verdict = tp_check_rows(c, col, val, chk)
        if verdict:
            ctx.violation(one, "%s [%d samples, K = %d, %d OpenMP thread(s)]" % (verdict[1], N, K, T))
            return count
        if base is None:
            base = (payload, row, col, val)
        else:
            ctx.note("TP: K-NN similarities with %d thread(s) differ from the first run but meet the row spec" % T)
    if base is None:
        return count
    # symmetrizeMatrix on the real K-NN layout
    _, row, col, val = base
    E = sym_reference(N, row, col, val)
    sbody = "%d %d %s %s %s" % (N, len(col), " ".join(map(str, row)), " ".join(map(str, col)), " ".join(fl(v) for v in val))
    res = run_impl(ctx, exe, [(i, "SY@%d %d %s" % (T, i, sbody)) for i, (T, r) in enumerate(plan)], timeout=900)
    count += len(plan)
    sbase = None
    for i, (T, r) in enumerate(plan):
        tag, payload = res[i]
        one = dict(c, threads=[T], reps=max(2, c["reps"]))
        if tag != "R":
            ctx.violation(one, "symmetrizeMatrix with %d OpenMP thread(s) %s on the K-NN similarities of %d samples: %s" % (
                T, "hangs" if tag == "TIMEOUT" else "aborts", N, payload))
            return count
        st["tp_runs"] += 1
        if sbase is not None and payload == sbase:
            st["tp_bit_identical"] += 1
            continue
        why = sym_check(N, E, payload)
        if why:
            ctx.violation(one, "%s [input: the K-NN similarities of these %d samples, K = %d; %d OpenMP thread(s)]" % (
                why, N, K, T))
            return count
        if sbase is None:
            sbase = payload
        else:
            ctx.note("TP: symmetrizeMatrix with %d thread(s): another layout of the same matrix" % T)
    return count


def thread_search(ctx, exe, rng, found, stats):
    """an OpenMP directive appeared in the t-SNE headers: look for a thread count / size at which a result changes."""
    nums = sorted({v for f in found for v in f[3] if 2 <= v <= 20000})
    Ns = []
    for v in nums[:3]:
        Ns += [v - 1, v, v + 1, min(2 * v, 24000)]
    Ns += [300, 1500, 3000]
    Ns = sorted({n for n in Ns if n >= 40})[:12]
    n = 0
    found_cases = []
    for N in Ns:
        if N <= 4000:
            found_cases.append(gen_tg_case(rng, N, threads=[1, 2, 8, 16], reps=3, closed=(N <= 1200)))
        else:       # megabytes per line: fewer runs
            found_cases.append(gen_tg_case(rng, N, thetas=(0.5,), threads=[1, 8], reps=2, closed=False))
    for N in [m for m in Ns if m <= 2000][-3:]:
        found_cases.append(gen_tp_case(rng, max(N, 100), threads=[1, 2, 8, 16], reps=2))
    for c in found_cases:
        if ctx.has_violation():
            break
        n += eval_cases(ctx, exe, None, [c], stats)
    return n, Ns


# ----------------------------------------------------------------------------- entry points
def nontrivial(c):
    k = c["kind"]
    if k in ("DD", "ZM", "VP", "PK", "PD"):
        return len(c["X"]) >= 3
    if k == "SY":
        return len(c["col"]) >= 3
    if k in ("GE", "EE", "GM"):
        return len(c["Y"]) >= 3
    return True


def omp_obligation(ctx):
    found = scan_parallel(ctx.repo)
    if found:
        ctx.unshown("the t-SNE headers now contain a parallel construct (%s): the serial models of this slice and "
                    "bh_gradient_limit (C18's quadtree model: per-node scratch buff[2], one running sum_Q) no longer "
                    "speak about this code" % "; ".join("%s:%d `%s`" % (f[0].split("/")[-1] if "methods" not in f[0]
                                                                          else "methods/tsne.hpp", f[1], f[2]) for f in found[:4]))
    return found


def run(ctx):
    rng = ctx.rng
    ctx.coq()
    exe = ctx.cpp("harness/c17.cpp")
    mexe = ctx.extract()
    stats = {"by_kind": {}, "gb_err": []}
    cases = []
    hist = {"corpus": 0}
    for name, c in ctx.corpus():
        cases.append(c)
        hist["corpus"] += 1
    gen, h = gen_cases(ctx, rng, 3 if ctx.quick else 24)
    cases += gen
    hist.update(h)
    api = gen_api_cases(ctx, rng, ctx.quick)
    hist["API"] = len(api)
    # larger inputs under several OpenMP thread counts (count-driven)
    par = omp_obligation(ctx)
    tcases = [gen_tg_case(rng, rng.randint(1200, 1500)), gen_tp_case(rng, rng.randint(1100, 1300))]
    if not ctx.quick:
        tcases += [gen_tg_case(rng, rng.randint(2500, 4000), reps=3, closed=False), gen_tg_case(rng, 999),
                   gen_tg_case(rng, 1000), gen_tp_case(rng, rng.randint(2000, 2500))]
    hist["TG"] = sum(1 for c in tcases if c["kind"] == "TG")
    hist["TP"] = sum(1 for c in tcases if c["kind"] == "TP")
    n = eval_cases(ctx, exe, mexe, cases, stats)
    n += eval_cases(ctx, exe, mexe, api, stats)
    n += eval_cases(ctx, exe, mexe, tcases, stats)
    cases += tcases
    if par and not ctx.has_violation():
        m, Ns = thread_search(ctx, exe, rng, par, stats)
        n += m
        hist["search/threads_N"] = len(Ns)
    if ctx.is_unshown():
        # search phase: a proof or a tie no longer checks -> larger budget against the spec
        more, h2 = gen_cases(ctx, rng, 12 if ctx.quick else 40)
        for kk, v in h2.items():
            hist["search/" + kk] = v
        n += eval_cases(ctx, exe, mexe, more, stats, spec_only=True)
        cases += more
    distinct = set()
    for c in cases + api:
        if nontrivial(c):
            distinct.add(hashlib.sha1(json.dumps(c, sort_keys=True).encode()).hexdigest())
    errs = [e for e in stats["gb_err"] if None not in e]
    ctx.finish(
        evaluations=n, distinct_nontrivial=len(distinct),
        rule="wave 2: + GM (computeGradient vs extracted bh_gradient, 1e-9 of the term size), PR (rows vs extracted perplexity search: "
             "2e-4 verdict, deviations above 1e-9 counted), "
             "scaled copies 2^-60..2^60 of the feature data in DD/ZM/PK/PD (same exact / spec checks) and of whole runs (spec "
             "checks; bit-identical embedding expected and counted, not a verdict), TG/TP (N ~ 1200-1500 under 1/8/16 OpenMP threads: computeGradient vs the quadtree's public "
             "interface point by point, bit-identical expected, > 1e-9 relative is a violation; K-NN similarities and "
             "symmetrizeMatrix: bit-identical expected, a differing row/entry is checked against the spec); "
             "cases from corpus + count-driven generators (per tier) for ten harness entry points; exact streams on "
             "dyadic inputs (DD, ZM, SY, VP with integer distances, PK neighbour sets), tolerance streams (PD/PK row "
             "values 2e-4 vs transliterated loop, entropy 1e-4, GE 1e-9 vs extracted closed form and 1e-5 vs finite "
             "differences of KL, GB thresholds 0.25/0.02/1e-7 for theta 0.5/0.1/1e-6 (round 5: also on tall and wide filament maps, aspect 1e2..1e9, centred and offset), EE 1e-9, API: centred 1e-9, "
             "nearest-map-neighbour purity >= 90%); non-trivial = at least 3 samples / 3 stored entries; distinct by "
             "hash of the case; evaluations = harness calls + extracted decision-procedure calls on outputs",
        samples=[{kk: (v if not isinstance(v, list) else v[:4]) for kk, v in c.items()} for c in cases[:2] + cases[60:62] + api[:1]],
        histogram={"generators": hist, "harness_calls": stats["by_kind"],
                   "bh_rel_err_theta_0.5_0.1_1e-6_max": [max(e[j] for e in errs) for j in range(3)] if errs else None},
        trusted_base=TRUSTED,
        assumptions=["perplexity in (1, (N-1)/3], theta in [0,1], finite feature values",
                     "exact streams: dyadic coordinates (binary64 arithmetic exact), N a power of two where a mean is taken",
                     "entropy clause checked only on rows where the target is attainable in binary64 (the transliterated "
                     "bisection reaches |H - log perplexity| < 1e-5 within 200 steps; (near-)ties at the nearest distance do not)",
                     "no coincident samples in the neighbour-set streams (see bh_row_coincident_refuted)",
                     "no parallel construct in the t-SNE headers (scanned on every run: %s)" % (
                         "none found" if not par else "; ".join("%s:%d %s" % (f[0], f[1], f[2]) for f in par))],
        extra={"traces_validated_against_impl": n, "thread_streams": stats.get("threads"),
               "scale_twins_compared": stats.get("twins", 0), "scale_twins_differ": stats.get("twins_differ", 0),
               "entropy_monotone_in_beta_observed": dict(MONO), "extracted_perplexity_rows": dict(PRSTAT)})


def replay(ctx, case):
    exe = ctx.cpp("harness/c17.cpp")
    mexe = ctx.extract()
    stats = {"by_kind": {}, "gb_err": []}
    eval_cases(ctx, exe, mexe, [case], stats)
    for c, why in ctx._violations[:3]:
        print("  " + str(why)[:600])
    for c, d in ctx._mismatches[:3]:
        print("  mismatch: " + str(d)[:600])
    if ctx.has_violation() or ctx.is_unshown():
        print("replay: property C17 FAILS on this case")
        return 1
    print("replay: property C17 holds on this case")
    return 0
