"""C15 — OpenMP regions are race-free; results do not depend on the thread count.

proof  : coq/Par_Model.v (iteration bodies = trees of Rd/Wr/Crit actions over shared and per-thread
         private locations; schedules = all interleavings of all assignments), Par_Spec.v, Par_Proof.v
         (frame lemma, private_reinit, bernstein, bernstein_sequential, proj_perm), Par_Region_Model.v /
         Par_Region_Proof.v (descriptor language, sound checker, region_bernstein, triplets_perm, HLLE
         column cover), Par_Region_Gen.v (obligations on the generated table), Properties_C15.v.
tie    : translator T-omp (translate/t_omp.py) regenerates the region descriptors from the CURRENT
         source on every run; if they differ from the committed coq/gen/Omp.v the regenerated table is
         compiled together with the obligations in the build directory.  Confirmation runs: every
         region is executed (harness/c15.cpp, ASan/UBSan build, `omp for nowait` turned into
         `schedule(runtime)` by a -D on the command line) under thread counts {1,2,3,8,16} x
         {static, static/1, dynamic/1, guided}; dense results must be bit-identical, sparse weight
         matrices equal to 1e-10 of the matrix scale.
search : when an obligation fails, `find_conflict` (vm_compute) names two iterations and an entry both
         touch; the HLLE column model is evaluated for d = 1..6; the failing configuration is run on the
         implementation (repetitions, and a clang/libomp ThreadSanitizer+Archer build) to confirm.
         A region in code the region table does not know (no region-level driver): the `if (...)` clause and the
         loop bound give problem sizes on both sides of every threshold; the public-API methods whose headers
         include the region's file are run through tapkee::embed (harness/c15_embed.cpp, fixed random stream)
         under 1, 2, 8 and 16 threads; a difference from the 1-thread run is the replay.
team   : (wave 3) WHO runs the iterations: the translator also emits, for every region and every worksharing construct, a
         distribution descriptor (Par_Team_Model.dist: `omp for` inside / outside an `omp parallel` of the same function; a
         hand-made cyclic schedule with the source of its first iteration and stride); obligation gen_dists_ok: all accepted
         (c15_dist_ok_valid: a valid assignment for every team size 1..max).  Confirmation runs in four more execution
         contexts: the routine called from INSIDE a `#pragma omp parallel num_threads(3)` region of the harness (each outer
         thread on its own data set; nested parallelism off and on), omp_set_dynamic(1) with more threads than processors,
         and a second invocation under OMP_THREAD_LIMIT=2 OMP_NUM_THREADS=4; every result must be the serial one.
sizes  : (wave 4) a rejected region WITH a region-level driver whose small witness cases show nothing: the translator lists the
         numeric constants of the enclosing function that can act as size thresholds (integer literals, 1 << 22, reserve caps);
         for each, problem sizes on BOTH sides of it are chosen for the flagged routine itself (weight-matrix regions: k*k*N,
         k*N or N across the constant with window neighbourhoods, N up to 60000; dense regions: N, N*N, landmarks) and run
         (a) under the clang/libomp ThreadSanitizer+Archer build WITHOUT ignore_noninstrumented_modules (reports are kept only
         when both stacks are in tapkee code), (b) under ASan with 16 / 8 threads against the single-threaded result, one
         evaluation of the callback being slow once (an iteration in flight for a long time).  The translator also NAMES the
         pattern "write through an iterator / pointer into a shared container obtained under the lock, used after it, while
         other iterations resize the container" (access kind AEscape, never accepted: check_shared_no_escape;
         Par_Claim_Model / Par_Claim_Proof: safe iff the capacity was reserved in full).
always : besides the generated cases, five-combination runs of large cases (triangulate with 3000 landmarks,
         Barnes-Hut and exact t-SNE — a sentinel region: no OpenMP there on the pinned tree); thorough tier:
         tapkee::embed of 8 methods + t-SNE (N = 1200) + Landmark MDS with 3036 landmarks + Landmark Isomap.
"""
import hashlib
import json
import os
import re
import shutil
import subprocess
import sys

import vlib

PROPERTY = "C15"

sys.path.insert(0, os.path.join(vlib.VERIF, "translate"))
import t_omp  # noqa: E402
import t_omp_ast  # noqa: E402

TRUSTED = [
    "translator translate/t_omp.py (source-level parser, not a C++ front end): trusted to report the accesses "
    "of the loop bodies; unknown constructs become AOpaque (rejected); self-test mutates the source; cross-checked on "
    "every run against clang's JSON AST (translate/t_omp_ast.py: regions per function, thread-private variables, "
    "stores to shared variables with their index forms, critical sections, induction variables)",
    "meaning of the recognised C++ forms: Eigen operator()(i,j) touches exactly entry (i,j), row(e)/col(e) that "
    "row/column; the const-method table; callbacks (distance/kernel) are reentrant and do not write shared state",
    "the tree model of a loop body is not derived from the C++ text: the theorem covers EVERY body whose shared "
    "accesses stay inside the extracted footprint and which re-initialises its private scratch",
    "private state at descriptor level is the translator's syntactic classification (PConst/PInit/PRestored); in the "
    "model PInit = written before read (reinit), PConst/PRestored = canonical between iterations (bernstein_restore); "
    "coverage proved for the symmetric gram fill, the HLLE columns and the triangulate scratch vector only",
    "isomap's geodesic stage: the loop body is modelled as a program (Par_Iso_Model.iso_body) built on C04's step "
    "functions and proved schedule-independent and equal to C04's shortest-path matrix (c15_iso_*_all_schedules); "
    "one pass of the while loop reads / writes a SUPERSET of what the C++ pass touches (whole row k, s[], f[], heap, "
    "neighbour table); the heap is C04's abstract bag (its tie to fibonacci_heap / priority_queue, and clear() == "
    "freshly constructed, are C16 / C04); the shape obligation c15_gen_iso_shapes ties the generated descriptors to it",
    "search phase for regions outside the region table: the map header -> public methods is computed from the "
    "#include closure of include/tapkee/methods/*.hpp; sizes come from the region's `if (...)` clause; the oracle is "
    "bitwise / tolerance comparison with the 1-thread run under a fixed random stream (std::srand + hook H1); t-SNE is "
    "stopped after 51 iterations by an exception thrown from the harness' logger (TSNE::run has a constant 1000)",
    "wave 3: an `omp for` lexically inside an `omp parallel` of the same function is executed exactly once per iteration "
    "by the team that runs the region, whatever its size (OpenMP's guarantee, the hypothesis env_ok/e_sched of "
    "c15_dist_ok_valid); for hand-made schedules the assignment is COMPUTED from the descriptor (cyclic_asg) — the "
    "translator's reading of where `first` and `step` come from (omp_get_thread_num / omp_get_num_threads inside the "
    "region, omp_get_max_threads, a value read before the region) is a source-level pattern match, cross-checked with clang's AST",
    "execution contexts exercised: top level; inside an outer parallel region of 3 threads (nested off / on); dynamic "
    "adjustment; OMP_THREAD_LIMIT=2; the model quantifies over every team size 1..omp_get_max_threads()",
    "wave 4: the translator's reading of iterators / pointers into shared containers is a source pattern (a local assigned "
    "from SHARED.begin()/end()/data()/&SHARED[e] or from another such alias; writes `*it = `, `*it++ = `, `it[e] = `, `it->m = `, "
    "the alias as output position of a standard algorithm; a non-const reference / pointer bound to `c ? a : b`): every such write "
    "is AEscape / AOpaque (rejected); Par_Claim_Model is an abstract machine (buffer generations, handles) of the claim-then-fill "
    "pattern written by hand, not derived from the C++; libstdc++'s growth rule is mirrored but nothing depends on it",
    "wave 4 search phase: numeric constants of the flagged function are read from the source text (integer / hex / 1eN literals, "
    "shifts of one) and taken as candidate size thresholds for the natural size measures of the region (k*k*N, k*N, N; N, N*N, "
    "landmarks); big weight-matrix cases use window neighbourhoods (i+1..i+k mod N) instead of exact k-NN, compare a signature of "
    "the sparse result (total nnz; per column nnz, sum, weighted sum) and make ONE callback evaluation slow (it waits until no "
    "other thread has called the callback for 100 ms); ThreadSanitizer reports are kept only when both stacks reach tapkee code "
    "before any OpenMP-runtime frame",
    "OpenMP runtime: a critical section is atomic, the end of the parallel region is a barrier; data-race-free "
    "programs are sequentially consistent (C++/OpenMP memory model)",
    "Eigen's own threading is not modelled (results of Eigen kernels inside one iteration are taken as values)",
    "harness/c15.cpp and its built-in comparison; -D'nowait=schedule(runtime) nowait' changes only the schedule "
    "kind of the work-shared loops; g++ ASan/UBSan as memory-safety observer; clang TSan+Archer as supporting evidence",
]

DENSE = ("iso", "isol", "mds", "mdsl", "diff", "tri", "cli")
SPARSE = ("klle", "kltsa", "hlle")
ITER = ("tsne",)      # sentinel: t-SNE has no OpenMP region on the pinned tree; 51 iterations of TSNE::run
TOL_ITER = 1e-7       # relative to the largest entry of the map: a race-free `reduction(+: sum_Q)` (mutant h5) moves the
                      # map by up to 5e-10 relative after 51 iterations; the race of seeded/C17_1_r2 by 6e-3
REGION_OF_FUNC = {   # descriptor name fragment -> harness region(s)
    "compute_shortest_distances_matrix#1": ["iso"], "compute_shortest_distances_matrix#2": ["isol"],
    "compute_distance_matrix#1": ["mdsl"], "compute_distance_matrix#2": ["mds"],
    "compute_diffusion_matrix#1": ["diff"], "tangent_weight_matrix#1": ["kltsa"],
    "linear_weight_matrix#1": ["klle"], "hessian_weight_matrix#1": ["hlle"],
    "triangulate#1": ["tri"], "matrix_from_callback#1": ["cli"],
}
# threads:schedule kind:chunk[:context]   context 1 = called from inside an outer parallel region of 3 threads, nested
# off; 2 = the same, nested on; 3 = omp_set_dynamic(1)   (harness/c15.cpp)
CONTEXT_COMBOS = ["4:1:0:1", "3:2:1:1", "4:1:0:2", "2:2:1:2", "32:1:0:3", "16:2:1:3"]
CONTEXT_NAMES = {0: "top level", 1: "called from inside an outer `omp parallel num_threads(3)` region, nested parallelism off",
                 2: "called from inside an outer `omp parallel num_threads(3)` region, nested parallelism on",
                 3: "omp_set_dynamic(1)"}
COMBOS_QUICK = ["1:1:0", "2:1:0", "2:2:1", "3:1:0", "3:2:1", "3:1:1", "8:1:0", "8:2:1", "8:3:0", "16:1:0", "16:2:1"] + CONTEXT_COMBOS
COMBOS_THOROUGH = COMBOS_QUICK + ["2:3:0", "3:3:0", "5:2:2", "8:1:1", "16:3:0", "16:1:1", "7:2:3"] + \
    ["%d:2:1" % t for t in (4, 6, 9, 10, 11, 12, 13, 14, 15)] + ["8:1:0:1", "8:2:1:2", "3:3:0:2", "64:2:1:3"]      # every thread count 1..16 appears
# second invocation: the process starts with a thread limit below the thread count it asks for (t = 0: the environment's)
LIMIT_ENV = {"OMP_THREAD_LIMIT": "2", "OMP_NUM_THREADS": "4"}
LIMIT_COMBOS = ["1:1:0", "0:1:0", "8:2:1", "4:1:1", "4:1:0:1", "4:1:0:2", "16:1:0:3"]
TOL = 1e-10
LARGE_COMBOS = ["1:1:0", "2:1:0", "8:1:0", "16:1:0", "8:2:1"]
LARGE_TRI = (3300, 10, 2, 3000)     # (N, k, d, landmarks): bit-packed / word-sharing races need thousands of landmarks


# ----------------------------------------------------------------------------- translator + Coq
def regenerate(ctx):
    """returns (translation dict | None, coq text | None, error string | None)"""
    try:
        tr = t_omp.translate(ctx.repo)
        return tr, t_omp.to_coq(tr), None
    except t_omp.TranslateError as ex:
        return None, None, "translator T-omp cannot read the source: %s" % ex
    except Exception as ex:     # a mutated source may break the parser in unforeseen ways
        return None, None, "translator T-omp failed on the source: %r" % ex


def coqc_build(ctx, gdir, name, timeout=600):
    p = subprocess.run(["coqc", "-Q", vlib.COQ, "TK", "-Q", gdir, "CUR", "-w", "-all", name], cwd=gdir,
                       capture_output=True, text=True, timeout=timeout)
    return p.returncode == 0, p.stdout, p.stderr


GEN_OBLIGATIONS = """From Coq Require Import ZArith List String Bool.
Import ListNotations.
From TK Require Import Par_Model Par_Spec Par_Region_Model Par_Region_Proof Par_Fill_Model Par_Row_Model
  Par_Weight_Model.
From CUR Require Import OmpCur.
Local Open Scope string_scope.
Definition is_sym_region (r : region) : bool :=
  contains "compute_distance_matrix" (r_name r) || contains "compute_diffusion_matrix" (r_name r) ||
  contains "matrix_from_callback" (r_name r).
Lemma gen_sym_shapes :
  Forall (fun r => same_shapes (r_shared r) (sym_accs "") = true)
         (filter is_sym_region regions).
Proof. vm_compute. repeat constructor. Qed.
Lemma gen_regions_ok : forallb check_region regions = true.
Proof. vm_compute. reflexivity. Qed.
Lemma gen_row_shape :
  Forall (fun r => same_shapes (r_shared r) (row_accs "") = true /\\
                   existsb (fun p => match p_class p with PInit => true | _ => false end) (r_private r) = true)
         (filter (fun r => contains "triangulate" (r_name r)) regions).
Proof. vm_compute. repeat constructor. Qed.
Lemma gen_weight_shapes :
  Forall (fun r => same_shapes (r_shared r) (crit_accs "") = true)
         (filter (fun r => contains "_weight_matrix" (r_name r)) regions).
Proof. vm_compute. repeat constructor. Qed.
Lemma gen_hlle_is_expected :
  gen_hlle_found = true /\\ hlin gen_hlle_step = hlin hlle_step_expected /\\
  hlin gen_hlle_col = hlin hlle_col_expected.
Proof. repeat split; vm_compute; reflexivity. Qed.
Lemma gen_hlle_cover : forall d, hlle_cols_ok gen_hlle_step gen_hlle_col d = true.
Proof. destruct gen_hlle_is_expected as (_ & Hs & Hc). exact (hlle_cols_cover_lin _ _ Hs Hc). Qed.
From TK Require Import Par_Iso_Model.
Definition is_iso_region (r : region) : bool := contains "compute_shortest_distances_matrix" (r_name r).
Lemma gen_iso_shapes :
  Forall (fun r => iso_shape r = true) (filter is_iso_region regions) /\\
  List.length (filter is_iso_region regions) = 4%nat.
Proof. split; [vm_compute; repeat constructor|vm_compute; reflexivity]. Qed.
From TK Require Import Par_Team_Model.
Lemma gen_dists_ok : forallb (fun p => dist_ok (snd p)) dists = true /\\ map fst dists = map r_name regions.
Proof. split; vm_compute; reflexivity. Qed.
"""


def check_current_table(ctx, tr, text):
    """compile the regenerated table + obligations in the build dir.  Returns (ok, details dict)."""
    gdir = os.path.join(ctx.build, "gen")
    shutil.rmtree(gdir, ignore_errors=True)
    os.makedirs(gdir)
    open(os.path.join(gdir, "OmpCur.v"), "w").write(text)
    open(os.path.join(gdir, "GenCur.v"), "w").write(GEN_OBLIGATIONS)
    n = len(tr["regions"])
    srch = ["From Coq Require Import ZArith List String Bool.", "Import ListNotations.",
            "From TK Require Import Par_Region_Model Par_Team_Model.", "From CUR Require Import OmpCur.",
            "Local Open Scope Z_scope."]
    for i in range(n):
        srch.append("Eval vm_compute in (check_shared (r_shared region_%d))." % i)
        srch.append("Eval vm_compute in (find_conflict region_%d)." % i)
        srch.append("Eval vm_compute in (map p_name (filter (fun p => negb (pvar_ok p) || "
                    "negb (pclass_ok (classify (p_events p)))) (r_private region_%d)))." % i)
    srch.append("Eval vm_compute in (map (fun p => dist_ok (snd p)) dists).")
    srch.append("Eval vm_compute in gen_hlle_found.")
    srch.append("Eval vm_compute in (map (fun d => hlle_cols_ok gen_hlle_step gen_hlle_col d) (seq 1 6)).")
    srch.append("Eval vm_compute in (map (fun d => hlle_written gen_hlle_step gen_hlle_col d) (seq 1 4)).")
    open(os.path.join(gdir, "SearchCur.v"), "w").write("\n".join(srch) + "\n")
    lock = ctx._lock()
    try:
        # the TK library must be built (ctx.coq() did that); compile the three small files
        ok0, _, e0 = coqc_build(ctx, gdir, "OmpCur.v")
        if not ok0:
            return False, {"error": "regenerated table does not compile: " + e0[-800:]}
        ok1, _, e1 = coqc_build(ctx, gdir, "GenCur.v")
        ok2, out2, e2 = coqc_build(ctx, gdir, "SearchCur.v")
    finally:
        lock.close()
    det = {"obligations_ok": ok1, "obligation_error": e1[-1200:] if not ok1 else ""}
    if ok2:
        vals = [v.strip() for v in re.split(r"(?m)^\s*= ", out2)[1:]]
        vals = [re.sub(r"\s+", " ", v.split("\n     : ")[0]) for v in vals]
        regs = []
        for i in range(n):
            a, b, c = vals[3 * i: 3 * i + 3]
            w = None
            m = re.search(r'Some \("([^"]*)"(?:%string)?, \((-?\d+)(?:%Z)?, (-?\d+)(?:%Z)?, \((-?\d+)(?:%Z)?, (-?\d+)(?:%Z)?\)\)\)', b)
            if m:
                w = {"var": m.group(1), "i": int(m.group(2)), "i2": int(m.group(3)),
                     "v1": int(m.group(4)), "v2": int(m.group(5))}
            regs.append({"name": tr["regions"][i]["name"], "shared_ok": a.startswith("true"), "witness": w,
                         "stale": re.findall(r'"([^"]*)"', c)})
        dok = re.findall(r"true|false", vals[3 * n])
        for i, rg in enumerate(regs):
            rg["dist_ok"] = (dok[i] == "true") if i < len(dok) and len(dok) == n else False
            rg["dist"] = tr["regions"][i].get("dist")
        det["regions"] = regs
        det["hlle_found"] = vals[3 * n + 1].startswith("true")
        det["hlle_ok_by_d"] = re.findall(r"true|false", vals[3 * n + 2])
        det["hlle_written"] = vals[3 * n + 3][:400]
    else:
        det["search_error"] = e2[-800:]
    return ok1, det


# ----------------------------------------------------------------------------- confirmation runs
def gen_cases(ctx, quick):
    rng = ctx.rng
    cases = []
    sizes = [2, 3, 5, 8, 13, 17, 33, 64] if quick else [2, 3, 4, 5, 7, 8, 13, 16, 17, 31, 33, 64, 100, 150, 257]
    cid = 0
    for region in DENSE + SPARSE:
        for N in sizes:
            reps = 1 if quick else 2
            for _ in range(reps):
                k = max(1, min(N - 1, rng.choice([2, 3, 5, 8])))
                d = rng.choice([1, 2, 3])
                if region == "hlle":
                    need = {1: 3, 2: 6, 3: 10}
                    while d > 1 and (need[d] > N - 1):
                        d -= 1
                    if need[d] > N - 1:
                        continue
                    k = min(N - 1, need[d] + rng.choice([0, 1, 3]))
                if region == "kltsa":
                    d = min(d, k)
                if region in SPARSE and (N < 3 or (quick and N > 40)):
                    continue        # the eigen-solver bodies are slow in the -O0 quick build
                L = max(1, min(N, rng.choice([1, 2, 3, N // 2 or 1, N])))
                if region == "tri":
                    d = min(d, L)
                dim = rng.choice([1, 2, 3, 5])
                cases.append({"kind": "run", "id": cid, "region": region, "N": N, "k": k, "d": d, "L": L,
                              "dim": dim, "seed": rng.randrange(1, 10 ** 6), "int": rng.choice([0, 1])})
                cid += 1
    return cases


def large_cases(ctx, quick):
    """always-on large cases (own harness invocation, five combinations): races that need thousands of iterations
    per thread or a size threshold to show — triangulate with 3000 landmarks (64 flags of a std::vector<bool> share
    a word), Barnes-Hut t-SNE on 1200 points (above any plausible `if (N >= 1000)`), exact t-SNE"""
    rng = ctx.rng
    N, k, d, L = LARGE_TRI
    cases = [{"kind": "run", "id": 7000, "region": "tri", "N": N, "k": k, "d": d, "L": L, "dim": 3,
              "seed": rng.randrange(1, 10 ** 6), "int": 0, "combos": LARGE_COMBOS},
             {"kind": "run", "id": 7001, "region": "tsne", "N": 1200, "k": 10, "d": 2, "L": 50, "dim": 3,
              "seed": rng.randrange(1, 10 ** 6), "int": 0, "combos": LARGE_COMBOS},
             {"kind": "run", "id": 7002, "region": "tsne", "N": 300, "k": 10, "d": 1, "L": 50, "dim": 3,
              "seed": rng.randrange(1, 10 ** 6), "int": 0, "combos": LARGE_COMBOS}]
    if not quick:
        cases += [{"kind": "run", "id": 7003, "region": "mdsl", "N": 2000, "k": 10, "d": 2, "L": 1500, "dim": 3,
                   "seed": rng.randrange(1, 10 ** 6), "int": 0, "combos": LARGE_COMBOS},
                  {"kind": "run", "id": 7004, "region": "isol", "N": 1500, "k": 10, "d": 2, "L": 200, "dim": 3,
                   "seed": rng.randrange(1, 10 ** 6), "int": 0, "combos": LARGE_COMBOS},
                  {"kind": "run", "id": 7005, "region": "tsne", "N": 2500, "k": 20, "d": 2, "L": 50, "dim": 4,
                   "seed": rng.randrange(1, 10 ** 6), "int": 0, "combos": LARGE_COMBOS}]
        # wave 4: weight matrices with more than 2^22 triplets (k*k*N = 5.0e6): window neighbourhoods, one slow callback
        cases += [{"kind": "run", "id": 7006 + q, "region": region, "N": 5600, "k": 30, "d": 2, "L": 4, "dim": 3,
                   "seed": rng.randrange(1, 10 ** 6), "int": 0, "combos": LARGE_COMBOS} for q, region in enumerate(SPARSE)]
    return cases


# ----------------------------------------------------------------------------- closed form of the symmetric fill
M64 = (1 << 64) - 1


def _lcg(state):
    state[0] = (state[0] * 6364136223846793005 + 1442695040888963407) & M64
    return state[0] >> 33


def case_data(c):
    """the points harness/c15.cpp generates for this case (same generator, same double operations)"""
    st = [(c["seed"] * 2654435761 + 12345) & M64]
    xs = []
    for _ in range(c["N"] * c["dim"]):
        v = _lcg(st)
        xs.append(float(int(v % 41) - 20) if c["int"] else (float(v % 2000001) - 1e6) / 7e4)
    return xs


def case_landmarks(c):
    N = c["N"]
    lm = [((i * 7 + c["seed"]) % N) for i in range(min(c["L"], N))]
    used = [False] * N
    for i, v in enumerate(lm):
        while used[v]:
            v = (v + 1) % N
        used[v] = True
        lm[i] = v
    return lm


def sym_expected(c):
    """row-major expected matrix of mds / mdsl / cli: entry (a,b) = f(min(a,b), max(a,b))"""
    import math
    xs, dim = case_data(c), c["dim"]

    def dist(a, b):
        s = 0.0
        for q in range(dim):
            t = xs[a * dim + q] - xs[b * dim + q]
            s += t * t
        return math.sqrt(s)

    def kern(a, b):
        s = 0.0
        for q in range(dim):
            s += xs[a * dim + q] * xs[b * dim + q]
        return s
    if c["region"] == "mds":
        pts = list(range(c["N"]))
        f = lambda i, j: (lambda d: d * d)(dist(pts[i], pts[j]))
    elif c["region"] == "mdsl":
        pts = case_landmarks(c)
        f = lambda i, j: (lambda d: d * d)(dist(pts[i], pts[j]))
    else:
        pts = list(range(c["N"]))
        f = lambda i, j: kern(pts[i], pts[j]) + 0.25 * dist(pts[i], pts[j])
    n = len(pts)
    return [f(min(a, b), max(a, b)) for a in range(n) for b in range(n)]


def case_line(c):
    return "CASE %d %s %d %d %d %d %d %d %d\n" % (c["id"], c["region"], c["N"], c["k"], c["d"], c["L"], c["dim"],
                                               c["seed"], c["int"])


def run_cases(ctx, exe, cases, combos, timeout=900, env=None):
    """returns dict id -> {"rows": [...], "diffs": [...], "ended": bool, "crash": str|None}"""
    res = {c["id"]: {"rows": [], "diffs": [], "ended": False, "crash": None, "bad": False} for c in cases}
    todo = list(cases)
    while todo:
        inp = "COMBOS " + " ".join(combos) + "\n" + "".join(case_line(c) for c in todo)
        # passive waiting: 16 spinning threads on a loaded machine make every barrier slow
        r = ctx.run(exe, inp, timeout=timeout, env=dict({"OMP_WAIT_POLICY": "passive", "GOMP_SPINCOUNT": "0"}, **(env or {})))
        cur = None
        for line in r.out.splitlines():
            w = line.split()
            if not w:
                continue
            try:
                if w[0] == "C":
                    cur = int(w[1])
                elif w[0] == "R" and int(w[1]) in res:
                    res[int(w[1])]["rows"].append({"t": int(w[2]), "k": int(w[3]), "c": int(w[4]), "hash": w[5],
                                                    "n": int(w[6]), "maxd": float.fromhex(w[7]) if w[7] not in ("inf", "nan", "-nan") else float("inf"),
                                                    "maxr": float.fromhex(w[8]) if w[8] not in ("inf", "nan", "-nan") else float("inf"),
                                                    "nonfinite": int(w[9]), "asg": w[10] if len(w) > 10 else "",
                                                    "m": int(w[11]) if len(w) > 11 else 0,
                                                    "team": int(w[12]) if len(w) > 12 else 0})
                elif w[0] == "V" and int(w[1]) in res:
                    res[int(w[1])]["values"] = [float.fromhex(x) if x not in ("inf", "-inf", "nan", "-nan") else float("nan")
                                                for x in w[3:3 + int(w[2])]]
                elif w[0] == "X" and int(w[1]) in res:
                    res[int(w[1])]["diffs"].append(" ".join(w[2:]))
                elif w[0] == "E" and int(w[1]) in res:
                    res[int(w[1])]["ended"] = True
                elif w[0] == "BAD" and len(w) > 1 and w[1].lstrip("-").isdigit() and int(w[1]) in res:
                    res[int(w[1])]["bad"] = True
            except (ValueError, IndexError):
                continue   # garbage from a mutated library: the case stays un-ended and is reported below
        if r.rc == 0 and not r.timed_out:
            break
        # the process died or hung inside case `cur`
        ids = [c["id"] for c in todo]
        if cur is None or cur not in ids:
            cur = ids[0]
        res[cur]["crash"] = ("timeout after %ds" % timeout) if r.timed_out else (r.sanitizer or r.err[-800:] or "rc=%d" % r.rc)
        todo = todo[ids.index(cur) + 1:]
    return res


def judge(ctx, cases, res, combos, stats, env=None):
    """spec on the implementation's own output: all combinations agree with the single thread"""
    n_eval = 0
    extra = {"env": env} if env else {}
    envtxt = (" [environment %s]" % " ".join("%s=%s" % kv for kv in sorted(env.items()))) if env else ""
    for c in cases:
        r = res[c["id"]]
        c = dict(c, **extra)
        if r["crash"]:
            ctx.violation(dict(c, combos=combos), "the region aborts / hangs (memory error, sanitizer, timeout)%s: " % envtxt
                          + str(r["crash"])[:700])
            continue
        if r["bad"]:
            stats["skipped_bad_parameters"] = stats.get("skipped_bad_parameters", 0) + 1
            continue
        if not r["ended"] or len(r["rows"]) != len(combos):
            ctx.violation(dict(c, combos=combos), "the harness produced incomplete / unreadable output for this case "
                          "(%d of %d result lines)" % (len(r["rows"]), len(combos)))
            continue
        n_eval += len(r["rows"])
        ref = r["rows"][0]
        for row in r["rows"]:
            if row.get("team"):
                tk = "teams_granted(context:requested threads -> team sizes seen)%s" % (" under " + envtxt.strip(" []") if env else "")
                stats.setdefault(tk, {}).setdefault("%d:%d" % (row.get("m", 0), row["t"]), set()).add(row["team"])
        if c["region"] in ("mds", "mdsl", "diff", "tri", "cli") and c["N"] >= 8:
            stats.setdefault("_asg", set()).update((c["id"], row["asg"]) for row in r["rows"] if not row.get("m"))
            stats["assignment_tracked_cases"] = stats.get("assignment_tracked_cases", 0) + 1
        if "values" in r and c["region"] in ("mds", "mdsl", "cli"):
            exp = sym_expected(c)
            stats["closed_form_checked"] = stats.get("closed_form_checked", 0) + 1
            got = r["values"]
            badi = None if len(got) == len(exp) else -1
            if badi is None:
                for q, (g, e) in enumerate(zip(got, exp)):
                    if g != e:
                        badi = q
                        break
            if badi is not None:
                nn = int(round(len(exp) ** 0.5)) or 1
                ctx.violation(dict(c, combos=combos[:1]),
                              "%s: single-threaded result is not the symmetric matrix f(min(a,b),max(a,b)) of the "
                              "callback values: entry (%d,%d) is %r, expected %r" % (
                                  c["region"], badi // nn, badi % nn, got[badi] if 0 <= badi < len(got) else None,
                                  exp[badi] if 0 <= badi < len(exp) else None))
                continue
        for row in r["rows"][1:]:
            bad = None
            if row["n"] != ref["n"]:
                bad = "result size %d vs %d" % (row["n"], ref["n"])
            elif c["region"] in DENSE:
                if row["hash"] != ref["hash"]:
                    bad = "dense result differs from the single-threaded one (max abs diff %.3g)" % row["maxd"]
            elif c["region"] in ITER:
                scale = max(ref["maxr"], 1e-300)
                if not (row["maxd"] <= TOL_ITER * scale) or row["nonfinite"] != ref["nonfinite"]:
                    bad = ("the t-SNE map after %d iterations differs from the single-threaded one by %.3g (largest "
                           "entry %.3g, allowed %.0e relative)" % (c["L"] + 1, row["maxd"], scale, TOL_ITER))
                elif row["hash"] != ref["hash"]:
                    stats["reassociation_only"] = stats.get("reassociation_only", 0) + 1
            else:
                scale = max(ref["maxr"], 1e-300)
                if not (row["maxd"] <= TOL * scale):
                    bad = "sparse weight matrix differs by %.3g (scale %.3g, allowed %.0e relative)" % (
                        row["maxd"], scale, TOL)
                elif row["hash"] != ref["hash"]:
                    stats["reassociation_only"] = stats.get("reassociation_only", 0) + 1
            if bad:
                m = row.get("m", 0)
                where = ""
                if m or env:
                    where = " context=%d (%s; the team the runtime granted there: %s thread(s))%s" % (
                        m, CONTEXT_NAMES.get(m, "?"), row.get("team") or "?", envtxt)
                    if m in (1, 2):
                        bad = bad.replace("single-threaded one", "single-threaded plain call on the same data (three data sets, "
                                          "one per outer thread)")
                mine = [x for x in r["diffs"] if x.split()[:3] == [str(row["t"]), str(row["k"]), str(row["c"])]] or r["diffs"]
                ctx.violation(dict(c, combos=combos),
                              "%s: threads=%d schedule=%d chunk=%d%s: %s; first differing entries (index ref value): %s" % (
                                  c["region"], row["t"], row["k"], row["c"], where, bad, "; ".join(mine[:3])))
                break
    return n_eval


EMBED_DENSE = ("isomap", "lisomap", "mds", "lmds", "dm")
EMBED_SPARSE = ("klle", "kltsa", "hlle")
EMBED_ITER = ("tsne", "spe", "ms")          # iterative, no eigenproblem: compared entrywise / through the logged error
EMBED_OTHER = ("npe", "lltsa", "la", "lpp", "kpca", "pca", "ra", "fa", "pt")
EMBED_TOL_DENSE = 1e-10      # Gram matrix of the embedding, relative to its largest entry
EMBED_TOL_SPARSE = 1e-4      # tolerance stream: null-space eigenproblems amplify the re-association of the
                             # triplet sums by their conditioning (measured: 1e-11 .. 5e-9)
EMBED_TOL_RANDOMIZED = 1e-7  # randomized eigensolver (power iterations through Eigen's threaded products)
EMBED_TOL_OTHER = 1e-6       # methods without an OpenMP region of their own (Eigen kernels only): gross differences
EMBED_TOL_ITER = 1e-7        # t-SNE after ~50 iterations: a re-associated sum (race-free parallel variant, mutant h5) moves
                             # the logged error by < 1e-10 relative; the race of seeded/C17_1_r2 by 1e-4 .. 1e-2
# public-API method (harness name) -> its header under include/tapkee/methods/
METHOD_HEADERS = {
    "klle": "kernel_locally_linear_embedding.hpp", "kltsa": "kernel_local_tangent_space_alignment.hpp",
    "hlle": "hessian_locally_linear_embedding.hpp", "dm": "diffusion_map.hpp", "isomap": "isomap.hpp",
    "lisomap": "landmark_isomap.hpp", "mds": "multidimensional_scaling.hpp",
    "lmds": "landmark_multidimensional_scaling.hpp", "npe": "neighborhood_preserving_embedding.hpp",
    "lltsa": "linear_local_tangent_space_alignment.hpp", "la": "laplacian_eigenmaps.hpp",
    "lpp": "locality_preserving_projections.hpp", "spe": "stochastic_proximity_embedding.hpp",
    "kpca": "kernel_pca.hpp", "pca": "pca.hpp", "ra": "random_projection.hpp", "fa": "factor_analysis.hpp",
    "tsne": "tsne.hpp", "ms": "manifold_sculpting.hpp",
}
# parameter variants that steer a method into its different code paths
METHOD_VARIANTS = {
    "tsne": [{"theta": 0.5, "stop": 50}, {"theta": 0, "stop": 50}],
    "lmds": [{"ratio": 0.5}, {"ratio": 0.92, "eig": "randomized"}],
    "lisomap": [{"ratio": 0.5}],
    "spe": [{"maxit": 30}], "ms": [{"maxit": 5}],
}
DENSE_EIG_CAP = 400          # methods with an N x N dense eigenproblem switch to the randomized solver above this


def _includes_of(path):
    try:
        txt = open(path, errors="replace").read()
    except OSError:
        return []
    return re.findall(r'#\s*include\s*[<"](tapkee/[^>"]+)[>"]', txt)


def include_closure(repo, rel):
    """tapkee headers transitively included by include/<rel>"""
    inc = os.path.join(repo, "include")
    seen, todo = set(), [rel]
    while todo:
        h = todo.pop()
        if h in seen:
            continue
        seen.add(h)
        todo += _includes_of(os.path.join(inc, h))
    return seen


def methods_reaching(repo, region_file):
    """public-API methods whose implementation includes the header of a region; the most specific first.
    region_file is relative to the repository (include/tapkee/... or src/...)."""
    if not region_file.startswith("include/"):
        return []
    rel = region_file[len("include/"):]
    base = include_closure(repo, "tapkee/methods/base.hpp") | include_closure(repo, "tapkee/defines.hpp")
    hits = []
    for m, h in METHOD_HEADERS.items():
        cl = include_closure(repo, "tapkee/methods/" + h)
        if rel in cl:
            hits.append((0 if rel not in base else 1, m))
    if not hits or all(h[0] == 1 for h in hits):
        # a header every method sees (neighbours, eigendecomposition helpers, utilities): all of them
        hits = [(1, m) for m in METHOD_HEADERS]
    specific = [m for z, m in hits if z == 0]
    return specific or [m for _, m in hits]


def sizes_for_region(desc, cap=4000):
    """problem sizes on both sides of every threshold of the region's `if (...)` clause; the loop bound tells
    which variable is the trip count.  Returns (sizes, explanation)."""
    ths = [t for t in (desc.get("if_thresholds") or []) if 4 <= t[2] <= cap]
    bounds = [l.get("hi", "") for l in desc.get("loops", [])]
    if not ths:
        return [60, 300, 1200], "no `if` clause: default sizes; loop bound(s) %s" % bounds
    sizes = set()
    for var, op, val in ths:
        below = max(8, val - 1 if op in (">=", "<") else val)
        above = min(cap, max(val + val // 5, val + 8))
        sizes.update([below, above, min(cap, 2 * val)] if val <= cap // 2 else [below, above])
    return sorted(sizes), "`if (%s)`: sizes below and above the threshold(s) %s; loop bound(s) %s" % (
        desc.get("if"), [t[2] for t in ths], bounds)


def embed_case(cid, m, N, rng, **opts):
    d = 2
    k = 12 if m == "hlle" else 10
    if m in EMBED_DENSE + EMBED_OTHER and N > DENSE_EIG_CAP and "eig" not in opts and m not in ("lmds", "lisomap", "ra", "pt"):
        opts["eig"] = "randomized"
    if m in ("lmds", "lisomap") and N * float(opts.get("ratio", 0.5)) > DENSE_EIG_CAP and "eig" not in opts:
        opts["eig"] = "randomized"
    return {"kind": "embed", "id": cid, "method": m, "N": N, "D": 3, "k": min(k, N - 1), "d": d,
            "seed": rng.randrange(1, 10 ** 6), "opts": {k_: opts[k_] for k_ in sorted(opts)}}


def embed_line(c):
    return "CASE %d %s %d %d %d %d %d%s\n" % (c["id"], c["method"], c["N"], c["D"], c["k"], c["d"], c["seed"],
                                             "".join(" %s=%s" % kv for kv in sorted(c.get("opts", {}).items())))


def embed_build(ctx):
    return ctx.cpp("harness/c15_embed.cpp", defines=["nowait=schedule(runtime) nowait"], timeout=1500)


def embed_exec(ctx, exe, cases, combos, timeout=1200):
    """id -> {"rows": [fields...], "logs": {combo index: [(iteration, error)]}, "ended", "crash"}"""
    res = {c["id"]: {"rows": [], "logs": {}, "ended": False, "crash": None} for c in cases}
    todo = list(cases)
    while todo:
        inp = "COMBOS " + " ".join(combos) + "\n" + "".join(embed_line(c) for c in todo)
        r = ctx.run(exe, inp, timeout=timeout, env={"OMP_WAIT_POLICY": "passive", "GOMP_SPINCOUNT": "0"})
        cur = None
        for line in r.out.splitlines():
            w = line.split()
            try:
                if w and w[0] == "C":
                    cur = int(w[1])
                elif w and w[0] == "R" and int(w[1]) in res:
                    res[int(w[1])]["rows"].append(w[2:])
                elif w and w[0] == "L" and int(w[1]) in res:
                    key = ":".join(w[2:5])
                    res[int(w[1])]["logs"].setdefault(key, []).append((int(w[5]), float.fromhex(w[6])))
                elif w and w[0] == "E" and int(w[1]) in res:
                    res[int(w[1])]["ended"] = True
                elif w and w[0] == "BAD" and int(w[1]) in res:
                    res[int(w[1])]["bad"] = True
            except (ValueError, IndexError):
                continue
        if r.rc == 0 and not r.timed_out:
            break
        ids = [c["id"] for c in todo]
        if cur is None or cur not in ids:
            cur = ids[0]
        res[cur]["crash"] = ("timeout after %ds" % timeout) if r.timed_out else (r.sanitizer or r.err[-600:] or "rc=%d" % r.rc)
        todo = todo[ids.index(cur) + 1:]
    return res


def embed_tol(c):
    m = c["method"]
    if m in EMBED_ITER:
        return EMBED_TOL_ITER
    if c.get("opts", {}).get("eig") == "randomized":
        return EMBED_TOL_RANDOMIZED if m in EMBED_DENSE else EMBED_TOL_OTHER
    if m in EMBED_DENSE:
        return EMBED_TOL_DENSE
    return EMBED_TOL_SPARSE if m in EMBED_SPARSE else EMBED_TOL_OTHER


def embed_judge(ctx, cases, res, combos, stats, report=True):
    """the spec on the implementation's own output: every combination gives the embedding of the single thread.
    Returns (number of evaluations, [(case, why)]); with report=True the failures become violations."""
    n = 0
    worst = stats.setdefault("_embed_worst", {})
    bad = []

    def fail(c, why):
        bad.append((c, why))
        if report:
            ctx.violation(dict(c, combos=combos), why)
    for c in cases:
        r = res[c["id"]]
        if r["crash"]:
            fail(c, "tapkee::embed aborts / hangs under some thread count: " + str(r["crash"])[:600])
            continue
        if r.get("bad"):
            stats["embed_bad_parameters"] = stats.get("embed_bad_parameters", 0) + 1
            continue
        rs = r["rows"]
        if not r["ended"] or len(rs) != len(combos):
            fail(c, "incomplete output of the embedding harness for this case (%d of %d result lines)" % (len(rs), len(combos)))
            continue
        n += len(rs)
        kinds = [(" ".join(w[3:5]) if len(w) > 3 and w[3] == "EXC" else (w[3] if len(w) > 3 and w[3] == "STOP" else "OK")) for w in rs]
        if len(set(kinds)) > 1:
            fail(c, "the outcome of embed (exception / early stop / result) depends on the thread count: %s" % kinds)
            continue
        if kinds[0].startswith("EXC"):
            stats["embed_exceptions"] = stats.get("embed_exceptions", 0) + 1
            continue
        tol = embed_tol(c)
        failed = False
        # the library's own progress lines (t-SNE): "Iteration i: error is C"
        ref_log = r["logs"].get(combos[0])
        for cb in combos[1:]:
            lg = r["logs"].get(cb)
            if (lg is None) != (ref_log is None) or (lg is not None and [x[0] for x in lg] != [x[0] for x in ref_log]):
                fail(c, "%s: the progress lines logged by the library differ between 1 thread and %s" % (c["method"], cb))
                failed = True
                break
            for (it, a), (_, b) in zip(ref_log or [], lg or []):
                if a == b:
                    continue
                rel = abs(a - b) / max(abs(a), 1e-300) if (a == a and b == b) else float("inf")
                worst[c["method"]] = max(worst.get(c["method"], 0.0), rel)
                if not (rel <= tol):
                    fail(c, "%s (N=%d, %s): the error the library logs at iteration %d is %r with 1 thread and %r with "
                            "threads:schedule:chunk=%s (relative difference %.3g, allowed %.0e for re-associated sums)" % (
                                c["method"], c["N"], c.get("opts"), it, a, b, cb, rel, tol))
                    failed = True
                    break
                stats["embed_reassociation_only"] = stats.get("embed_reassociation_only", 0) + 1
            if failed:
                break
        if failed or kinds[0] == "STOP":
            continue
        for w in rs[1:]:
            try:
                maxd, maxr, nonfin = float.fromhex(w[5]), float.fromhex(w[6]), int(w[7])
                maxe, maxa = (float.fromhex(w[8]), float.fromhex(w[9])) if len(w) > 9 else (0.0, 1.0)
            except (ValueError, IndexError):
                maxd, maxr, nonfin, maxe, maxa = float("inf"), 1.0, 0, float("inf"), 1.0
            rel = maxd / max(maxr, 1e-300)
            what = "Gram matrix"
            if c["method"] in EMBED_ITER:      # no sign / rotation freedom: the entries themselves
                rel, what = max(rel, maxe / max(maxa, 1e-300)), "entries / Gram matrix"
            worst[c["method"]] = max(worst.get(c["method"], 0.0), rel)
            if not (rel <= tol) or (w[3:5] != rs[0][3:5]) or nonfin != (int(rs[0][7]) if len(rs[0]) > 7 else 0):
                fail(c, "embedding of %s (N=%d, %s) differs between 1 thread and threads=%s schedule=%s chunk=%s: %s "
                        "relative difference %.3g (allowed %.0e)" % (c["method"], c["N"], c.get("opts"), w[0], w[1], w[2],
                                                                     what, rel, tol))
                break
    return n, bad


def embed_cases_always(ctx):
    rng = ctx.rng
    cases = []
    for m in EMBED_DENSE + EMBED_SPARSE:
        for N in (24, 60, 150):
            d = rng.choice([1, 2])
            k = {1: 6, 2: 9}[d] + rng.choice([0, 2]) if m == "hlle" else rng.choice([6, 8, 10])
            cases.append({"kind": "embed", "id": len(cases), "method": m, "N": N, "D": 3, "k": k, "d": d,
                          "seed": rng.randrange(1, 10 ** 6), "opts": {}})
    # large cases: races that need many iterations per thread / a size threshold to show
    cases.append(embed_case(len(cases), "tsne", 1200, rng, theta=0.5, stop=50))
    cases.append(embed_case(len(cases), "tsne", 300, rng, theta=0, stop=50))
    cases.append(embed_case(len(cases), "lmds", 3300, rng, ratio=0.92, eig="randomized"))
    cases.append(embed_case(len(cases), "lisomap", 600, rng, ratio=0.5))
    return cases


def embed_runs(ctx, stats, only=None):
    """thorough tier: whole methods through tapkee::embed under the thread/schedule combinations"""
    exe = embed_build(ctx)
    combos = ["1:1:0", "2:1:0", "3:2:1", "8:2:1", "16:3:0", "16:1:1"]
    cases = embed_cases_always(ctx) if only is None else [dict(only, id=0)]
    if only is not None and only.get("combos"):
        combos = list(only["combos"])
    res = embed_exec(ctx, exe, cases, combos)
    n, _ = embed_judge(ctx, cases, res, combos, stats)
    stats["embed_worst_relative_difference"] = {k: float("%.3g" % v) for k, v in stats.pop("_embed_worst", {}).items()}
    stats["embed_cases"] = len(cases)
    return n


API_COMBOS = ["1:1:0", "2:1:0", "8:1:0", "16:1:0"]


def api_search(ctx, desc, stats):
    """search phase for a region in code the region table does not know: the public-API methods that include
    the region's header are run (tapkee::embed, fixed random stream) at problem sizes on both sides of the
    thresholds of the region's `if` clause, under 1, 2, 8 and 16 threads.  Returns (case, why) or None."""
    methods = methods_reaching(ctx.repo, desc.get("file", ""))
    sizes, how = sizes_for_region(desc)
    if not methods:
        ctx.note("search: %s is not reachable from a tapkee::embed method (not under include/)" % desc["name"])
        return None
    rng = ctx.rng
    cases = []
    for m in methods:
        for N in sizes:
            for var in METHOD_VARIANTS.get(m, [{}]):
                if m == "tsne" and float(var.get("theta", 0.5)) == 0 and N > 1500:
                    continue
                if m in EMBED_SPARSE + ("ms",) and N > 600:
                    continue
                cases.append(embed_case(9000 + len(cases), m, N, rng, **var))
    ctx.note("search (%s): methods %s; %s; %d cases x threads {1,2,8,16}" % (desc["name"], methods, how, len(cases)))
    try:
        exe = embed_build(ctx)
    except vlib.BuildError as ex:
        ctx.note("search: the embedding harness does not build against this tree: " + str(ex)[-300:])
        return None
    # the largest sizes first: that is where a conditional region runs in parallel
    cases.sort(key=lambda c: -c["N"])
    for rep in range(2 if ctx.quick else 5):
        res = embed_exec(ctx, exe, cases, API_COMBOS)
        n, bad = embed_judge(ctx, cases, res, API_COMBOS, stats, report=False)
        stats["search_runs"] = stats.get("search_runs", 0) + n
        if bad:
            stats.pop("_embed_worst", None)
            c, why = bad[0]
            below = [x for x in cases if x["method"] == c["method"] and x["N"] < c["N"] and x.get("opts") == c.get("opts")
                     and x["id"] not in {b[0]["id"] for b in bad}]
            if below:
                why += " (the same method with N=%s, below the threshold, gives identical results for every thread count)" % (
                    sorted({x["N"] for x in below}))
            return dict(c, combos=API_COMBOS), why
    stats.pop("_embed_worst", None)
    return None


def tsan_build(ctx):
    """clang++/libomp ThreadSanitizer build of the harness (Archer is loaded at run time); None if unavailable"""
    if not shutil.which("clang++-14"):
        return None
    h = hashlib.sha256()
    h.update(open(os.path.join(ctx.verif, "harness", "c15.cpp"), "rb").read())
    h.update(ctx.repo_hash().encode())
    cdir = os.path.join(ctx.verif, "build", "cache")
    os.makedirs(cdir, exist_ok=True)
    exe = os.path.join(cdir, "c15tsan_%s" % h.hexdigest()[:20])
    if os.path.exists(exe):
        return exe
    cmd = ["clang++-14", "-std=gnu++20", "-fopenmp", "-DFMT_HEADER_ONLY=1", "-DTAPKEE_USE_LGPL_COVERTREE",
           "-DTAPKEE_VERIF", "-isystem", "/root/miniconda/include", "-isystem", "/usr/include/eigen3", "-w",
           "-I", os.path.join(ctx.repo, "include"), "-I", os.path.join(ctx.repo, "src"), "-O1", "-g",
           "-fsanitize=thread", "-Dnowait=schedule(runtime) nowait",
           os.path.join(ctx.verif, "harness", "c15.cpp"), "-o", exe + ".tmp"]
    try:
        p = subprocess.run(cmd, capture_output=True, text=True, timeout=1500)
    except subprocess.TimeoutExpired:
        return None
    if p.returncode != 0:
        ctx.note("TSan build failed: " + p.stderr[-400:])
        return None
    os.replace(exe + ".tmp", exe)
    return exe


TSAN_ENV = {"TSAN_OPTIONS": "ignore_noninstrumented_modules=1:halt_on_error=0:report_signal_unsafe=0:exitcode=0",
            "OMP_TOOL_LIBRARIES": "/usr/lib/llvm-14/lib/libarcher.so", "ARCHER_OPTIONS": "verbose=0"}


# wave 4: the same without ignore_noninstrumented_modules — with that option TSan drops every report one of whose stacks
# has its innermost frame in a module that is not instrumented, and ignores the memory accesses of the interceptors called from
# there; the copy a reallocating std::vector makes (memcpy / operator delete reached from resize() under the lock) is exactly such
# an access.  Without it libomp's own mutexes give false reports: a report counts only when BOTH access stacks reach tapkee code
# before any frame of the OpenMP runtime.
TSAN_ENV_STRICT = dict(TSAN_ENV, TSAN_OPTIONS="halt_on_error=0:report_signal_unsafe=0:exitcode=0:history_size=4")
_TAPKEE_FRAME = re.compile(r"include/tapkee/|tapkee::|cli/util\.hpp")
_RUNTIME_FRAME = re.compile(r"libomp|libarcher|libgomp|pthread_mutex|pthread_cond|__kmp")


def _race_in_tapkee(blk, strict):
    if "data race" not in blk and "heap-use-after-free" not in blk:
        return False
    if not strict:
        return "tapkee" in blk or "util.hpp" in blk
    stacks = []
    for part in re.split(r"\n[ \t]*\n", blk):
        lines = [l for l in part.splitlines() if l.strip()]
        while lines and not re.match(r"\s*(Read|Write|Atomic|Previous)\b", lines[0]):
            lines = lines[1:]       # the first stack follows the WARNING line without a blank line
        if lines:
            stacks.append([l for l in lines[1:] if re.match(r"\s*#\d+ ", l)])
    if len(stacks) < 2:
        return False
    for st in stacks[:2]:
        hit = next((q for q, l in enumerate(st) if _TAPKEE_FRAME.search(l)), None)
        if hit is None or any(_RUNTIME_FRAME.search(l) for l in st[:hit]):
            return False
    return True


def tsan_races(ctx, texe, cases, combos, strict=False, timeout=600):
    """list of (case, report excerpt) for data races reported inside tapkee code"""
    out = []
    for c in cases:
        inp = "COMBOS " + " ".join(combos) + "\n" + case_line(c)
        r = ctx.run(texe, inp, timeout=timeout, env=TSAN_ENV_STRICT if strict else TSAN_ENV)
        for blk in r.err.split("==================")[1:]:
            if _race_in_tapkee(blk, strict):
                lines = [l.strip() for l in blk.splitlines() if _TAPKEE_FRAME.search(l) or "util.hpp" in l or "data race" in l
                         or "use-after-free" in l or re.match(r"\s*(Read|Write|Previous|Atomic)\b", l)]
                lines = [re.sub(r"\s*\(BuildId: \w+\)|\s*\(c15tsan\S*\)", "", l) for l in lines]
                lines = [re.sub(r"^(#\d+) .*?(/include/tapkee/\S+|cli/util\.hpp\S*).*$", r"\1 \2", l) for l in lines]
                out.append((c, " | ".join(lines[:7])[:900]))
                break
    return out


THRESHOLD_COMBOS = ["1:1:0", "16:1:0", "8:2:1"]
THRESHOLD_SIDES = (("below", 0.3), ("above", 1.2))
WEIGHT_N_CAP, WEIGHT_COST_CAP, DENSE_N_CAP = 60000, 8 * 10 ** 6, 3000


def shapes_across(region, target):
    """[(measure, N, k, d, L)]: problem shapes of the region-level driver in which the natural size measures of the region
    (what its containers hold) equal `target`; the cheapest shape per measure (cost of a weight-matrix case ~ k*k*N)"""
    out = []
    if region in SPARSE:
        for measure, p, ks in (("k*k*N", 2, (30, 20, 16, 12)), ("k*N", 1, (8, 12, 16, 20, 30)), ("N", 0, (8, 12, 16, 20, 30))):
            for k in ks:
                N = -(-int(target) // (k ** p))
                if k + 8 <= N <= WEIGHT_N_CAP and k * k * N <= WEIGHT_COST_CAP:
                    out.append((measure, N, k, 2, 4))
                    break
    else:
        N = int(target)
        if 8 <= N <= DENSE_N_CAP:
            out.append(("N", N, 10, 2, max(1, N // 2)))
        N2 = int(round(float(target) ** 0.5)) + 1
        if 8 <= N2 <= DENSE_N_CAP and N2 != N:
            out.append(("N*N", N2, 10, 2, max(1, N2 // 2)))
        if region in ("tri", "mdsl", "isol"):
            L = int(target)
            N3 = L + L // 10 + 2
            if 8 <= L and N3 <= DENSE_N_CAP + 400:
                out.append(("landmarks", N3, 10, 2, L))
    return out


def threshold_cases(ctx, name, desc):
    """wave 4: cases of the region-level driver on both sides of every numeric constant of the flagged function.
    Returns (cases, text)."""
    regs = []
    for frag, rs in REGION_OF_FUNC.items():
        if frag in name:
            regs = rs
    consts = [c for c in (desc.get("func_consts") or []) if c[0] >= 1024][-4:]
    cases, seen, told = [], set(), []
    for region in regs:
        for val, text, line in consts:
            for side, factor in THRESHOLD_SIDES:
                for measure, N, k, d, L in shapes_across(region, val * factor):
                    key = (region, N, k, d, L)
                    if key in seen:
                        continue
                    seen.add(key)
                    cases.append({"kind": "run", "id": 9600 + len(cases), "region": region, "N": N, "k": k, "d": d, "L": L,
                                  "dim": 3, "seed": 4242 + N, "int": 0,
                                  "threshold": {"constant": text, "value": val, "line": line, "measure": measure, "side": side,
                                                "measure_value": int(val * factor)}})
            told.append("%s = %d (line %d)" % (text, val, line))
    return cases, "size constants of %s(): %s" % (desc.get("func"), ", ".join(sorted(set(told))) or "none")


def _tcase_text(c):
    t = c.get("threshold", {})
    return "%s with %s = %.3g (N=%d, k=%d), %s the constant %s" % (c["region"], t.get("measure"), t.get("measure_value", 0), c["N"],
                                                                   c["k"], t.get("side"), t.get("constant"))


def threshold_search(ctx, exe, texe, rg, desc, why, stats):
    """the footprint analysis flags an access it cannot bound and the small witness cases behave: go after the sizes at which
    the flagged function changes behaviour.  Returns True when a violation with a concrete replay was recorded."""
    cases, how = threshold_cases(ctx, rg["name"], desc)
    if not cases:
        ctx.note("threshold search (%s): %s — no case of the region-level driver reaches across a constant" % (rg["name"], how))
        return False
    ctx.note("threshold search (%s): %s; %d case(s): %s" % (rg["name"], how, len(cases), "; ".join(_tcase_text(c) for c in cases)))
    stats["threshold_cases"] = stats.get("threshold_cases", 0) + len(cases)
    found = []
    quiet = []
    # (a) happens-before race detection: sees the race whatever the timing
    texe = texe or tsan_build(ctx)
    if texe:
        for c in cases:
            races = tsan_races(ctx, texe, [c], ["4:1:0"], strict=True, timeout=900)
            stats["tsan_search_runs"] = stats.get("tsan_search_runs", 0) + 1
            if races:
                found.append((dict(c, combos=["4:1:0"], tsan=True, tsan_strict=True),
                              "%s: ThreadSanitizer+Archer (clang/libomp build, 4 threads): %s" % (_tcase_text(c), races[0][1])))
            else:
                quiet.append("%s: no race reported" % _tcase_text(c))
    # (b) differential runs under ASan with many threads; one callback evaluation is slow once in the big cases
    res = run_cases(ctx, exe, cases, THRESHOLD_COMBOS, timeout=900)
    before = len(ctx._violations)
    stats["search_runs"] = stats.get("search_runs", 0) + judge(ctx, cases, res, THRESHOLD_COMBOS, stats)
    failed_ids = set()
    for v in ctx._violations[before:]:
        cid = v[0].get("id") if isinstance(v[0], dict) else None
        failed_ids.add(cid)
        c = next((x for x in cases if x["id"] == cid), None)
        found.append((None, "%s: %s" % (_tcase_text(c) if c else "?", str(v[1])[:500])))
    quiet += ["%s: every thread count gives the single-threaded result" % _tcase_text(c) for c in cases
              if c["id"] not in failed_ids and res[c["id"]]["ended"]]
    if not found:
        ctx.note("threshold search (%s): nothing found — %s" % (rg["name"], "; ".join(quiet)[:600]))
        return False
    first_case = next((f[0] for f in found if f[0] is not None), None) or ctx._violations[before][0]
    text = (why + " — confirmed by the threshold search (" + how + "): " + " || ".join(f[1] for f in found[:2])
            + ((" || on the other side of the constant: " + "; ".join(quiet[:3])) if quiet else ""))
    if ctx.violation(first_case, text[:1900]):
        ctx._violations.insert(0, ctx._violations.pop())        # the explanation first (vlib prints the first five)
    return True


def witness_cases(ctx, name, quick, desc=None):
    """harness cases that exercise the region whose descriptor is `name`: two moderate sizes, sizes above the
    thresholds of an `if` clause of the region, and (triangulate) one case with thousands of landmarks"""
    regs = []
    for frag, rs in REGION_OF_FUNC.items():
        if frag in name:
            regs = rs
    cases = []
    shapes = [(40, 10, 2, 20), (96, 12, 3, 48)]
    if desc is not None and desc.get("if_thresholds"):
        for N in sizes_for_region(desc, cap=2000)[0]:
            if N > 96:
                shapes.append((N, 12, 2, N // 2))
    for j, region in enumerate(regs):
        for N, k, d, L in shapes + ([LARGE_TRI] if region == "tri" else []):
            if region in SPARSE and N > 400:
                continue
            cases.append({"kind": "run", "id": 9000 + 10 * j + len(cases), "region": region, "N": N, "k": k, "d": d,
                          "L": L, "dim": 3, "seed": 4242 + N, "int": 0})
    return cases


TEAM_COMBOS = ["1:1:0", "4:1:0", "4:1:0:1", "3:2:1:1", "4:1:0:2", "2:2:1:2", "32:1:0:3", "16:2:1:3"]


def team_search(ctx, exe, rg, desc, stats):
    """the distribution descriptor of a region is rejected (Par_Team_Model.dist_ok): the iteration space is not covered
    exactly once by every team that may run it.  The witness environment comes from the model (c15_dist_max_refuted /
    c15_dist_orphan_refuted: a team smaller than omp_get_max_threads(); a caller's team of more than one thread); it is
    realised on the implementation by the execution contexts of the harness."""
    d = rg.get("dist") or ["DUnknown"]
    name = rg["name"]
    if d[0] == "DWorkshare" and not d[1]:
        why = ("%s: %s — one call of the routine from a thread of an application's parallel region executes only that "
               "thread's share of the loop (model: c15_dist_orphan_refuted; e.g. a caller's team of 3, static schedule, 5 "
               "iterations: thread 0 runs 0 and 3, iterations 1 2 4 of ITS data are never executed)" % (name, desc.get("dist_what")))
    elif d[0] == "DCyclic":
        st = d[2][0]
        if d[1] != "FirstTid":
            why = "%s: %s — the first iteration of a thread is not its thread number inside the region" % (name, desc.get("dist_what"))
        elif st == "SrcMaxThreads":
            why = ("%s: %s — whenever the team that runs the region is smaller than omp_get_max_threads() (the routine called "
                   "from inside an application's parallel region with nested parallelism off: team of 1; OMP_THREAD_LIMIT below "
                   "OMP_NUM_THREADS; OMP_DYNAMIC) the iterations i with i mod max >= team are executed by NO thread and their "
                   "rows keep whatever memory held (model: c15_dist_max_refuted, c15_region_team_partial; e.g. max = 4, team = 1, "
                   "5 rows: rows 1 2 3 are never written)" % (name, desc.get("dist_what")))
        else:
            why = ("%s: %s — the stride is not the size of the team that runs the region (omp_get_num_threads() evaluated "
                   "inside it): iterations are lost or executed twice when the two differ" % (name, desc.get("dist_what")))
    else:
        why = "%s: a parallel region whose distribution of the iterations to the threads is not recognised (%s)" % (
            name, desc.get("dist_what") or "no worksharing loop, no cyclic hand-made schedule")
    cases = witness_cases(ctx, name, ctx.quick, desc)
    if not cases:
        hit = api_search(ctx, desc, stats)
        if hit is not None:
            ctx.violation(hit[0], why + " — confirmed through the public API: " + hit[1])
            return True
        ctx.unshown(why + " — no region-level driver; not confirmed on the implementation")
        return False
    for env in (None, LIMIT_ENV):
        combos = TEAM_COMBOS if env is None else LIMIT_COMBOS
        res = run_cases(ctx, exe, cases, combos, timeout=600, env=env)
        before = len(ctx._violations)
        stats["search_runs"] = stats.get("search_runs", 0) + judge(ctx, cases, res, combos, stats, env=env)
        if len(ctx._violations) > before:
            case, observed = ctx._violations[-1][0], ctx._violations[-1][1]
            if ctx.violation({"kind": "team", "region": name, "dist": d, "case": case, "combos": combos, "env": env},
                             why + " — confirmed: " + str(observed)[:600]):
                ctx._violations.insert(0, ctx._violations.pop())      # the explanation first (vlib prints the first five)
            return True
    ctx.unshown(why + " — not confirmed on the implementation (every execution context gave the serial result)")
    return False


def search(ctx, exe, det, tr, stats):
    """an obligation failed: find a concrete failing configuration and confirm it on the implementation"""
    found = False
    combos = ["1:1:0", "2:2:1", "3:2:1", "8:2:1", "16:2:1", "8:1:1", "16:1:1", "4:2:1", "8:3:0", "16:3:0"]
    texe = None
    for i, rg in enumerate(det.get("regions", [])):
        if rg["shared_ok"] and not rg["stale"] and not rg.get("dist_ok", True):
            found = team_search(ctx, exe, rg, tr["regions"][i], stats) or found
            continue
        if rg["shared_ok"] and not rg["stale"]:
            continue
        desc = tr["regions"][i]
        w = rg["witness"]
        cases = witness_cases(ctx, rg["name"], ctx.quick, desc)
        why = None
        definite = False
        if w is not None:
            accs = [a for a in desc["shared"] if a["var"] == w["var"]]
            opaque = [a for a in accs if a["kind"] == "AOpaque"]
            definite = (not opaque) and all(a.get("exact") for a in accs if not a["crit"]) and w["v1"] >= 0
            uncrit_append = [a for a in accs if a["kind"] == "AAppend" and not a["crit"]]
            if uncrit_append:
                definite = True
                why = ("%s: shared container `%s` is appended to outside any critical section (line %d): every two "
                       "iterations, e.g. %d and %d on different threads, race on it" % (
                           rg["name"], w["var"], uncrit_append[0]["line"], w["i"], w["i2"]))
            elif [a for a in accs if a["kind"] == "AEscape"]:
                esc = [a for a in accs if a["kind"] == "AEscape"][0]
                why = ("%s: %s (line %d) — every iteration that is between obtaining the iterator and its last write when another "
                       "iteration makes the container grow writes into the freed buffer, and the reallocating copy reads cells that "
                       "are being written: a data race and lost / corrupted elements as soon as the container outgrows its capacity "
                       "(model: c15_claim_fill_capped_refuted; safe only if the full size was reserved: c15_claim_fill_reserved)" % (
                           rg["name"], esc["what"], esc["line"]))
            elif opaque:
                why = ("%s: access to shared `%s` that the footprint analysis cannot bound (%s, line %d)" % (
                    rg["name"], w["var"], opaque[0]["what"], opaque[0]["line"]))
            else:
                lines = sorted({a["line"] for a in accs if a["write"]})
                why = ("%s: iterations %d and %d of the work-shared loop both touch %s(%d,%d), at least one writing, "
                       "outside any critical section (source lines %s): a data race whenever they run on different "
                       "threads" % (rg["name"], w["i"], w["i2"], w["var"], w["v1"], w["v2"], lines))
        elif rg["stale"]:
            why = ("%s: thread-private %s is read before it is re-initialised in the loop body: the result depends on "
                   "which iteration the same thread ran before" % (rg["name"], ", ".join(rg["stale"])))
        # confirmation on the implementation
        observed = None
        if not cases and why is not None:
            # a region in code the region table does not know: no region-level driver exists; run the public-API
            # methods that reach it, at sizes on both sides of the thresholds of its `if` clause
            hit = api_search(ctx, desc, stats)
            if hit is not None:
                ctx.violation(hit[0], why + " — confirmed through the public API: " + hit[1])
                found = True
                continue
        if cases:
            for rep in range(3 if ctx.quick else 10):
                res = run_cases(ctx, exe, cases, combos, timeout=600)
                before = len(ctx._violations)
                stats["search_runs"] = stats.get("search_runs", 0) + judge(ctx, cases, res, combos, stats)
                if len(ctx._violations) > before:
                    observed = ctx._violations[-1][1]
                    break
            if observed is None and (definite or not ctx.quick or True):
                texe = texe or tsan_build(ctx)
                if texe:
                    # static schedules first: every thread must then run its share of the iterations, so the
                    # happens-before analysis sees both accesses whatever the timing (under load one thread can
                    # grab every iteration of a small dynamic loop)
                    races = tsan_races(ctx, texe, cases[:2], ["4:1:0", "8:1:1", "4:2:1"])
                    stats["tsan_search_runs"] = stats.get("tsan_search_runs", 0) + 1
                    if races:
                        observed = "ThreadSanitizer+Archer: " + races[0][1]
        if observed is None and cases and why is not None and not definite:
            # wave 4: the small cases behave — go after the sizes at which the flagged function changes behaviour
            if threshold_search(ctx, exe, texe, rg, desc, why, stats):
                found = True
                continue
        if observed is not None and why is not None:
            # the violation recorded by judge() (if any) already carries the failing input; add the explanation
            if not ctx.has_violation() or "ThreadSanitizer" in observed:
                ctx.violation({"kind": "witness", "region": rg["name"], "witness": w, "stale": rg["stale"],
                               "case": cases[0] if cases else None, "combos": combos},
                              why + " — confirmed: " + observed[:600])
            found = True
        elif definite and why is not None:
            ctx.violation({"kind": "witness", "region": rg["name"], "witness": w, "stale": rg["stale"],
                           "case": cases[0] if cases else None, "combos": combos,
                           "schedule": "any assignment that gives iterations %d and %d to different threads, e.g. "
                                       "OMP_NUM_THREADS=2 OMP_SCHEDULE=static,1" % (w["i"], w["i2"])},
                          why + " (the overlap follows from the loop bounds and index expressions in the source; "
                                "the differential runs did not show a different result: the racing writes may store "
                                "equal values)")
            found = True
        elif why is not None:
            ctx.unshown(why + " — not confirmed on the implementation")
    # HLLE columns
    oks = det.get("hlle_ok_by_d", [])
    if det.get("regions") is not None and (not det.get("hlle_found", False) or "false" in oks):
        bad_d = [j + 1 for j, v in enumerate(oks) if v == "false"]
        if bad_d:
            d = bad_d[0]
            dp = d * (d + 1) // 2
            k = 1 + d + dp
            cases = [{"kind": "run", "id": 9500 + q, "region": "hlle", "N": N, "k": min(N - 1, k + 2), "d": d, "L": 4,
                      "dim": 4, "seed": 99 + q, "int": 0} for q, N in enumerate((k + 6, 3 * k + 10))]
            res = run_cases(ctx, exe, cases, combos, timeout=600)
            before = len(ctx._violations)
            stats["search_runs"] = stats.get("search_runs", 0) + judge(ctx, cases, res, combos, stats)
            if len(ctx._violations) > before:
                found = True
                ctx.note("HLLE column model: at target_dimension=%d the columns written are %s" % (
                    d, det.get("hlle_written", "")[:200]))
            else:
                ctx.unshown("HLLE: the extracted column bookkeeping does not cover columns 1+d..d+dp exactly at "
                            "d=%d (model), but the implementation showed no difference" % d)
        else:
            ctx.unshown("HLLE: the column bookkeeping extracted from hessian_weight_matrix no longer has the proved "
                        "form (covers d=1..6 in the model)")
    return found


# ----------------------------------------------------------------------------- entry points
def build_harness(ctx):
    # quick tier: -O0 -g1 halves the build time of the Eigen-heavy TU (the cases are small); the later flags win
    return ctx.cpp("harness/c15.cpp", defines=["nowait=schedule(runtime) nowait"],
                   extra=["-I", os.path.join(ctx.repo, "src")] + (["-O0", "-g1"] if ctx.quick else []))


def run(ctx):
    quick = ctx.quick
    stats = {}
    # the C++ build (about a minute) runs while Coq checks the proofs
    import threading
    built = {}

    def _build():
        try:
            built["exe"] = build_harness(ctx)
        except Exception as ex:      # re-raised in the main thread
            built["err"] = ex
    th = threading.Thread(target=_build)
    th.start()
    # independent reading of the regions through clang's AST, compared with the translator's (20 s, own thread)
    xcheck = {}

    def _xcheck():
        try:
            xcheck["diff"] = t_omp_ast.compare(ctx.repo)
        except Exception as ex:
            xcheck["skipped"] = repr(ex)[:300]
    th2 = threading.Thread(target=_xcheck)
    th2.start()
    coq = ctx.coq()
    stats["t_coq_s"] = round(ctx.elapsed(), 1)
    tr, text, err = regenerate(ctx)
    committed = ""
    try:
        committed = open(os.path.join(vlib.COQ, "gen", "Omp.v")).read()
    except OSError:
        pass
    table_ok, det = True, {}
    if err:
        ctx.unshown(err)
        table_ok = False
    elif vlib._strip_coq_comments(text) != vlib._strip_coq_comments(committed) or not coq.ok:
        stats["table_differs_from_committed"] = vlib._strip_coq_comments(text) != vlib._strip_coq_comments(committed)
        if coq.ok or os.path.exists(os.path.join(vlib.COQ, "Par_Region_Proof.vo")):
            table_ok, det = check_current_table(ctx, tr, text)
            if table_ok:
                ctx.note("regenerated descriptor table differs from coq/gen/Omp.v but satisfies the same obligations")
            elif "error" in det:
                ctx.unshown(det["error"])
        else:
            table_ok = False
    combos = COMBOS_QUICK if quick else COMBOS_THOROUGH
    th.join()
    th2.join()
    if xcheck.get("diff"):
        ctx.unshown("the source-level translator and clang's AST read the OpenMP regions differently: "
                    + " || ".join(xcheck["diff"])[:900])
    stats["clang_ast_cross_check"] = ("agree" if xcheck.get("diff") == [] else
                                      ("skipped: " + xcheck["skipped"]) if "skipped" in xcheck else "DISAGREE")
    if "err" in built:
        raise built["err"]
    exe = built["exe"]
    stats["t_build_done_s"] = round(ctx.elapsed(), 1)
    cases = []
    hist = {"corpus": 0}
    for name, c in ctx.corpus():
        if c.get("kind", "run") == "run":
            cc = dict(c, id=8000 + len(cases), kind="run")
            cases.append(cc)
            hist["corpus"] += 1
    cases += gen_cases(ctx, quick)
    res = run_cases(ctx, exe, cases, combos, timeout=1500 if not quick else 300)
    n_eval = judge(ctx, cases, res, combos, stats)
    # the same cases in a process that starts under a thread limit below the thread count it asks for
    lim_cases = [dict(c, id=20000 + c["id"]) for c in cases if c["region"] not in ITER]
    if quick:
        lim_cases = [c for c in lim_cases if c["N"] <= 33]
    res_lim = run_cases(ctx, exe, lim_cases, LIMIT_COMBOS, timeout=900 if not quick else 300, env=LIMIT_ENV)
    n_eval += judge(ctx, lim_cases, res_lim, LIMIT_COMBOS, stats, env=LIMIT_ENV)
    res.update(res_lim)
    stats["thread_limit_cases"] = len(lim_cases)
    large = large_cases(ctx, quick)
    # generous timeout: if the library stopped logging progress lines the t-SNE cases run all 1000 iterations
    # (about 80 s per combination in the quick build) instead of 51 — slow, but not a hang
    res_l = run_cases(ctx, exe, large, LARGE_COMBOS, timeout=1800 if not quick else 900)
    n_eval += judge(ctx, large, res_l, LARGE_COMBOS, stats)
    res.update(res_l)
    cases += large
    hist["large"] = len(large)
    stats["t_runs_done_s"] = round(ctx.elapsed(), 1)
    if not table_ok and tr is not None and det.get("regions") is not None:
        search(ctx, exe, det, tr, stats)
        if not ctx.has_violation() and not ctx._unshown:
            ctx.unshown("obligations on the regenerated region table no longer check: " + det.get("obligation_error", "")[:600])
    elif not table_ok and not ctx._unshown:
        ctx.unshown("obligations on the regenerated region table could not be evaluated: "
                    + str(det.get("search_error", det.get("obligation_error", "")))[:600])
    n_embed = 0
    if not quick and not ctx.has_violation():
        n_embed = embed_runs(ctx, stats)
        stats["translator_self_test_ok"] = bool(t_omp.self_test(ctx.repo, quiet=True))
        if not stats["translator_self_test_ok"]:
            ctx.unshown("translator self-test: a seeded mutation of the source did not change the translator's output")
    tsan = {"available": False}
    if not quick and not ctx.has_violation():
        texe = tsan_build(ctx)
        if texe:
            tsan["available"] = True
            tcases = [c for c in cases if c["N"] in (17, 33)][:20]
            races = tsan_races(ctx, texe, tcases, ["4:2:1", "8:1:1", "3:1:0"])
            tsan["cases"] = len(tcases)
            tsan["races"] = len(races)
            for c, rep in races[:3]:
                ctx.violation(dict(c, combos=["4:2:1", "8:1:1", "3:1:0"], tsan=True),
                              "ThreadSanitizer+Archer (clang/libomp build) reports a data race inside tapkee: " + rep)
    for k_ in list(stats):
        if k_.startswith("teams_granted"):
            stats[k_] = {a: sorted(b) for a, b in sorted(stats[k_].items())}
    if "_asg" in stats:
        stats["distinct_iteration_to_thread_maps_observed (varies from run to run: dynamic schedules)"] = len(stats.pop("_asg"))
    for c in cases:
        hist[c["region"]] = hist.get(c["region"], 0) + 1
    sizes = {}
    for c in cases:
        sizes[str(c["N"])] = sizes.get(str(c["N"]), 0) + 1
    distinct = {hashlib.sha1(json.dumps([c[k] for k in ("region", "N", "k", "d", "L", "dim", "seed", "int")]).encode()).hexdigest()
                for c in cases if c["N"] >= 3 and res[c["id"]]["ended"]}
    ctx.finish(
        evaluations=n_eval + n_embed + stats.get("search_runs", 0), distinct_nontrivial=len(distinct),
        rule="one evaluation = one execution of one OpenMP region under one (threads, schedule kind, chunk) "
             "combination, compared entrywise with the single-threaded execution of the same input (dense results: "
             "bit-identical; sparse weight matrices: max abs diff <= 1e-10 x largest entry); case counts are fixed by "
             "the tier; non-trivial = N >= 3; distinct by hash of the case parameters; a combination with an execution "
             "context (called from inside an outer parallel region of 3 threads with nested parallelism off / on: three data "
             "sets, one per outer thread; omp_set_dynamic(1); the second invocation under OMP_THREAD_LIMIT=2 OMP_NUM_THREADS=4) "
             "counts as one evaluation too",
        samples=[{k: c[k] for k in ("region", "N", "k", "d", "L", "dim", "seed", "int")} for c in cases[:3] + cases[-3:]],
        histogram={"regions": hist, "N": sizes, "combinations(threads:kind:chunk[:context])": combos,
                   "contexts": {str(k): v for k, v in CONTEXT_NAMES.items()},
                   "thread_limit_invocation": {"env": LIMIT_ENV, "combinations": LIMIT_COMBOS}, "stats": stats,
                   "translator": {"regions_found": [r["name"] for r in tr["regions"]] if tr else [],
                                  "table_equals_committed": (vlib._strip_coq_comments(text) == vlib._strip_coq_comments(committed)) if text else False,
                                  "hlle_exprs_found": bool(tr and tr["hlle"])},
                   "tsan_archer": tsan},
        trusted_base=TRUSTED,
        assumptions=["callbacks passed to tapkee are reentrant (no shared mutable state)",
                     "the OpenMP runtime executes every iteration of a worksharing loop exactly once on the team the construct "
                     "binds to (hypothesis valid_asg (e_sched e) of c15_dist_ok_valid)",
                     "inputs finite; k < N; HLLE cases use k >= 1 + d + d(d+1)/2",
                     "the schedule kinds exercised are those libgomp offers (static, dynamic, guided with chunks); "
                     "the theorem quantifies over all assignments and interleavings of the model"],
        extra={"regions_in_source": len(tr["regions"]) if tr else 0})


def replay(ctx, case):
    kind = case.get("kind", "run")
    stats = {}
    if kind == "embed":
        embed_runs(ctx, stats, only=case)
        print("worst relative difference from the single-threaded run: %s" % stats.get("embed_worst_relative_difference"))
        print("replay: property C15 %s on this input" % ("FAILS" if ctx.has_violation() else "holds"))
        return 1 if ctx.has_violation() else 0
    if kind == "team":
        inner = case.get("case") or {}
        print("region %s: distribution descriptor %s (rejected by Par_Team_Model.dist_ok)" % (case.get("region"), case.get("dist")))
        case = dict(inner, combos=case.get("combos", TEAM_COMBOS), env=case.get("env"))
        kind = "run"
    if kind == "run" and "region" not in case:
        print("replay: unknown case format")
        return 2
    if kind == "witness":
        tr, text, err = regenerate(ctx)
        if err:
            print("replay: translator fails on this tree: " + err)
            return 1
        ctx.coq()
        ok, det = check_current_table(ctx, tr, text)
        for rg in det.get("regions", []):
            if not rg["shared_ok"] or rg["stale"]:
                print("region %s: shared footprints %s, witness %s, stale private %s" % (
                    rg["name"], "accepted" if rg["shared_ok"] else "REJECTED", rg["witness"], rg["stale"]))
        print("HLLE column model ok for d=1..6: %s" % det.get("hlle_ok_by_d"))
        inner = case.get("case")
        rc = 0 if ok else 1
        if inner:
            exe = build_harness(ctx)
            combos = case.get("combos", COMBOS_QUICK)
            res = run_cases(ctx, exe, [inner], combos)
            judge(ctx, [inner], res, combos, stats)
            for row in res[inner["id"]]["rows"]:
                print("threads=%d kind=%d chunk=%d hash=%s maxdiff=%.3g" % (row["t"], row["k"], row["c"], row["hash"], row["maxd"]))
            if ctx.has_violation():
                rc = 1
        print("replay: property C15 %s on this tree" % ("FAILS" if rc else "holds"))
        return rc
    exe = build_harness(ctx)
    combos = case.get("combos", COMBOS_QUICK)
    env = case.get("env") or None
    c = dict(case, id=case.get("id", 1))
    c.pop("env", None)
    res = run_cases(ctx, exe, [c], combos, env=env)
    judge(ctx, [c], res, combos, stats, env=env)
    r = res[c["id"]]
    if env:
        print("environment: %s" % env)
    for row in r["rows"]:
        print("threads=%d kind=%d chunk=%d context=%d team=%s hash=%s maxdiff=%.3g" % (
            row["t"], row["k"], row["c"], row.get("m", 0), row.get("team"), row["hash"], row["maxd"]))
    for d in r["diffs"][:6]:
        print("  differs: " + d)
    if r["crash"]:
        print("CRASH: " + str(r["crash"])[:1500])
    if case.get("tsan"):
        texe = tsan_build(ctx)
        if texe:
            for cc, rep in tsan_races(ctx, texe, [c], combos, strict=bool(case.get("tsan_strict"))):
                print("TSAN: " + rep)
                ctx.violation(c, rep)
    if ctx.has_violation():
        print("replay: property C15 FAILS on this input")
        return 1
    print("replay: property C15 holds on this input")
    return 0
