"""C06 — PCA projects onto the leading principal subspace of the sample covariance.

proof  : coq/Pca_Model.v (compute_mean / compute_covariance_matrix with the triangle semantics of DESIGN
         1.4, what the dense and the randomized front-end see, embed()), coq/Pca_Spec.v, Pca_Proof*.v,
         Spectral_KyFan.v (Ky Fan's inequality, every ordered field), Properties_C06.v.
tie    : T  translate/t_eig.py regenerates coq/gen/EigSelect.v (which eigenpairs the front-ends select) and
            translate/t_pca.py regenerates coq/gen/PcaEmbed.v (the statement chain of PCA's embed(), locals
            alpha-renamed; obligation Pca_Tie.pca_embed_chain);
         C  harness/c06.cpp against <repo>/include:
            (i)   exact stream: compute_mean + compute_covariance_matrix on dyadic data with N a power of
                  two; the matrix exactly as returned (both triangles) is compared with the extracted Qc
                  model, and the extracted decision procedures check that what the dense front-end sees
                  ((M+M^T)/2, lower triangle) and what the randomized one sees (upper triangle) IS the
                  sample covariance (tol = 0);
            (ii)  oracle contracts on every probe: Eigen::SelfAdjointEigenSolver reads the lower triangle,
                  ascending, orthonormal; DenseMatrixOperation multiplies by the upper-triangle view;
                  tapkee's dense / randomized front-ends decompose what the model says they see.  A probe that
                  fits ANOTHER recognised triangle view is recorded, not alarmed on (after F8 the matrix handed
                  over is symmetric in every entry, so the view is immaterial); one that fits none is a mismatch;
            (iii) embed() of the implementation classes (as the dispatcher instantiates them): P and the mean are read back from the returned projection; decision
                  procedures on the implementation's own outputs: P^T P = I, C P = P diag(top-d reference
                  eigenvalues) for the EXACT rational covariance C of the model, embedding = (X - mean) P,
                  Y^T Y / N = diag(lambda), retained variance = sum of the d largest eigenvalues and not
                  exceeded by random orthonormal competitors (test); both solvers (randomized on exact
                  rank-d data); PCA / Kernel PCA (linear) / MDS (Euclidean) agree up to column sign (test).
         Wave 2 — "all feature matrices": every stream is also run
            * as SCALED COPIES (data * 2^k, k in [-60, 60]; probes: matrix * 2^k).  The pipeline is scale-equivariant
              (theorems C06_scale_equivariant / C06_scale_uncorrelated_retained): the implementation's outputs on
              2^k X are brought back by the exact factors 2^-k (mean, embedding) and 2^-2k (covariance,
              eigenvalues) and must then pass the SAME decision procedures with the SAME tolerances as at scale 1;
              the exact covariance stream stays exact (tol 0) at every scale;
            * at BOUNDARY SIZES (N in 255, 256, 257, 512; D in 8, 9, 16, 17 on the covariance loop) and SHAPES
              (D = 1, D > N, N = 2, a zero-variance feature, a feature that is identically zero).
         Wave 3 — data with a large common OFFSET relative to its spread (offset / spread 2^20 ~ 1e6, 2^30 ~ 1e9,
            2^40 ~ 1e12, and mixed per-feature offsets) on the covariance streams and through PCA.  Every output of
            PCA is offset-invariant (theorem C06_offset_invariant), so "is the sample covariance / the principal
            subspace to rounding error" is judged RELATIVE TO THE SPREAD about the mean, never to |x|:
            covariance entries within 8 (N + 4) 2^-53 * max_ab 1/N sum_i |x_ia - m_a| |x_ib - m_b| (the forward-error
            bound of accumulating centred outer products) plus the square of the rounding error of the computed mean
            ((N + 1) 2^-53 max|x|; zero on the exact stream), PCA in natural units of the exact covariance.  On the
            exact stream (dyadic grid, N a power of two: the mean, x - mean, every product and every partial sum are
            exactly representable) the centred accumulation of the current code (fix F49) is still EXACT == model,
            whereas the expanded form E[x x^T] - mean mean^T (equal over every exact field: theorem
            C06_cov_centred_and_expanded) forms x_a x_b ~ 2^80 and loses everything.
         Wave 4 — WIDE DYNAMIC RANGE inside one problem, and a verdict at the accuracy binary64 delivers.
            * Every PCA(dense) call is judged at eta = D 8 (N + 4) u S + 32 D^2 u max|C| + D delta^2 (natural units:
              max|C| in [1, 4); u = 2^-53; S = max_ab 1/N sum_i |x_ia - m_a| |x_ib - m_b|; delta = (N + 1) u max|x| the
              rounding error of the computed mean): the forward error of accumulating the centred outer products plus
              the backward error of a stable symmetric eigensolver (tridiagonalisation + implicit QR) with a generous
              polynomial 32 D^2.  Waves 1-3 used a flat 1e-9, i.e. 1e7 unit roundoffs: blind to a solver with absolute
              accuracy 1e-9 |C|, which mixes principal directions whose variances are both below 1e-9 of the largest.
              The residual of the shipped code as a fraction of eta is measured on every run (evidence:
              worst_dense_residual_as_fraction_of_eta; 0.02 .. 0.04 on HEAD: a margin of 25 .. 50).
            * RELATIVE per-eigenpair criterion (D <= 6): the kept variance of column c, rho_c = p_c^T C p_c / p_c^T p_c
              with C the EXACT rational covariance of the data, against the eigenvalue lambda certified by exact inertia
              counts (signs of the leading principal minors of C - x I, fraction-free elimination over the integers,
              bisection): |rho_c - lambda| <= sum_j min(|lambda_j - lambda|, eta^2 / |lambda_j - lambda|).  That is what
              follows from a residual |C p - lambda p| <= eta (p = sum a_j v_j: a_j (lambda_j - lambda) = v_j^T (C p -
              lambda p), rho - lambda = sum_j (lambda_j - lambda) a_j^2): relative accuracy eta^2 / (gap lambda) where
              the spectrum is separated by much more than eta, absolute eta where it is not — no more is demanded than a
              covariance-based PCA in binary64 can give (variances below ~1e-13 of the largest are not resolved and are
              not required to be).  With orthonormal columns, rho_c = lambda_(c) for every column forces the columns to BE
              the leading eigenvectors (sum = Ky Fan maximum, and a symmetric matrix whose diagonal equals its spectrum is
              diagonal): kept variance, leak of a dropped direction and uncorrelatedness are one test.
            * generators: principal standard deviations 1 > s_1 > ... with one WIDE ratio (1e-4, 3e-5, 1e-5, 1e-6, 1e-7)
              after the g-th direction for every g, mild ratios (1/3, 1/10) elsewhere (thorough: a second wide ratio), at
              EVERY D in 2..5, target dimension d = g (boundary at the gap) and d = g + 1 (boundary INSIDE the block of
              tiny variances), random orthonormal frame or coordinate axes, N in 8..33, arbitrary doubles, + scaled copies.
search : when an obligation or the correspondence breaks, a larger budget of strongly correlated data sets
         is run through the same decision procedures.
"""
import hashlib
import json
import math
import os
import sys
from fractions import Fraction

import vlib
from checks.c07 import (crash_text, fr_hex, parse_fr, hexfloat, flat, mat_of, scale_tol, maxabs, gen_matrix, dyadic,
                        case_json, run_model_lines, OFFSET_EXPS, offset_plan, offset_style, is_offset_style,
                        UNIT_ROUNDOFF)

PROPERTY = "C06"

TRUSTED = [
    "hand-written model Pca_Model.v tied by exact differential testing of compute_mean + "
    "compute_covariance_matrix (both triangles of the returned matrix) and by probes of what each solver "
    "front-end reads (not a proof about the C++ text)",
    "eigen-solver oracle: Eigen::SelfAdjointEigenSolver is assumed to return an orthonormal eigenbasis of the "
    "LOWER triangle, ascending (DESIGN 1.3); validated on every probe and on every public-API call by the "
    "residual / orthonormality decision procedure (dense: tolerance eta = D 8 (N + 4) u S + 32 D^2 u max|C| + D delta^2 in "
    "natural units, a few hundred to a few thousand unit roundoffs; 1e-6 relative for the randomized solver); the "
    "polynomial 32 D^2 for Eigen's symmetric QR and the accumulation bound are standard numerical analysis, not "
    "formalised; the shipped code uses 2 .. 4 percent of eta (measured on every run)",
    "relative per-eigenpair criterion: exact rational arithmetic in Python (Fractions / integers): inertia counts by "
    "fraction-free elimination, bisection, Rayleigh quotients; the perturbation identity behind the tolerance "
    "sum_j min(gap_j, eta^2 / gap_j) is elementary linear algebra, stated in the module docstring, not formalised in Coq",
    "reference eigenvalues (Eigen, through harness/c06.cpp EIG, on the model's exact covariance rounded to "
    "binary64) decide WHICH eigenvalues are the d largest",
    "translate/t_eig.py (selection expressions of the solver front-ends, owned by C05) -> coq/gen/EigSelect.v; "
    "translate/t_pca.py (statement chain of PCA's embed(), regular expressions, self-test with 6 mutations + a "
    "harmless rename) -> coq/gen/PcaEmbed.v",
    "extraction (ExtrOcamlBasic only) + OCaml 4.13.1 + coq/extract/c06_driver.ml (parsing/printing of rationals)",
    "harness/c06.cpp + harness/spectral_common.hpp (hex-float transport); PCA / Kernel PCA / MDS are run by "
    "instantiating X##Implementation(ImplementationBase(...)).validate(); .embed() directly (the body of the "
    "dispatcher macro) to keep the build within budget; the dispatch through tapkee::embed is exercised by C07",
    "IEEE rounding: exact only on the dyadic covariance stream; everything downstream of the eigen solver is "
    "checked by exact rational decision procedures with a tolerance (tolerance stream)",
    "uniqueness of eigenvectors up to sign for simple eigenvalues (PCA = KPCA = MDS up to sign) is classical "
    "mathematics, cited; the agreement is tested, not proved",
    "g++ ASan/UBSan/_GLIBCXX_ASSERTIONS as the memory-safety observer",
    "large-offset data: the tolerance is the standard forward-error bound of accumulating centred outer products in "
    "binary64, relative to the spread about the mean, plus the square of the bound (N + 1) 2^-53 max|x| on the error "
    "of the computed mean; the rounding model behind it is not formalised (theorem C06_offset_invariant is what makes "
    "the spread the right yardstick)",
    "scaled copies: outputs of a run on 2^k X are multiplied by the exact factors 2^-k / 2^-2k in Python (Fraction "
    "arithmetic) before the decision procedures run; justified by theorem C06_scale_equivariant",
]

TOL_DENSE = Fraction(1, 10 ** 9)
TOL_RAND = Fraction(1, 10 ** 6)


# ----------------------------------------------------------------------------- generators
def gen_correlated(rng, N, D, exact):
    """non-zero mean, strongly correlated features: x = mean + A z, z with very different scales"""
    mean = [Fraction(rng.randint(-50, 50)) for _ in range(D)]
    A = [[Fraction(rng.randint(-3, 3)) for _ in range(D)] for _ in range(D)]
    for i in range(D):
        A[i][i] += 4
    scales = [Fraction(1, 1 << rng.randint(0, 3)) for _ in range(D)]
    X = []
    for _ in range(N):
        if exact:
            z = [Fraction(rng.randint(-8, 8)) * scales[t] for t in range(D)]
        else:
            z = [Fraction(rng.gauss(0, 1)) * scales[t] for t in range(D)]
        x = [mean[i] + sum(A[i][t] * z[t] for t in range(D)) for i in range(D)]
        X.append([Fraction(float(v)) for v in x])
    return X


def affine_rank(X):
    """exact rank of the centred data (Gaussian elimination over the rationals on x_i - x_0)"""
    rows = [[v - w for v, w in zip(row, X[0])] for row in X[1:]]
    rank, col, D = 0, 0, len(X[0])
    while rows and col < D:
        piv = next((r for r in rows if r[col] != 0), None)
        if piv is None:
            col += 1
            continue
        rows.remove(piv)
        rows = [[v - piv[t] * (r[col] / piv[col]) for t, v in enumerate(r)] for r in rows]
        rows = [r for r in rows if any(v != 0 for v in r)]
        rank += 1
        col += 1
    return rank


def gen_rank(rng, N, D, r):
    """exact rank r (affine) data with integer coordinates: x = mean + sum_{q<r} a_q b_q.  The rank is checked exactly
    (random integer directions can be dependent: rank < target_dimension is known finding F36, outside C06's quantifier)"""
    while True:
        mean = [Fraction(rng.randint(-20, 20)) for _ in range(D)]
        B = [[Fraction(rng.randint(-4, 4)) for _ in range(D)] for _ in range(r)]
        X = []
        for _ in range(N):
            a = [Fraction(rng.randint(-6, 6)) for _ in range(r)]
            X.append([mean[i] + sum(a[q] * B[q][i] for q in range(r)) for i in range(D)])
        if affine_rank(X) == min(r, D, N - 1):
            return X


def gen_rank_wide(rng, N, D, r):
    """exact rank r integer data whose retained variances spread over up to 6 decades (principal standard deviations
    1 : 32 : 1024, features 'in mixed units')"""
    while True:
        mean = [Fraction(rng.randint(-20, 20)) for _ in range(D)]
        B = [[Fraction(rng.randint(-4, 4)) for _ in range(D)] for _ in range(r)]
        w = [Fraction(1), Fraction(32), Fraction(1024)]
        rng.shuffle(w)
        X = []
        for _ in range(N):
            a = [Fraction(rng.randint(-6, 6)) * w[q % 3] for q in range(r)]
            X.append([mean[i] + sum(a[q] * B[q][i] for q in range(r)) for i in range(D)])
        if affine_rank(X) == min(r, D, N - 1):
            return X


def gen_offset_data(rng, N, D, kind, exact, n_head=3):
    """x = offset + spread, spread correlated across features, |spread| <= 3/4.
    exact: every coordinate on a dyadic grid fine enough to be interesting and coarse enough that, with N = 2^n
    (n <= n_head) samples, the sums for the mean, the mean itself, x - mean, the products of two centred
    coordinates and their partial sums are all exactly representable in binary64:
       grid 2^-g, g = min(17, 49 - n_head - E) - 1;  |x| < 2^(E+3): E + 3 + g + n <= 52;
       centred coordinates on the grid 2^-(g+n), |.| <= 2; products on 2^-(2g+2n), partial sums below 2^(2+n):
       2 g + 3 n + 3 <= 53.
    not exact: arbitrary doubles around the same offsets."""
    plan = offset_plan(rng, D, kind)
    exps = [e for _, e in plan if e is not None]
    g = min([17] + [49 - n_head - e for e in exps]) - 1
    X = []
    for _ in range(N):
        if exact:
            z = [Fraction(rng.randint(-(1 << (g - 1)), 1 << (g - 1)), 1 << g) for _ in range(D)]     # [-1/2, 1/2]
            sp = [z[0]] + [z[t] + z[0] / 2 for t in range(1, D)]                                      # grid 2^-(g+1)
            X.append([plan[t][0] + sp[t] for t in range(D)])
        else:
            z = [rng.uniform(-0.5, 0.5) for _ in range(D)]
            sp = [z[0]] + [z[t] + z[0] / 2 for t in range(1, D)]
            X.append([Fraction(float(plan[t][0]) + sp[t]) for t in range(D)])
    return X


def gen_offset_cov(rng, n_exact, n_tol):
    cases = []
    kinds = OFFSET_EXPS + ["mixed"]
    for j in range(n_exact):
        kind = kinds[j % len(kinds)]
        D = rng.choice([1, 2, 3, 4])
        N = rng.choice([2, 4, 8])
        cases.append({"kind": "COV", "D": D, "N": N, "X": gen_offset_data(rng, N, D, kind, True),
                      "style": offset_style(kind), "exact": True})
    for j in range(n_tol):
        kind = kinds[j % len(kinds)]
        D = rng.choice([1, 2, 3, 5])
        N = rng.choice([3, 5, 7, 10, 25])
        cases.append({"kind": "COV", "D": D, "N": N, "X": gen_offset_data(rng, N, D, kind, False),
                      "style": offset_style(kind) + "-generic", "exact": False})
    return cases


def gen_offset_emb(rng, n):
    cases = []
    kinds = OFFSET_EXPS + ["mixed"]
    for j in range(n):
        kind = kinds[j % len(kinds)]
        exact = j % 2 == 0
        D = rng.choice([2, 3, 4])
        N = rng.choice([4, 8]) if exact else rng.choice([5, 7, 12, 20])
        d = rng.randint(1, max(1, min(D, N - 1)))
        cases.append({"kind": "EMB", "solver": "dense", "N": N, "D": D, "d": d,
                      "X": gen_offset_data(rng, N, D, kind, exact),
                      "style": offset_style(kind) + ("" if exact else "-generic"), "agree": False})
    return cases


# ----------------------------------------------------------------------------- wave 4: wide dynamic range
WIDE_RATIOS = [Fraction(1, 10 ** 4), Fraction(3, 10 ** 5), Fraction(1, 10 ** 5), Fraction(1, 10 ** 6), Fraction(1, 10 ** 7)]
MILD_RATIOS = [Fraction(1, 3), Fraction(1, 10)]


def wide_profile(rng, D, g, second=False, w=None):
    """principal standard deviations 1 = s_0 > s_1 > ... > s_(D-1): a WIDE ratio (1e-4, 3e-5, 1e-5, 1e-6 or 1e-7) between
    s_(g-1) and s_g, mild ratios (1/3, 1/10) elsewhere (`second`: one more wide ratio at a random place when the whole
    span stays >= 1e-7, i.e. variances down to 1e-14 of the largest).  Every principal variance is genuine and
    non-degenerate: none is 'numerically zero' in the relative sense, and the directions g .. D-1 are separated from
    each other by factors 9 .. 100 in variance although all of them are 1e-8 .. 1e-14 of the largest."""
    tries = 0
    while True:
        # the span condition below cannot always be met with a fixed wide ratio plus a second one (e.g. 3e-5 and
        # another <= 1e-4 at D = 3): after a bounded number of draws the second wide ratio, then the fixed one, is
        # given up, so the generator always terminates (the thorough tier used to spin here forever)
        tries += 1
        if tries > 60:
            second = False
        if tries > 200:
            w = None
        ratios = [rng.choice(MILD_RATIOS) for _ in range(D - 1)]
        ratios[g - 1] = w or rng.choice(WIDE_RATIOS)
        if second and D > 2:
            ratios[rng.choice([k for k in range(D - 1) if k != g - 1])] = rng.choice(WIDE_RATIOS[:3])
        s = [Fraction(1)]
        for r in ratios:
            s.append(s[-1] * r)
        if s[-1] >= Fraction(1, 10 ** 8):
            return s


def random_frame(rng, D):
    cols = []
    while len(cols) < D:
        v = [rng.gauss(0, 1) for _ in range(D)]
        for u in cols:
            t = sum(a * b for a, b in zip(u, v))
            v = [a - t * b for a, b in zip(v, u)]
        n = math.sqrt(sum(a * a for a in v))
        if n > 0.2:
            cols.append([a / n for a in v])
    return cols


def gen_wide_range(rng, N, D, g, axis_aligned=False, second=False, w=None):
    """x = offset + sum_k s_k z_ik q_k: a random orthonormal frame q (or the coordinate axes: features in mixed units),
    z uniform or Gaussian of unit variance, standard deviations s from wide_profile; arbitrary doubles"""
    s = [float(v) for v in wide_profile(rng, D, g, second, w)]
    q = [[1.0 if a == b else 0.0 for b in range(D)] for a in range(D)] if axis_aligned else random_frame(rng, D)
    rng.shuffle(q)
    off = [rng.choice([0.0, rng.uniform(-1, 1), rng.uniform(-1, 1)]) for _ in range(D)]
    gauss = rng.random() < 0.5
    X = []
    for _ in range(N):
        z = [rng.gauss(0, 1) if gauss else rng.uniform(-1, 1) * math.sqrt(3) for _ in range(D)]
        X.append([Fraction(off[t] + math.fsum(s[k] * z[k] * q[k][t] for k in range(D))) for t in range(D)])
    return X, s


def gen_wide_emb(rng, reps):
    """PCA(dense) on wide-dynamic-range data at EVERY small D (2, 3, 4, 5), the wide gap after the g-th principal
    direction for EVERY g, and the two target dimensions at which that matters: d = g (the kept / dropped boundary IS
    the wide gap) and d = g + 1 (the boundary lies INSIDE the block of tiny variances: the last kept and the first
    dropped direction both carry 1e-8 .. 1e-14 of the total variance, yet differ by a factor 9 .. 100)"""
    cases = []
    turn = 0
    for rep in range(reps):
        for D in (2, 3, 4, 5):
            for g in range(1, D):
                for d, w in ((g + 1, "cycle"), (g + 1, None), (g, None)):
                    if w == "cycle":         # 1e-4, 3e-5, 1e-5 in turn: ratios binary64 resolves comfortably
                        w = WIDE_RATIOS[turn % 3]
                        turn += 1
                    N = rng.choice([8, 12, 20, 33])
                    X, s = gen_wide_range(rng, N, D, g, axis_aligned=(rep % 4 == 3), second=(rep % 2 == 1), w=w)
                    cases.append({"kind": "EMB", "solver": "dense", "N": N, "D": D, "d": d, "X": X,
                                  "style": "wide-range", "sd_profile": ["%.0e" % v for v in s], "agree": False})
    return cases


def int_matrix(C):
    """C = Ci / q with Ci an integer matrix, q a positive integer"""
    q = 1
    for row in C:
        for v in row:
            q = q * v.denominator // math.gcd(q, v.denominator)
    return [[int(v * q) for v in row] for row in C], q


def eigs_below(Ci, q, x):
    """number of eigenvalues of the symmetric rational matrix Ci / q that are < x, EXACTLY: signs of the leading
    principal minors of (Ci / q - x I) (fraction-free Bareiss elimination over the integers; Sylvester / Sturm).
    None when a leading minor vanishes (the caller moves x)."""
    a, b = x.numerator, x.denominator
    n = len(Ci)
    A = [[Ci[i][j] * b - (a * q if i == j else 0) for j in range(n)] for i in range(n)]
    prev, neg, sign = 1, 0, 1
    for k in range(n):
        piv = A[k][k]
        if piv == 0:
            return None
        s2 = 1 if piv > 0 else -1
        if s2 != sign:
            neg += 1
        sign = s2
        for i in range(k + 1, n):
            Ai, aik = A[i], A[i][k]
            for j in range(k + 1, n):
                Ai[j] = (Ai[j] * piv - aik * A[k][j]) // prev
        prev = piv
    return neg


def count_below(Ci, q, x, nudge):
    for t in range(6):
        r = eigs_below(Ci, q, x + nudge * t)
        if r is not None:
            return r, x + nudge * t
    return None, x


def certified_spectrum(C, approx, w0, want_fn, maxsteps=90):
    """enclosures lo_i < lambda_i < hi_i (ascending, i < D) of ALL eigenvalues of the exact rational matrix C, certified
    by exact inertia counts; start: approx_i -+ w0 (doubled until the counts confirm it); the indices named by
    want_fn(enclosures) (dict index -> target width) are then bisected down to their target width.  None if it cannot be certified."""
    D = len(C)
    Ci, q = int_matrix(C)
    big = max(maxabs(C), Fraction(1, 2 ** 200))
    nudge = big / 2 ** 120
    enc = []
    for i in range(D):
        w = w0
        for _ in range(60):
            lo, hi = approx[i] - w, approx[i] + w
            cl, lo = count_below(Ci, q, lo, -nudge)
            ch, hi = count_below(Ci, q, hi, nudge)
            if cl is None or ch is None:
                return None
            if cl <= i and ch >= i + 1:
                break
            w *= 2
        else:
            return None
        enc.append([lo, hi])
    for i, width in want_fn(enc).items():
        lo, hi = enc[i]
        steps = 0
        while hi - lo > width and steps < maxsteps:
            mid = (lo + hi) / 2
            cm, mid = count_below(Ci, q, mid, nudge / 4)
            if cm is None:
                return None
            if cm >= i + 1:
                hi = mid
            else:
                lo = mid
            steps += 1
        enc[i] = [lo, hi]
    return enc


def eta_dense(c, Cm, Xn):
    """what binary64 delivers for PCA(dense), as a bound on the residual |C p - lambda p| of every returned pair against
    the EXACT covariance C of the data (natural units): the computed covariance is C + E with |E_ab| <= 8 (N + 4) u *
    1/N sum_i |x_ia - m_a| |x_ib - m_b| (accumulation of centred outer products) + the square of the rounding error of
    the computed mean; Eigen's tridiagonalisation + implicit QR is backward stable: exact for C_hat + F,
    |F| <= p(D) u |C_hat| with a modest p(D), taken as 32 D^2 here (generous: measured residuals are recorded in the
    evidence as a fraction of this bound)."""
    N, D = c["N"], c["D"]
    pow2 = N & (N - 1) == 0
    exact_mean = is_offset_style(c) and pow2 and not c["style"].endswith("-generic")
    return (D * 8 * (N + 4) * UNIT_ROUNDOFF * spread_scale(Xn) + 32 * D * D * UNIT_ROUNDOFF * maxabs(Cm)
            + D * mean_error_sq(Xn, exact_mean))


def gap_tolerance(enc, i, eta):
    """sum_j min(|lambda_j - lambda_i|, eta^2 / |lambda_j - lambda_i|) from the enclosures: if |C p - lambda_i p| <= eta
    for a unit vector p = sum_j a_j v_j then a_j (lambda_j - lambda_i) = v_j^T (C p - lambda_i p), so |a_j| <= eta /
    |lambda_j - lambda_i|, and the Rayleigh quotient is p^T C p - lambda_i = sum_j (lambda_j - lambda_i) a_j^2.
    Relative to lambda_i this is tiny wherever the spectrum is separated from lambda_i by much more than eta (the
    kept variance is then resolved to a RELATIVE accuracy eta^2 / (gap lambda_i)), and degrades to the absolute eta
    where it is not: exactly what a backward-stable symmetric eigensolver can promise."""
    lo_i, hi_i = enc[i]
    tol = Fraction(0)
    for j, (lo, hi) in enumerate(enc):
        if j == i:
            continue
        g_ub = max(hi - lo_i, hi_i - lo)
        g_lb = max(lo - hi_i, lo_i - hi, Fraction(0))
        tol += g_ub if g_lb <= eta else min(g_ub, eta * eta / g_lb)
    return tol


def kept_variance_relative(Cm, P, ev, order, eta, D, d):
    """the RELATIVE per-eigenpair criterion (wave 4).  Column c of P is paired with the (D - d + rank_c)-th eigenvalue
    (ascending; rank_c = rank of its Rayleigh quotient among the columns: the order of the columns is free).  Its
    kept variance rho_c = p_c^T C p_c / p_c^T p_c (exact rationals, C the EXACT covariance of the data) must lie in
    the certified enclosure of that eigenvalue widened by gap_tolerance: relative accuracy eta^2 / (gap lambda) where
    the spectrum is separated by more than eta, absolute eta where it is not.
    Returns (status, message): status in 'ok' | 'fail' | 'uncertified'."""
    pn = [sum(P[t][cc] ** 2 for t in range(D)) for cc in range(d)]
    if any(v == 0 for v in pn):
        return "fail", "a column of the projection matrix is identically zero"
    rho = [sum(P[a][cc] * Cm[a][b] * P[b][cc] for a in range(D) for b in range(D)) / pn[cc] for cc in range(d)]
    idx = {cc: D - d + rank for rank, cc in enumerate(order)}
    floor = max(maxabs(Cm), Fraction(1, 2 ** 300)) / 2 ** 100

    def want(enc):
        return {i: max(gap_tolerance(enc, i, eta) / 8, floor) for i in set(idx.values())}
    enc = certified_spectrum(Cm, ev, eta / 8, want)
    if enc is None:
        return "uncertified", ""
    for cc in range(d):
        i = idx[cc]
        lo, hi = enc[i]
        tol = gap_tolerance(enc, i, eta)
        if not (lo - tol <= rho[cc] <= hi + tol):
            lam = (lo + hi) / 2
            err = abs(rho[cc] - lam)
            others = ", ".join("%.3e" % float((a + b) / 2) for a, b in enc)
            return "fail", ("column %d keeps variance %.12e (Rayleigh quotient p^T C p / p^T p against the EXACT covariance "
                            "of the data, natural units) where the %s largest covariance eigenvalue is %.12e (certified by "
                            "exact inertia counts; whole spectrum %s): error %.3e = %.3g relative, tolerance %.3e = sum_j "
                            "min(|lambda_j - lambda|, eta^2 / |lambda_j - lambda|) with eta = %.3e the residual bound of a "
                            "backward-stable solve of the binary64 covariance: the column mixes in another principal "
                            "direction (sin^2 of the angle >= %.3g)" % (
                                cc, float(rho[cc]), ordinal(D - i), float(lam), others, float(err),
                                float(err / lam) if lam > 0 else float("inf"), float(tol), float(eta),
                                min(1.0, float(err / max(hi - enc[0][0], floor)))))
    return "ok", ""


def ordinal(k):
    return "%d%s" % (k, {1: "st", 2: "nd", 3: "rd"}.get(k if k < 20 else k % 10, "th"))


def residual_over_eta(Cm, P, top, eta, D, d):
    """max(|C P - P diag(top)|, |P^T P - I|) / eta, entrywise: how much of the bound eta the shipped code uses"""
    worst = Fraction(0)
    for cc in range(d):
        for a in range(D):
            r = sum(Cm[a][b] * P[b][cc] for b in range(D)) - top[cc] * P[a][cc]
            worst = max(worst, abs(r))
        for c2 in range(d):
            g = sum(P[t][cc] * P[t][c2] for t in range(D)) - (1 if cc == c2 else 0)
            worst = max(worst, abs(g))
    return worst / eta if eta > 0 else Fraction(0)


def spread_scale(X):
    """max_ab 1/N sum_i |x_ia - m_a| |x_ib - m_b| for the exact mean m: the magnitude of the covariance's OWN
    condition (what the rounding error of accumulating centred outer products is relative to)"""
    N, D = len(X), len(X[0])
    m = [sum(row[t] for row in X) / N for t in range(D)]
    dev = [[abs(row[t] - m[t]) for t in range(D)] for row in X]
    return max(sum(dev[i][a] * dev[i][b] for i in range(N)) / N for a in range(D) for b in range(D))


def mean_error_sq(X, exact_mean):
    """square of the bound (N + 1) 2^-53 max|x| on the rounding error of the computed mean: with a mean off by
    delta the centred second moment is C + delta delta^T exactly"""
    if exact_mean:
        return Fraction(0)
    N = len(X)
    return ((N + 1) * UNIT_ROUNDOFF * maxabs(X)) ** 2


def scaled_copy(c, k):
    """exact in binary64: the data (COV / EMB) or the probed matrix (RAW / OP / TRI) times 2^k"""
    s = Fraction(2) ** k
    cc = dict(c)
    for key in ("X", "M"):
        if key in cc:
            cc[key] = [[v * s for v in row] for row in cc[key]]
    cc["scale_log2"] = c.get("scale_log2", 0) + k
    cc["agree"] = False
    return cc


def rand_scale(rng, positive_only=False):
    ks = [10, 30, 40, 52, 60]
    return rng.choice(ks if positive_only else ks + [-k for k in ks])


def gen_shape(rng, shape, N=None, D=None):
    """data sets of special shape, integer coordinates (exact covariance stream when N is a power of two)"""
    if shape == "D=1":
        D, N = 1, N or rng.choice([2, 4, 5, 8])
        X = [[Fraction(rng.randint(-9, 9))] for _ in range(N)]
        if len({tuple(r) for r in X}) == 1:
            X[0][0] += 1
    elif shape == "D>N":
        N = N or rng.choice([2, 3, 4])
        D = D or N + rng.choice([1, 2, 4])
        X = gen_matrix(rng, N, D, "int")
    elif shape == "N=2":
        N, D = 2, D or rng.choice([1, 2, 3, 5])
        X = gen_matrix(rng, N, D, "int")
        if X[0] == X[1]:
            X[1][0] += 3
    elif shape in ("zero-variance-feature", "zero-feature"):
        N, D = N or rng.choice([4, 6, 8]), D or rng.choice([2, 3, 4])
        X = gen_matrix(rng, N, D, "int")
        j = rng.randrange(D)
        cst = Fraction(0) if shape == "zero-feature" else Fraction(rng.choice([-7, 3, 12]))
        for row in X:
            row[j] = cst
    else:
        raise ValueError(shape)
    return X, N, D


SHAPES = ["D=1", "D>N", "N=2", "zero-variance-feature", "zero-feature"]
BOUNDARY_N_QUICK = [255, 256, 257, 512]
BOUNDARY_N_THOROUGH = [127, 128, 129, 255, 256, 257, 511, 512, 513, 1024, 1025]
BOUNDARY_D = [8, 9, 16, 17, 32, 33, 64, 65]


def gen_boundary_cov(rng, sizes, dims):
    cases = []
    for N in sizes:
        D = rng.choice([1, 2, 2, 3]) if N < 500 else rng.choice([1, 2])
        style = rng.choice(["int", "dyadic"])
        cases.append({"kind": "COV", "D": D, "N": N, "X": gen_matrix(rng, N, D, style), "style": style,
                      "exact": N & (N - 1) == 0, "boundary": True})
    for D in dims:
        N = rng.choice([2, 4, 8])
        cases.append({"kind": "COV", "D": D, "N": N, "X": gen_matrix(rng, N, D, "int"), "style": "int", "exact": True,
                      "boundary": True})
    for shape in SHAPES:
        X, N, D = gen_shape(rng, shape, N=rng.choice([2, 4]) if shape != "N=2" else None)
        cases.append({"kind": "COV", "D": D, "N": N, "X": X, "style": shape, "exact": True, "boundary": True})
    return cases


def gen_boundary_emb(rng, sizes, wide=False):
    cases = []
    for shape in SHAPES:
        X, N, D = gen_shape(rng, shape)
        d = rng.randint(1, max(1, min(D, N - 1)))
        cases.append({"kind": "EMB", "solver": "dense", "N": N, "D": D, "d": d, "X": X, "style": shape, "boundary": True,
                      "agree": N <= 8})
    for N in sizes:
        D = rng.choice([2, 3])
        d = rng.randint(1, D)
        X = gen_correlated(rng, N, D, rng.random() < 0.5)
        cases.append({"kind": "EMB", "solver": "dense", "N": N, "D": D, "d": d, "X": X, "style": "correlated",
                      "boundary": True, "agree": False})
    if wide:                                  # (17 s per case in the exact rational decision procedures: thorough tier)
        D = rng.choice([32, 33])              # wide data: the covariance loop and the solver at a blocking size
        N = rng.choice([12, 40])
        cases.append({"kind": "EMB", "solver": "dense", "N": N, "D": D, "d": rng.randint(1, 3),
                      "X": gen_matrix(rng, N, D, "generic"), "style": "generic", "boundary": True, "agree": False})
    return cases


def gen_cov_cases(rng, n_exact, n_tol):
    cases = []
    for j in range(n_exact):
        D = rng.choice([1, 2, 2, 3, 4, 6])
        N = rng.choice([1, 2, 4, 8, 16])
        style = rng.choice(["int", "dyadic", "offset", "ties", "correlated"])
        X = gen_correlated(rng, N, D, True) if style == "correlated" else gen_matrix(rng, N, D, style)
        if style == "offset":       # keep x_i x_j sums exactly representable
            X = [[Fraction(int(v)) for v in row] for row in X]
        cases.append({"kind": "COV", "D": D, "N": N, "X": X, "style": style, "exact": True})
    for j in range(n_tol):
        D = rng.choice([1, 2, 3, 5, 8])
        N = rng.choice([3, 5, 7, 10, 25])
        style = rng.choice(["generic", "correlated"])
        X = gen_correlated(rng, N, D, False) if style == "correlated" else gen_matrix(rng, N, D, "generic")
        cases.append({"kind": "COV", "D": D, "N": N, "X": X, "style": style, "exact": False})
    return cases


def gen_probe_cases(rng, n):
    cases = []
    for _ in range(n):
        D = rng.choice([2, 3, 4, 5])
        M = [[Fraction(rng.randint(-9, 9)) for _ in range(D)] for _ in range(D)]     # triangles differ
        cases.append({"kind": "RAW", "D": D, "M": M})
        c = rng.randint(1, 3)
        R = [[Fraction(rng.randint(-5, 5)) for _ in range(c)] for _ in range(D)]
        cases.append({"kind": "OP", "D": D, "c": c, "M": M, "R": R})
        d = rng.randint(1, D)
        cases.append({"kind": "TRI", "solver": "dense", "D": D, "d": d, "M": M})
    for _ in range(max(2, n // 2)):
        D = rng.choice([3, 4, 6])
        d = rng.randint(1, D - 1)
        B = [[Fraction(rng.randint(-4, 4)) for _ in range(d)] for _ in range(D)]
        S = [[sum(B[i][q] * B[j][q] for q in range(d)) for j in range(D)] for i in range(D)]   # rank <= d, PSD
        cases.append({"kind": "TRI", "solver": "randomized", "D": D, "d": d, "M": S})
    return cases


def gen_emb(rng, solver, size="small"):
    if solver == "randomized":
        D = rng.choice([3, 4, 6])
        d = rng.randint(1, D - 1)
        N = rng.choice([8, 12, 20])
        wide = d >= 2 and rng.random() < 0.35
        X = gen_rank_wide(rng, N, D, d) if wide else gen_rank(rng, N, D, d)
        style = "rank-d-wide-spectrum" if wide else "rank-d"
    else:
        D = rng.choice([1, 2, 3, 4, 6, 10]) if size == "small" else rng.choice([12, 16])
        N = rng.choice([2, 3, 4, 8, 12, 20]) if size == "small" else rng.choice([32, 40])
        d = rng.randint(1, max(1, min(D, N - 1)))
        if size != "small":
            d = min(d, 4)           # exact rational decision procedures: keep D^2 d + N D d moderate
        style = rng.choice(["correlated", "correlated", "correlated-exact", "int", "offset", "ties", "generic",
                            "wide-spectrum"])
        if style == "wide-spectrum":
            X = gen_rank_wide(rng, N, D, min(D, 3))
        elif style == "correlated":
            X = gen_correlated(rng, N, D, False)
        elif style == "correlated-exact":
            X = gen_correlated(rng, N, D, True)
        else:
            X = gen_matrix(rng, N, D, style)
    return {"kind": "EMB", "solver": solver, "N": N, "D": D, "d": d, "X": X, "style": style}


# ----------------------------------------------------------------------------- serialisation
def case_from_json(j):
    def conv(o, key=None):
        if isinstance(o, str) and key in ("X", "M", "R"):
            return parse_fr(o)
        if isinstance(o, list):
            return [conv(x, key) for x in o]
        if isinstance(o, dict):
            return {k: conv(v, k) for k, v in o.items()}
        return o
    return conv(j)


def nums(l):
    return " ".join(float(x).hex() for x in l)


def fnums(l):
    return " ".join(fr_hex(x) for x in l)


def impl_line(c):
    k = c["kind"]
    if k == "COV":
        return "COV %d %d %s" % (c["D"], c["N"], nums(flat(c["X"])))
    if k == "RAW":
        return "RAW %d %s" % (c["D"], nums(flat(c["M"])))
    if k == "EIG":
        return "EIG %d %s" % (c["D"], nums(flat(c["M"])))
    if k == "OP":
        return "OP %d %d %s %s" % (c["D"], c["c"], nums(flat(c["M"])), nums(flat(c["R"])))
    if k == "TRI":
        return "TRI %s %d %d %s" % (c["solver"], c["D"], c["d"], nums(flat(c["M"])))
    return "EMB %s %s %d %d %d %s" % (c.get("method", "pca"), c["solver"], c["N"], c["D"], c["d"], nums(flat(c["X"])))


def run_impl(ctx, exe, cases):
    results = [None] * len(cases)
    start = 0
    env = {"OMP_NUM_THREADS": "2"}
    while start < len(cases):
        inp = "".join(impl_line(c) + "\n" for c in cases[start:])
        r = ctx.run(exe, inp, timeout=300, env=env)
        cur = None
        for line in r.out.splitlines():
            w = line.split()
            if not w:
                continue
            try:
                if w[0] == "C" and len(w) == 2:
                    cur = start + int(w[1])
                    if 0 <= cur < len(cases):
                        results[cur] = {"R": {}, "X": None, "crashed": None, "ended": False}
                    else:
                        cur = None
                elif cur is None:
                    continue
                elif w[0] == "R" and len(w) >= 2:
                    results[cur]["R"][w[1]] = w[2:]
                elif w[0] == "X":
                    results[cur]["X"] = " ".join(w[2:])
                elif w[0] == "END":
                    results[cur]["ended"] = True
            except (ValueError, IndexError):
                continue
        if r.rc == 0 and not r.timed_out:
            break
        if cur is None or results[cur] is None or results[cur]["ended"]:
            cur = start if cur is None else min(cur + 1, len(cases) - 1)
            if results[cur] is None:
                results[cur] = {"R": {}, "X": None, "crashed": None, "ended": False}
        results[cur]["crashed"] = "timeout" if r.timed_out else (r.sanitizer or r.err[-600:] or "rc=%d" % r.rc)
        start = cur + 1
    for i, x in enumerate(results):
        if x is None:
            results[i] = {"R": {}, "X": None, "crashed": "no output for this case", "ended": False}
    return results


def model_matrix(ans, D):
    w = ans.split()
    if not w or w[0] != "OK" or len(w) != 1 + D * D:
        return None
    v = [parse_fr(t) for t in w[1:]]
    return [v[i * D:(i + 1) * D] for i in range(D)]


def read_lower(M):
    D = len(M)
    return [[M[i][j] if j <= i else M[j][i] for j in range(D)] for i in range(D)]


def read_upper(M):
    D = len(M)
    return [[M[i][j] if i <= j else M[j][i] for j in range(D)] for i in range(D)]


def ref_eigs(ctx, exe, mats):
    """reference eigenvalues (ascending) of symmetric rational matrices, through the harness"""
    cases = [{"kind": "EIG", "D": len(M), "M": M} for M in mats]
    out = []
    for r in run_impl(ctx, exe, cases) if cases else []:
        got = mat_of(r["R"].get("eigvals", []), hexfloat)
        out.append([row[0] for row in got[2]] if got else None)
    return out


GS_CUTOFF = 1e-4


def gs_replay(S, O, D, d):
    """the orthonormalisation loop of eigendecomposition_impl_randomized (model: Spectral_Randomized.gram_schmidt_thr)
    replayed in binary64 on Y = S * O.  Returns (norms, fired): the norm met at every column and whether the ABSOLUTE
    cut-off `norm < 1e-4` was taken (the columns from there on are zeroed and scaled by 1/0: known finding F36)"""
    Y = [[math.fsum(S[t][u] * O[u][c] for u in range(D)) for c in range(d)] for t in range(D)]
    norms, fired = [], False
    for i in range(d):
        for j in range(i):
            r = math.fsum(Y[t][i] * Y[t][j] for t in range(D))
            for t in range(D):
                Y[t][i] -= r * Y[t][j]
        nrm = math.sqrt(math.fsum(Y[t][i] ** 2 for t in range(D)))
        norms.append(nrm)
        if nrm < GS_CUTOFF * (1 + 1e-6):         # taken, or too close to call: same root cause
            fired = True
            break
        for t in range(D):
            Y[t][i] /= nrm
    return norms, fired


def cutoff_fired(c, r, S):
    """replay for one randomized case: S = the matrix the front-end sees (actual scale, Fractions)"""
    Om = mat_of(r["R"].get("omega", []), hexfloat)
    D, d = c["D"], c["d"]
    if Om is None or S is None or (Om[0], Om[1]) != (D, d):
        return None, None
    try:
        norms, fired = gs_replay([[float(v) for v in row] for row in S], [[float(v) for v in row] for row in Om[2]], D, d)
    except (OverflowError, ValueError, ZeroDivisionError):
        return None, None
    return fired, norms


def unit_of(c):
    """2^-k for a scaled copy (k = scale_log2), 1 otherwise: the exact factor that brings the data back"""
    return Fraction(2) ** (-c.get("scale_log2", 0))


def floor_log2(f):
    """floor(log2 f) of a positive Fraction, exactly"""
    e = f.numerator.bit_length() - f.denominator.bit_length()
    while Fraction(2) ** e > f:
        e -= 1
    while Fraction(2) ** (e + 1) <= f:
        e += 1
    return e


def natural_unit(Cm_actual):
    """2^-j with 4^j <= max|C| < 4^(j+1): brings a covariance matrix to magnitude [1, 4).  The decision procedures have ONE
    tolerance for orthonormality (scale free) and for residuals (scale^2); evaluating every PCA run in units where
    max|C| is of order 1 keeps the orthonormality tolerance at 1e-9 (1e-6 randomized) whatever the variance of the data
    (with max|C| = 1e6 the old tolerance let an all-zero column of P pass).  Exact; theorem C06_scale_equivariant."""
    big = maxabs(Cm_actual)
    if big == 0:
        return Fraction(1)
    return Fraction(2) ** (-(floor_log2(big) // 2))


def mscale(M, f):
    return M if f == 1 else [[v * f for v in row] for row in M]


def got_scale(got, f):
    """a parsed (n, m, rows) output times f"""
    if got is None or f == 1:
        return got
    return got[0], got[1], mscale(got[2], f)


class Stats:
    def __init__(self):
        self.evaluated = 0
        self.ok = {}
        self.skipped = {}
        self.spec_calls = 0
        self.exact_compared = 0
        self.agree_sign = 0
        self.agree_gram = 0
        self.old_model_matches = 0
        self.views = {}
        self.gs_replays = 0
        self.relative = {}
        self.worst_resid = Fraction(0)

    def bump(self, d, k, n=1):
        d[k] = d.get(k, 0) + n


def orthonormal_competitor(rng, D, d):
    """a D x d matrix with (numerically) orthonormal columns, as exact rationals of doubles"""
    cols = []
    while len(cols) < d:
        v = [rng.gauss(0, 1) for _ in range(D)]
        for u in cols:
            s = sum(a * b for a, b in zip(u, v))
            v = [a - s * b for a, b in zip(v, u)]
        n = math.sqrt(sum(a * a for a in v))
        if n < 1e-6:
            continue
        cols.append([a / n for a in v])
    return [[Fraction(cols[c][i]) for c in range(d)] for i in range(D)]


def evaluate(ctx, exe, mexe, cases, st, record=True):
    rng = ctx.rng
    impl = run_impl(ctx, exe, cases)
    verdicts = ["ok"] * len(cases)
    spec_lines, spec_owner = [], []            # owner: (case index, why, kind) kind in violation|probe|mismatch
    probe_info, probe_failed = {}, {}
    post = []                                  # deferred work needing reference eigenvalues
    gs_fired, gs_norms = {}, {}                # randomized cases: did the replayed cut-off fire?
    units = {}                                 # PCA cases: the exact unit the run is evaluated in

    def viol(i, why):
        if verdicts[i] in ("violation", "known"):
            return
        c = cases[i]
        if c.get("solver") == "randomized" and gs_fired.get(i):
            # strict match: the replay of the front-end's Gram-Schmidt loop on the Gaussian matrix it drew shows
            # that its ABSOLUTE cut-off `norm < 1e-4` was taken (known finding F36)
            why += " [replayed Gram-Schmidt norms %s: the absolute cut-off `norm < 1e-4` of the randomized " \
                   "front-end fired]" % ["%.3g" % x for x in gs_norms.get(i, [])]
            st.bump(st.skipped, "randomized:F36-cutoff-fired")
            if not record or not ctx.violation(case_json(c), why, signature=F36):
                verdicts[i] = "known"
                return
            verdicts[i] = "violation"
            return
        verdicts[i] = "violation"
        if record:
            ctx.violation(case_json(cases[i]), why)

    def mism(i, detail):
        if verdicts[i] in ("violation", "mismatch"):
            return
        verdicts[i] = "mismatch"
        if record:
            ctx.mismatch(case_json(cases[i]), detail)

    # ---- model answers needed up front
    mlines, mowner = [], []
    for i, c in enumerate(cases):
        if c["kind"] in ("COV", "EMB"):
            mlines.append("COV %d %d %s" % (c["D"], c["N"], fnums(flat(c["X"]))))
            mowner.append((i, "cov"))
            if c["kind"] == "COV":
                mlines.append("COVOLD %d %d %s" % (c["D"], c["N"], fnums(flat(c["X"]))))
                mowner.append((i, "covold"))
                mlines.append("MEAN %d %d %s" % (c["D"], c["N"], fnums(flat(c["X"]))))
                mowner.append((i, "mean"))
                mlines.append("COVEXP %d %d %s" % (c["D"], c["N"], fnums(flat(c["X"]))))
                mowner.append((i, "covexp"))
        elif c["kind"] == "TRI":
            mlines.append("SEEN %s %d %s" % (c["solver"], c["D"], fnums(flat(c["M"]))))
            mowner.append((i, "seen"))
    manswers = run_model_lines(ctx, mexe, mlines)
    model = {}
    for (i, what), a in zip(mowner, manswers):
        model[(i, what)] = a

    eig_requests = []       # (case index, symmetric matrix)
    for i, (c, r) in enumerate(zip(cases, impl)):
        if c.get("solver") == "randomized" and c["kind"] in ("EMB", "TRI"):
            S = model_matrix(model.get((i, "cov" if c["kind"] == "EMB" else "seen"), ""), c["D"])
            gs_fired[i], nr = cutoff_fired(c, r, S)
            if nr is not None:
                gs_norms[i] = nr
            st.gs_replays += 1
    for i, (c, r) in enumerate(zip(cases, impl)):
        st.evaluated += 1
        kind = c["kind"]
        if r["crashed"]:
            if kind == "RAW":
                verdicts[i] = "skip"
                ctx.unshown("the Eigen probe itself aborted: " + str(r["crashed"])[:200])
            else:
                viol(i, "the implementation aborts / hangs on this input (%s): %s" % (kind, crash_text(r["crashed"])))
            continue
        if r["X"] is not None:
            if kind in ("EMB", "TRI") and c.get("solver") == "randomized" and gs_fired.get(i):
                viol(i, "the randomized eigensolver raises on exact-rank data: %s" % r["X"])
            elif kind == "EMB":
                verdicts[i] = "skip"
                st.bump(st.skipped, "pca-%s:exception" % c["solver"])
            elif kind in ("COV", "OP"):
                viol(i, "internal routine %s raised on a well-formed input: %s" % (kind, r["X"]))
            else:
                verdicts[i] = "skip"
                st.bump(st.skipped, kind + ":exception")
            continue
        R = r["R"]
        D = c["D"]
        # scaled copy: everything below is expressed in the units of the UNscaled data (exact factors 2^-k for
        # vectors, 2^-2k for second moments); theorem C06_scale_equivariant is what makes this legitimate
        u = unit_of(c)
        Xn = mscale(c["X"], u) if "X" in c else None
        if kind == "COV":
            N = c["N"]
            cov = got_scale(mat_of(R.get("cov", []), hexfloat), u * u)
            mean = got_scale(mat_of(R.get("mean", []), hexfloat), u)
            if cov is None or mean is None or (cov[0], cov[1]) != (D, D) or mean[0] != D:
                viol(i, "compute_mean / compute_covariance_matrix: output missing, malformed, not finite or of "
                        "the wrong shape")
                continue
            Cm = model_matrix(model[(i, "cov")], D)
            Cold = model_matrix(model[(i, "covold")], D)
            if Cm is None:
                mism(i, "model answers %r on an input the implementation accepted" % model[(i, "cov")][:60])
                continue
            if model.get((i, "covexp")) != model[(i, "cov")]:
                # theorem C06_cov_centred_and_expanded observed: the centred model (current code) and the expanded one
                # (shipped before fix F49) are the same rational matrix
                ctx.unshown("the extracted centred and expanded covariance models disagree on a case (N = %d)" % N)
            Cm = mscale(Cm, u * u)
            Cold = mscale(Cold, u * u) if Cold is not None else None
            tol = Fraction(0) if c["exact"] else TOL_DENSE * (1 + scale_tol(Xn) ** 2)
            offset_txt = ""
            if is_offset_style(c):
                # relative to the SPREAD of the data (the output's own condition), never to |x|^2
                tol = 8 * (N + 4) * UNIT_ROUNDOFF * spread_scale(Xn) + mean_error_sq(Xn, c["exact"])
                offset_txt = (" (large-offset data: tolerance %.3g relative to the spread about the mean, max|x| = %.3g)"
                              % (float(tol), float(maxabs(Xn))))
            xs = fnums(flat(Xn))
            cs = fnums(flat(cov[2]))
            old = " [the returned matrix equals the model of the code BEFORE fix F8: only the upper triangle is filled]" \
                if (Cold is not None and cov[2] == Cold and Cold != Cm) else ""
            if old:
                st.old_model_matches += 1
            spec_lines.append("SCOVD %d %d %s %s %s" % (N, D, fr_hex(tol), xs, cs))
            spec_owner.append((i, "what the DENSE eigensolver front-end sees of the matrix returned by "
                                  "compute_covariance_matrix ((M+M^T)/2, lower triangle) is not the sample "
                                  "covariance of the data" + old + offset_txt, "violation"))
            spec_lines.append("SCOVR %d %d %s %s %s" % (N, D, fr_hex(tol), xs, cs))
            spec_owner.append((i, "what the RANDOMIZED front-end sees of the returned covariance matrix (upper "
                                  "triangle) is not the sample covariance of the data" + old + offset_txt, "violation"))
            st.exact_compared += 1
            mm = model[(i, "mean")].split()
            mvals = [parse_fr(t) * u for t in mm[1:]] if mm and mm[0] == "OK" else None
            ivals = [row[0] for row in mean[2]]
            if mvals is None or len(mvals) != D or \
                    (c["exact"] and mvals != ivals) or \
                    (not c["exact"] and any(abs(a - b) > TOL_DENSE * (1 + scale_tol(Xn)) for a, b in zip(mvals, ivals))):
                mism(i, "compute_mean: implementation %s, model %s" % ([str(x) for x in ivals[:4]], mm[:5]))
            if c["exact"]:
                if cov[2] != Cm:
                    bad = next(((a, b) for a in range(D) for b in range(D) if cov[2][a][b] != Cm[a][b]), None)
                    mism(i, "compute_covariance_matrix: entry %s is %s, model says %s" % (
                        bad, cov[2][bad[0]][bad[1]], Cm[bad[0]][bad[1]]))
            else:
                if any(abs(cov[2][a][b] - Cm[a][b]) > tol for a in range(D) for b in range(D)):
                    mism(i, "compute_covariance_matrix differs from the model beyond rounding")
            continue
        if kind == "OP":
            prod = mat_of(R.get("prod", []), hexfloat)
            st.exact_compared += 1

            def times(S):
                return [[sum(S[a][t] * c["R"][t][b] for t in range(D)) for b in range(c["c"])] for a in range(D)]
            if prod is not None and prod[2] == times(read_upper(c["M"])):
                pass
            elif prod is not None and prod[2] == times(read_lower(c["M"])):
                st.bump(st.views, "DenseMatrixOperation:lower-view")
            elif prod is not None and prod[2] == times(c["M"]):
                st.bump(st.views, "DenseMatrixOperation:full-matrix")
            else:
                mism(i, "DenseMatrixOperation(M)(R) is neither read_upper(M) * R (modelled) nor the lower-view / "
                        "plain product: got %s" % (None if prod is None else [str(x) for x in flat(prod[2])[:6]]))
            continue
        if kind in ("RAW", "TRI"):
            d = D if kind == "RAW" else c["d"]
            vecs = mat_of(R.get("vecs", []), hexfloat)
            vals = got_scale(mat_of(R.get("vals", []), hexfloat), u)
            if kind == "RAW":
                S = mscale(read_lower(c["M"]), u)
            else:
                S = model_matrix(model[(i, "seen")], D)
                S = mscale(S, u) if S is not None else None
            if vecs is None or vals is None or S is None or (vecs[0], vecs[1]) != (D, d) or vals[0] < d:
                if kind == "RAW":
                    ctx.unshown("oracle probe: Eigen::SelfAdjointEigenSolver output malformed")
                    verdicts[i] = "skip"
                elif c.get("solver") == "randomized" and gs_fired.get(i):
                    viol(i, "eigendecomposition(randomized): output not finite")
                else:
                    mism(i, "eigendecomposition(%s): output missing, malformed, not finite or of the wrong shape" % c["solver"])
                continue
            lam = [row[0] for row in vals[2]][-d:] if d else []
            eig_requests.append((i, S))
            post.append((i, "probe", S, vecs[2], lam))
            continue
        # ---- EMB (pca)
        N, d = c["N"], c["d"]
        Cm = model_matrix(model[(i, "cov")], D)
        if Cm is not None:
            u = natural_unit(Cm)              # subsumes the known 2^-k of a scaled copy
        units[i] = u
        Cm = mscale(Cm, u * u) if Cm is not None else None
        emb, P, m = (mat_of(R.get(t, []), hexfloat) for t in ("emb", "P", "m"))
        emb, m = got_scale(emb, u), got_scale(m, u)
        if R.get("has", [""])[0] != "1" or "P" not in R:
            viol(i, "PCA did not return a MatrixProjectionImplementation")
            continue
        if Cm is None:
            mism(i, "model answers %r on an input the implementation accepted" % model[(i, "cov")][:60])
            continue
        if P is None or emb is None or m is None:
            if c["solver"] == "randomized" and gs_fired.get(i):
                viol(i, "PCA (randomized): projection matrix / embedding not finite")
            elif c["solver"] == "randomized" or c["style"] == "ties":
                verdicts[i] = "skip"            # rank < d: finiteness is C01's subject
                st.bump(st.skipped, "pca-%s:nonfinite" % c["solver"])
            else:
                viol(i, "PCA (dense): projection matrix / embedding / mean missing, malformed or not finite")
            continue
        if (P[0], P[1]) != (D, d) or (emb[0], emb[1]) != (N, d) or m[0] != D:
            viol(i, "PCA: shapes P %dx%d, embedding %dx%d, mean %d do not fit N=%d D=%d d=%d" % (
                P[0], P[1], emb[0], emb[1], m[0], N, D, d))
            continue
        eig_requests.append((i, Cm))
        post.append((i, "pca", Cm, P[2], emb[2], [row[0] for row in m[2]]))

    # ---- reference eigenvalues for everything that needs them
    refs = ref_eigs(ctx, exe, [S for _, S in eig_requests])
    ref_of = {}
    for (i, _), ev in zip(eig_requests, refs):
        ref_of[i] = ev
    agree_jobs = []
    for item in post:
        i = item[0]
        c = cases[i]
        ev = ref_of.get(i)
        D = c["D"]
        if ev is None or len(ev) != D:
            ctx.unshown("reference eigenvalues not available for a case (harness EIG failed)")
            verdicts[i] = "skip"
            continue
        if item[1] == "probe":
            _, _, S, V, lam = item
            d = len(lam)
            tolr = TOL_RAND if c.get("solver") == "randomized" else TOL_DENSE
            tol = tolr * (1 + scale_tol(S)) * D
            top = ev[-d:] if d else []
            who = "Eigen::SelfAdjointEigenSolver (oracle contract: lower triangle, ascending, orthonormal)" \
                if c["kind"] == "RAW" else "tapkee eigendecomposition(%s, LargestEigenvalues)" % c["solver"]
            kindv = "probe"
            probe_info[i] = (V, lam, who)
            spec_lines.append("SEIG %d %d %s %s %s %s" % (D, d, fr_hex(tol), fnums(flat(S)), fnums(flat(V)), fnums(top)))
            spec_owner.append((i, who + " did not return the d leading eigenpairs of the matrix the model says it "
                                  "sees", kindv))
            if c["kind"] == "RAW" or c.get("solver") == "dense":
                if any(abs(a - b) > tol for a, b in zip(lam, top)):
                    spec_lines.append("FAIL")           # placeholder keeps owners aligned (driver answers ERR)
                    spec_owner.append((i, who + " returned eigenvalues %s, reference %s" % (
                        [float(x) for x in lam], [float(x) for x in top]), kindv))
            continue
        _, _, Cm, P, Y, mv = item
        N, d = c["N"], c["d"]
        tolr = TOL_RAND if c["solver"] == "randomized" else TOL_DENSE
        cscale = 1 + scale_tol(Cm)
        Xn = mscale(c["X"], units.get(i, unit_of(c)))
        eta = None
        if c["solver"] == "dense":
            # wave 4: what binary64 delivers (eta_dense: a few hundred to a few thousand unit roundoffs of |C|), not the
            # flat 1e-9 of waves 1-3, which was blind to anything below sqrt(eps): a solver with ABSOLUTE accuracy
            # 1e-9 |C| mixes principal directions whose variances are both below that
            eta = eta_dense(c, Cm, Xn)
            tol = eta
        else:
            tol = tolr * cscale * D
            if is_offset_style(c):
                # a computed mean off by delta turns the centred second moment into C + delta delta^T (natural units)
                pow2 = N & (N - 1) == 0
                tol += D * mean_error_sq(Xn, pow2 and not c["style"].endswith("-generic"))
        top_sorted = ev[-d:]
        # the property does not fix the ORDER of the columns: pair the d largest reference eigenvalues
        # with the columns by the rank of each column's Rayleigh quotient p_c^T C p_c
        rq = []
        for cc in range(d):
            col = [P[t][cc] for t in range(D)]
            rq.append(sum(col[a] * Cm[a][b] * col[b] for a in range(D) for b in range(D)))
        order = sorted(range(d), key=lambda cc: rq[cc])
        top = [None] * d
        for rank, cc in enumerate(order):
            top[cc] = top_sorted[rank]
        if order != list(range(d)):
            st.bump(st.views, "pca-columns-not-in-ascending-eigenvalue-order")
        cs, ps = fnums(flat(Cm)), fnums(flat(P))
        xs = fnums(flat(Xn))
        tol_txt = ""
        if eta is not None:
            tol_txt = (" within %.3g in natural units (max|C| in [1, 4)): the residual bound of a backward-stable solve of "
                       "the covariance accumulated in binary64" % float(eta))
            if D <= 12:
                st.worst_resid = max(st.worst_resid, residual_over_eta(Cm, P, top, eta, D, d))
            # thorough tier: the exact-integer certification is run on every wide-range case and on every fourth other
            # dense case (its cost per case is fixed, the tier has ~10 times as many cases; see notes "Wave 4")
            if D <= 6 and (ctx.quick or c["style"] == "wide-range" or i % 4 == 0):
                status, msg = kept_variance_relative(Cm, P, ev, order, eta, D, d)
                st.bump(st.relative, status)
                if status == "fail":
                    viol(i, "PCA(dense): " + msg)
        spec_lines.append("SEIG %d %d %s %s %s %s" % (D, d, fr_hex(tol), cs, ps, fnums(top)))
        spec_owner.append((i, "PCA(%s): the returned projection matrix does not have orthonormal columns spanning "
                              "the leading %d-dimensional eigenspace of the sample covariance (C P != P diag(top-d "
                              "eigenvalues %s) or P^T P != I%s)" % (c["solver"], d, [float(x) for x in top], tol_txt),
                           "violation"))
        xscale = 1 + scale_tol(Xn) + scale_tol([mv])
        spec_lines.append("SOUT %d %d %d %s %s %s %s %s" % (N, D, d, fr_hex(tolr * xscale * D), xs, fnums(flat(Y)), ps,
                                                           fnums(mv)))
        spec_owner.append((i, "PCA(%s): the embedding is not (X - mean) P for the returned P and the training mean"
                           % c["solver"], "violation"))
        spec_lines.append("SUNC %d %d %s %s %s" % (N, d, fr_hex(tol * 4), fnums(flat(Y)), fnums(top)))
        spec_owner.append((i, "PCA(%s): embedding columns are not uncorrelated with variances = the %d largest "
                              "covariance eigenvalues %s" % (c["solver"], d, [float(x) for x in top]), "violation"))
        spec_lines.append("SRET %d %d %s %s %s %s" % (D, d, fr_hex(tol * d * 2), cs, ps, fr_hex(sum(top))))
        spec_owner.append((i, "PCA(%s): retained variance trace(P^T C P) is not the sum of the %d largest "
                              "eigenvalues (%s)" % (c["solver"], d, float(sum(top))), "violation"))
        for _ in range(2):
            Q = orthonormal_competitor(rng, D, d)
            spec_lines.append("SNB %d %d %s %s %s %s" % (D, d, fr_hex(tol * d * 2), cs, ps, fnums(flat(Q))))
            spec_owner.append((i, "PCA(%s): a random orthonormal %d-frame retains MORE variance than the returned "
                                  "projection (variance-optimality test)" % (c["solver"], d), "violation"))
        st.bump(st.ok, "pca-" + c["solver"])
        if c["solver"] == "dense" and c.get("agree", False):
            agree_jobs.append((i, Y, ev))

    answers = run_model_lines(ctx, mexe, spec_lines)
    st.spec_calls += len(spec_lines)
    for (i, why, kindv), a, line in zip(spec_owner, answers, spec_lines):
        if line == "FAIL":
            a = "F"
        if a == "T":
            continue
        why2 = why + (" [decision procedure: %s]" % a if a != "F" else "")
        if kindv == "violation":
            viol(i, why2)
        elif kindv == "probe" and cases[i].get("solver") == "randomized" and gs_fired.get(i):
            viol(i, why2)
        elif kindv == "probe":
            probe_failed.setdefault(i, why2)
        else:
            mism(i, why2)

    # ---- a probe that does not fit the modelled view: does it fit another triangle view?  After F8 the
    # matrix PCA hands over is symmetric in every entry (theorem C06_cov_is_covariance), so WHICH triangle
    # a front-end or Eigen reads does not matter for the property: a different but recognised view is
    # recorded, not alarmed on.  Only an answer that fits no view is a broken contract.
    if probe_failed:
        alts, alt_lines = [], []
        for i in probe_failed:
            c = cases[i]
            D = c["D"]
            M = mscale(c["M"], unit_of(c))
            avg = [[(M[a][b] + M[b][a]) / 2 for b in range(D)] for a in range(D)]
            for name, S in (("lower", read_lower(M)), ("upper", read_upper(M)), ("average", avg)):
                alts.append((i, name, S))
        alt_refs = ref_eigs(ctx, exe, [S for _, _, S in alts])
        for (i, name, S), ev in zip(alts, alt_refs):
            V, lam, who = probe_info[i]
            D, d = cases[i]["D"], len(lam)
            tol = TOL_DENSE * (1 + scale_tol(S)) * D
            top = (ev or [Fraction(0)] * D)[-d:] if d else []
            alt_lines.append("SEIG %d %d %s %s %s %s" % (D, d, fr_hex(tol), fnums(flat(S)), fnums(flat(V)), fnums(top)))
        alt_ans = run_model_lines(ctx, mexe, alt_lines)
        fits = {}
        for (i, name, S), a in zip(alts, alt_ans):
            if a == "T":
                fits.setdefault(i, []).append(name)
        for i, why2 in probe_failed.items():
            c = cases[i]
            label = "Eigen::SelfAdjointEigenSolver" if c["kind"] == "RAW" else "eigendecomposition(%s)" % c["solver"]
            if fits.get(i):
                st.bump(st.views, "%s:%s-view" % (label, "/".join(fits[i])))
            elif c["kind"] == "RAW":
                if record:
                    ctx.unshown("oracle contract no longer validated: " + why2)
                verdicts[i] = "mismatch"
            else:
                mism(i, why2)

    # ---- PCA vs Kernel PCA (linear kernel) vs MDS (Euclidean): a TEST of the last clause
    if agree_jobs:
        others = []
        for (i, Y, ev) in agree_jobs:
            for meth in ("kpca", "mds"):
                others.append(dict(cases[i], method=meth))
        oimpl = run_impl(ctx, exe, others)
        for j, (i, Y, ev) in enumerate(agree_jobs):
            c = cases[i]
            N, D, d = c["N"], c["D"], c["d"]
            lam_d = ev[-d]
            lam_next = ev[-d - 1] if d < D else Fraction(0)
            lmax = max(abs(ev[-1]), Fraction(1, 10 ** 12))
            # the other two methods decompose the N x N Gram matrix: eigenvalue N*lam; they need lam_d > 0
            if lam_d <= lmax / 10 ** 6 or (lam_d - lam_next) <= lmax / 10 ** 5 or verdicts[i] != "ok":
                st.bump(st.skipped, "agreement:no-gap")
                continue
            simple = all((ev[-q] - ev[-q - 1]) > lmax / 10 ** 5 for q in range(1, d)) if d > 1 else True
            for meth, r in (("kpca", oimpl[2 * j]), ("mds", oimpl[2 * j + 1])):
                E = got_scale(mat_of(r["R"].get("emb", []), hexfloat), units.get(i, unit_of(c)))
                if r["crashed"] or r["X"] is not None or E is None or (E[0], E[1]) != (N, d):
                    st.bump(st.skipped, "agreement:%s-no-output" % meth)
                    continue
                Z = E[2]
                ysc = 1 + scale_tol(Y)
                tolg = Fraction(1, 10 ** 6) * ysc * ysc * d
                worst = max(abs(sum(Y[a][q] * Y[b][q] for q in range(d)) - sum(Z[a][q] * Z[b][q] for q in range(d)))
                            for a in range(N) for b in range(N))
                st.agree_gram += 1
                if worst > tolg:
                    viol(i, "PCA and %s (on the same feature data, d-th eigenvalue gap %.3g) do not agree: Gram "
                            "matrices of the embeddings differ by %.3g" % (meth, float(lam_d - lam_next), float(worst)))
                    continue
                if simple:
                    st.agree_sign += 1
                    for q in range(d):
                        s = 1 if sum(Y[a][q] * Z[a][q] for a in range(N)) >= 0 else -1
                        if any(abs(Y[a][q] - s * Z[a][q]) > Fraction(1, 10 ** 5) * ysc for a in range(N)):
                            viol(i, "PCA and %s columns %d differ by more than a sign although the leading "
                                    "eigenvalues are simple" % (meth, q))
                            break
    return verdicts


def shrink_case(ctx, exe, mexe, c):
    def fails(cc):
        return evaluate(ctx, exe, mexe, [cc], Stats(), record=False)[0] == "violation"
    if c["kind"] not in ("COV", "EMB"):
        return c
    lo = (c["d"] + 1) if c["kind"] == "EMB" else 1
    rows = list(range(c["N"]))

    def sub_case(sub):
        n = len(sub)
        cc = dict(c, X=[c["X"][r] for r in sub], N=n, agree=False)
        if c["kind"] == "COV":
            # the exact comparison is only meaningful when the division by N is exact in binary64
            cc["exact"] = bool(c.get("exact")) and (n & (n - 1) == 0)
        return cc

    def f(sub):
        if len(sub) < lo:
            return False
        return fails(sub_case(sub))
    sub = vlib.shrink_list(rows, f, max_steps=30)
    if len(sub) < c["N"] and f(sub):
        return sub_case(sub)
    return c


def translate(ctx):
    """regenerate coq/gen/EigSelect.v (T-eig) and coq/gen/PcaEmbed.v (T-pca) from the tree under test"""
    sys.path.insert(0, os.path.join(ctx.verif, "translate"))
    import importlib
    ok = True
    for modname, outname in (("t_eig", "EigSelect.v"), ("t_pca", "PcaEmbed.v")):
        mod = importlib.import_module(modname)
        out = os.path.join(ctx.verif, "coq", "gen", outname)
        try:
            text = mod.emit(mod.parse(ctx.repo))
        except mod.TranslateError as ex:
            ctx.unshown("%s cannot read the source any more: %s" % (modname, ex))
            ok = False
            continue
        except OSError as ex:
            ctx.unshown("%s: %s" % (modname, ex))
            ok = False
            continue
        mod.write_if_changed(out, text)
        if modname == "t_pca":
            import contextlib
            import io
            buf = io.StringIO()
            try:
                with contextlib.redirect_stdout(buf):
                    st_ok = mod.self_test(ctx.repo)
            except Exception as ex:
                st_ok = False
                buf.write("self-test raised %r" % (ex,))
            if not st_ok:
                bad = [l for l in buf.getvalue().splitlines() if "NOT DETECTED" in l or "not present" in l or
                       "raised" in l or "CHANGED" in l]
                ctx.note("T-pca self-test incomplete (source drifted from the seeded mutation patterns?): %s" % bad[:3])
    return ok


F36 = "F36-randomized-eig-rank-deficient"


def f36_registered(ctx):
    """the ABSOLUTE cut-off `norm < 1e-4` of the randomized front-end (known finding F36, owned by C05/C01) makes
    the randomized solver fail on tiny-scale data of any rank; tiny-scale randomized cases are generated only when
    that finding is registered for this property too (they are then reported under its signature)"""
    return any(e.get("signature") == F36 for e in getattr(ctx, "_known_db", []))


def build_cases(ctx, quick):
    rng = ctx.rng
    cases, hist = [], {}

    def add(c, key):
        cases.append(c)
        hist[key] = hist.get(key, 0) + 1
        if c.get("scale_log2"):
            hist["scaled-copy"] = hist.get("scaled-copy", 0) + 1
            hist["scaled-copy:2^%d" % c["scale_log2"]] = hist.get("scaled-copy:2^%d" % c["scale_log2"], 0) + 1
        if c.get("boundary"):
            hist["boundary-size-or-shape"] = hist.get("boundary-size-or-shape", 0) + 1

    for name, cj in ctx.corpus():
        try:
            add(case_from_json(cj), "corpus")
        except Exception as ex:
            ctx.note("corpus file %s not usable: %s" % (name, ex))
    every = 2 if quick else 1                 # every `every`-th case of each stream also as a scaled copy
    tiny_randomized = f36_registered(ctx)
    cov = gen_cov_cases(rng, 40 if quick else 400, 10 if quick else 100)
    cov += gen_boundary_cov(rng, BOUNDARY_N_QUICK if quick else BOUNDARY_N_THOROUGH,
                            rng.sample(BOUNDARY_D, 2) if quick else BOUNDARY_D)
    cov += gen_offset_cov(rng, 8 if quick else 80, 4 if quick else 40)
    for j, c in enumerate(cov):
        key = "cov:" + ("exact" if c["exact"] else "tolerance")
        add(c, key)
        if is_offset_style(c):
            hist["large-offset:" + c["style"]] = hist.get("large-offset:" + c["style"], 0) + 1
        if j % every == 0:
            add(scaled_copy(c, rand_scale(rng)), key)
    for j, c in enumerate(gen_probe_cases(rng, 6 if quick else 40)):
        key = "probe:" + c["kind"] + (":" + c["solver"] if c["kind"] == "TRI" else "")
        add(c, key)
        if j % every == 0 or (c["kind"] == "TRI" and j % 3 == 2):
            rand_tri = c["kind"] == "TRI" and c["solver"] == "randomized"
            add(scaled_copy(c, rand_scale(rng, positive_only=rand_tri and not tiny_randomized)), key)
            if rand_tri and tiny_randomized:
                add(scaled_copy(c, -rng.choice([10, 30, 52])), key)
    n_dense, n_rand = (24, 6) if quick else (250, 60)
    embs = []
    for j in range(n_dense):
        c = gen_emb(rng, "dense", "small" if (quick or j % 8) else "large")
        c["agree"] = (j % 2 == 0) and c["N"] <= 24
        embs.append(c)
    embs += gen_boundary_emb(rng, [256, 257] if quick else BOUNDARY_N_THOROUGH, wide=not quick)
    embs += gen_offset_emb(rng, 8 if quick else 64)
    embs += gen_wide_emb(rng, 1 if quick else 8)
    for j, c in enumerate(embs):
        add(c, "api:pca-dense")
        if is_offset_style(c):
            hist["large-offset:" + c["style"]] = hist.get("large-offset:" + c["style"], 0) + 1
        if c["style"] == "wide-range":
            key = "wide-dynamic-range:D=%d,d=%d" % (c["D"], c["d"])
            hist[key] = hist.get(key, 0) + 1
        if j % every == 0:
            add(scaled_copy(c, rand_scale(rng)), "api:pca-dense")
    for j in range(n_rand):
        c = gen_emb(rng, "randomized")
        add(c, "api:pca-randomized")
        if j % every == 0:
            add(scaled_copy(c, rand_scale(rng, positive_only=True)), "api:pca-randomized")
            if tiny_randomized:
                add(scaled_copy(c, -rng.choice([10, 30, 52])), "api:pca-randomized")
    return cases, hist


def run(ctx):
    quick = ctx.quick
    translate(ctx)
    coq = ctx.coq()
    exe = ctx.cpp("harness/c06.cpp", extra=["-O0", "-g1"])
    mexe = ctx.extract()
    st = Stats()
    cases, hist = build_cases(ctx, quick)
    verdicts = evaluate(ctx, exe, mexe, cases, st)
    searched = 0
    if ctx.is_unshown() and not ctx.has_violation():
        extra = gen_cov_cases(ctx.rng, 200, 50)
        # model-guided small exhaustive enumeration: every 2-sample / 2-feature data set over {-1, 0, 1}
        vals = [Fraction(-1), Fraction(0), Fraction(1)]
        for a in vals:
            for b in vals:
                for c2 in vals:
                    for d2 in vals:
                        extra.append({"kind": "COV", "D": 2, "N": 2, "X": [[a, b], [c2, d2]], "style": "int",
                                      "exact": True})
        extra += gen_boundary_cov(ctx.rng, BOUNDARY_N_THOROUGH, BOUNDARY_D)
        extra += gen_offset_cov(ctx.rng, 40, 20)
        extra += [scaled_copy(c, rand_scale(ctx.rng)) for c in extra if ctx.rng.random() < 0.5]
        embs = [gen_emb(ctx.rng, "dense", "small" if j % 8 else "large") for j in range(150)]
        embs += gen_boundary_emb(ctx.rng, [256, 257]) + gen_boundary_emb(ctx.rng, []) + gen_offset_emb(ctx.rng, 24)
        embs += gen_wide_emb(ctx.rng, 4)
        extra += embs + [scaled_copy(c, rand_scale(ctx.rng)) for c in embs if ctx.rng.random() < 0.5]
        for j in range(30):
            c = gen_emb(ctx.rng, "randomized")
            extra += [c, scaled_copy(c, rand_scale(ctx.rng, positive_only=not f36_registered(ctx)))]
        verdicts += evaluate(ctx, exe, mexe, extra, st)
        cases += extra
        searched = len(extra)
    # thorough tier: the same PCA cases once more through a build with Eigen's own index assertions on
    # (an out-of-range block expression such as rightCols(d) with d > cols is not always seen by ASan)
    eigen_dbg = 0
    if not quick and not ctx.has_violation():
        try:
            exe2 = ctx.cpp("harness/c06.cpp", name="c06_eigdbg", eigen_debug=True, extra=["-O0", "-g1"])
            embs = [c for c in cases if c["kind"] == "EMB"]
            for c, r in zip(embs, run_impl(ctx, exe2, embs)):
                eigen_dbg += 1
                if r["crashed"]:
                    ctx.violation(case_json(c), "with Eigen's assertions enabled (-DTAPKEE_DEBUG -UNDEBUG) PCA aborts on "
                                                "this input: " + crash_text(r["crashed"]))
        except vlib.BuildError as ex:
            ctx.unshown("the Eigen-assertion build of the harness failed: " + str(ex)[-300:])
    if st.views:
        ctx.note("a front-end / Eigen reads a different triangle view than modelled (%s); harmless for the property "
                 "because the matrix PCA hands over is symmetric in every entry (checked exactly on the covariance "
                 "stream, theorem C06_cov_is_covariance)" % st.views)
    for key in ("pca-dense", "pca-randomized"):
        if st.ok.get(key, 0) == 0 and not ctx.has_violation():
            ctx.unshown("no public-API case of %s could be evaluated" % key)
    if ctx.has_violation():
        shr = []
        for (case, why) in ctx._violations[:3]:
            try:
                shr.append((case_json(shrink_case(ctx, exe, mexe, case_from_json(case))), why))
            except Exception:
                shr.append((case, why))
        ctx._violations[:len(shr)] = shr
    distinct = set()
    for c in cases:
        nontrivial = (c["kind"] in ("COV", "EMB") and c["N"] >= 2 and c["D"] >= 2) or c["kind"] in ("TRI", "RAW", "OP")
        if nontrivial:
            distinct.add(hashlib.sha1(json.dumps(case_json(c), sort_keys=True).encode()).hexdigest())
    samples = []
    for c in [x for x in cases if x["kind"] == "COV"][:2] + [x for x in cases if x["kind"] == "EMB"][:3]:
        cj = case_json(c)
        if len(cj["X"]) > 4:
            cj["X"] = cj["X"][:4] + ["..."]
        samples.append(cj)
    ctx.finish(
        evaluations=st.evaluated, distinct_nontrivial=len(distinct),
        rule="cases: corpus (F8 witnesses); covariance stream = compute_mean + compute_covariance_matrix on int / "
             "dyadic / large-offset / coincident / strongly correlated data (exact: N a power of two, compared "
             "entry by entry with the extracted model and by the decision procedures with tol = 0; tolerance: "
             "generic doubles, any N); probes of Eigen / DenseMatrixOperation / the two front-ends on matrices whose "
             "triangles differ; public API PCA, dense on all styles with d in [1, min(D, N-1)], randomized on exact "
             "rank-d integer data; every second small dense case also through Kernel PCA and MDS.  Wave 2: boundary sizes "
             "(covariance at N = 255, 256, 257, 512 and D in 8..65; PCA at N = 256, 257; thorough: PCA at D = 32/33) and shapes (D = 1, "
             "D > N, N = 2, zero-variance feature, identically zero feature); every second case of every stream also as "
             "a scaled copy (data or probed matrix times 2^k, k in +-{10, 30, 40, 52, 60}; randomized solver: k > 0 only, "
             "its absolute cut-off at tiny scales is known finding F36), evaluated after undoing the exact scaling.  "
             "Wave 3: data with a large common offset (k * 2^E + correlated spread in [-3/4, 3/4], E in 20, 30, 40, and "
             "mixed per-feature offsets): covariance exact stream (dyadic grid on which the mean, x - mean, the products "
             "and the partial sums are exact: implementation == model), covariance tolerance stream (arbitrary doubles, "
             "any N) and PCA dense; verdicts relative to the SPREAD about the mean (8 (N + 4) 2^-53 * max_ab 1/N sum "
             "|x_a - m_a| |x_b - m_b| + squared rounding error of the computed mean), never to |x|^2.  "
             "Wave 4: PCA dense on WIDE-DYNAMIC-RANGE data at every D in 2..5 and d in {1, 2, D-1}: principal standard "
             "deviations 1 > s_1 > ... with consecutive ratios out of 1/3, 1/10, 1e-4, 3e-5, 1e-5, 1e-6, 1e-7 (at least one "
             "<= 1e-4; variances down to 1e-14 of the largest), random orthonormal frame or coordinate axes, arbitrary "
             "doubles; EVERY dense PCA case is now judged at eta = what binary64 delivers (D 8 (N+4) u spread + 32 D^2 u "
             "max|C| + D mean-error^2, natural units) instead of 1e-9, and for D <= 6 by the relative per-eigenpair "
             "criterion (kept variance of each column against the eigenvalue certified by exact inertia counts on the "
             "exact rational covariance, tolerance sum_j min(gap_j, eta^2 / gap_j)).  "
             "non-trivial = "
             "COV/EMB with N >= 2 and D >= 2, or a probe; distinct by hash of the case.",
        samples=samples,
        histogram={"generators": hist, "verdicts": {v: verdicts.count(v) for v in set(verdicts)},
                   "api_cases_evaluated": st.ok, "skipped": st.skipped, "spec_decisions_run": st.spec_calls,
                   "exact_model_comparisons": st.exact_compared,
                   "agreement_tests": {"gram": st.agree_gram, "column_sign": st.agree_sign},
                   "returned_matrix_equals_pre_F8_model": st.old_model_matches, "search_phase_cases": searched,
                   "front_end_views_differing_from_the_model": st.views,
                   "pca_cases_rerun_with_eigen_assertions": eigen_dbg,
                   "randomized_gram_schmidt_replays": st.gs_replays,
                   "relative_kept_variance_criterion": st.relative,
                   "worst_dense_residual_as_fraction_of_eta": float(st.worst_resid)},
        trusted_base=TRUSTED,
        assumptions=["feature vectors are finite doubles of the announced dimension, N >= 1",
                     "target_dimension <= min(D, N-1) (larger values are the open finding F21, owned by C01)",
                     "the eigen solver meets the oracle contract of DESIGN 1.3 (validated per call, see trusted base)",
                     "randomized solver: only data of exact rank <= target_dimension (as the property states)"],
        extra={"traces_validated_against_impl": st.exact_compared})


def replay(ctx, case):
    translate(ctx)
    exe = ctx.cpp("harness/c06.cpp", extra=["-O0", "-g1"])
    mexe = ctx.extract()
    c = case_from_json(case)
    st = Stats()
    v = evaluate(ctx, exe, mexe, [c], st)[0]
    r = run_impl(ctx, exe, [c])[0]
    for tag, toks in list(r["R"].items())[:8]:
        print("R %s %s" % (tag, " ".join(toks[:14])))
    if r["crashed"]:
        print("CRASH: " + str(r["crashed"])[:1500])
    for cs, why in ctx._violations[:3]:
        print("why: " + why[:700])
    for u in ctx._unshown[:3]:
        print("no longer shown: " + u[:500])
    if v in ("violation", "mismatch") or ctx.has_violation() or ctx.is_unshown():
        print("replay: property C06 FAILS on this input")
        return 1
    print("replay: property C06 holds on this input")
    return 0
