open C02_model
let rec pos_of_int n = if n = 1 then XH else if n land 1 = 1 then XI (pos_of_int (n lsr 1)) else XO (pos_of_int (n lsr 1))
let z_of_int n = if n = 0 then Z0 else if n > 0 then Zpos (pos_of_int n) else Zneg (pos_of_int (-n))
let rec int_of_pos = function XH -> 1 | XO p -> 2 * int_of_pos p | XI p -> 2 * int_of_pos p + 1
let int_of_z = function Z0 -> 0 | Zpos p -> int_of_pos p | Zneg p -> - (int_of_pos p)
let nat_of_int n = let rec go acc n = if n <= 0 then acc else go (S acc) (n - 1) in go O n

let l1 a b = Array.fold_left (+) 0 (Array.mapi (fun i x -> abs (x - b.(i))) a)

(* returns (complete, audit_ok) *)
let eval (pts : int array array) (kk : int) =
  let n = Array.length pts in
  let tab = Array.init n (fun i -> Array.init n (fun j -> z_of_int (l1 pts.(i) pts.(j)))) in
  let dfun i j = tab.(int_of_z i).(int_of_z j) in
  let nn = nat_of_int n in
  match batch_create dfun (nat_of_int (4 * n + 600)) (samples nn) with
  | None -> (true, true)
  | Some t ->
    let kn = nat_of_int kk in
    let pl = leaf_points t in
    let aok = ref true in
    let au copy q ub = (if not (valid_b dfun pl kn copy q ub) then aok := false); true in
    (match ct_query false dfun kn au (ct_fuel t) t with
     | None -> (true, true)
     | Some (rows, _) ->
       let complete = List.for_all (fun (q, cands) -> cand_complete_b dfun nn q (nat_of_int (kk - 1)) cands) rows
                      && List.length rows = n in
       (complete, !aok))

let show pts = String.concat " " (Array.to_list (Array.map (fun p -> "(" ^ String.concat "," (Array.to_list (Array.map string_of_int p)) ^ ")") pts))

let () =
  Random.init (int_of_string Sys.argv.(1));
  let tmax = float_of_string Sys.argv.(2) in
  let t0 = Unix.gettimeofday () in
  let nbase = ref 0 and nseed = ref 0 and ntry = ref 0 and found = ref 0 in
  while Unix.gettimeofday () -. t0 < tmax && !found < 3 do
    incr nbase;
    let mode = Random.int 3 in
    let dim = if mode = 2 then 1 else 1 + Random.int 2 in
    let n = if mode = 2 then 6 + Random.int 9 else 5 + Random.int 6 in
    let r = [|8; 12; 20; 40|].(Random.int 4) in
    let r = if dim = 2 then r / 2 + 1 else r in
    let pts =
      if mode = 2 then
        (* multi-scale line: small offsets plus jumps by powers of two *)
        let top = 6 + Random.int 22 in
        Array.init n (fun _ -> [| Random.int 4 + (if Random.int 3 = 0 then 0 else 1 lsl (Random.int top)) |])
      else Array.init n (fun _ -> Array.init dim (fun _ -> Random.int (r + 1))) in
    for kk = 2 to min 5 (n - 1) do
      let (c, a) = eval pts kk in
      if not c then begin incr found; Printf.printf "FOUND base K=%d %s\n%!" kk (show pts) end
      else if not a then begin
        incr nseed;
        (* insert every lattice point of the (x2 scaled) bounding box at a few positions *)
        let sp = Array.map (fun p -> Array.map (fun x -> 2 * x) p) pts in
        let cands =
          List.concat (Array.to_list (Array.map (fun p ->
              if dim = 1 then List.init 19 (fun i -> [| p.(0) + i - 9 |])
              else List.concat (List.init 9 (fun i -> List.init 9 (fun j -> [| p.(0) + i - 4; p.(1) + j - 4 |])))) sp)) in
        List.iter (fun x ->
            List.iter (fun pos ->
                if !found < 3 then begin
                  let np = Array.init (n + 1) (fun i -> if i < pos then sp.(i) else if i = pos then x else sp.(i - 1)) in
                  List.iter (fun k2 ->
                      if k2 >= 2 && k2 <= n then begin
                        incr ntry;
                        let (c2, _) = eval np k2 in
                        if not c2 then begin incr found; Printf.printf "FOUND K=%d %s\n%!" k2 (show np) end
                      end) [kk; kk + 1]
                end) [0; n; 1 + Random.int (max 1 (n - 1))]) cands
      end
    done;
    if !nbase mod 2000 = 0 then Printf.printf "base %d seeds %d tries %d found %d (%.0fs)\n%!" !nbase !nseed !ntry !found (Unix.gettimeofday () -. t0)
  done;
  Printf.printf "done: base %d seeds %d tries %d found %d\n" !nbase !nseed !ntry !found
