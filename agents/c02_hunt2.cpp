// agents/c02_hunt2.cpp — the C++ hunter that found defect F46 (wave 2, agent c02b).  Not part of the check.
// It drives CoverTreeWrapper directly on L1 point sets (exact integer metric), checks the rows of k_nearest_neighbor for
// (weak) completeness against brute force and, through a hook, watches every pruning decision of copy_zero_set /
// copy_cover_sets ("is a strictly needed sample below the dropped element?").  6000 configs/s/core at -O2.
// Build: copy include/tapkee/neighbors/covertree.hpp into <scratch>/inc/tapkee/neighbors/ and add, in namespace
//   tapkee_internal, `extern void (*g_copy_hook)(const void* qc, const void* en, double v, int kept, int iszero);` plus a call
//   g_copy_hook(query_chi, ele->n, new_upper_bound[0], <test passes>, <1 in copy_zero_set, 0 in copy_cover_sets>) before each of
//   the two tests; then
//   g++ -std=gnu++23 -O2 -DFMT_HEADER_ONLY=1 -DTAPKEE_USE_LGPL_COVERTREE -I<scratch>/inc -I<repo>/include
//       -isystem /root/miniconda/include -isystem /usr/include/eigen3 c02_hunt2.cpp -o hunt
// Run:  ./hunt <seed> <seconds> <Nmax> <show> <mode>   mode 0 = random lattice sets (found F46 after 3e6 sets),
//       mode 1 = sets aimed at the copy radius (c, q' = c - (m,0), witnesses at L1 distance v from c with x >= 0, x beyond q'):
//       1 failing set in 100 on the pre-F46 code, none in 2e6 on the repaired code.
#include <algorithm>
#include <cmath>
#include <cstdio>
#include <cstdlib>
#include <vector>
#include <random>
#include <string>
#include <array>
#include <fmt/core.h>
#include <fmt/format.h>
#include <Eigen/Eigen>
#define private public
#include <tapkee/defines.hpp>
#include <tapkee/neighbors/neighbors.hpp>
#undef private
using namespace tapkee;
using namespace tapkee::tapkee_internal;
namespace tapkee { namespace tapkee_internal { void (*g_copy_hook)(const void*, const void*, double, int, int) = 0; } }
typedef std::vector<int> Samples;
typedef Samples::iterator It;
typedef CoverTreePoint<It> TP;
static std::vector<std::vector<double>> M;
struct cbk { ScalarType distance(int a, int b) const { return M[a][b]; } };
typedef PlainDistance<It, cbk> PD;
typedef std::vector<std::array<long,2>> Pts;
static std::mt19937_64 rng;
static long ri(long a, long b) { return a + (long)(rng() % (unsigned long)(b - a + 1)); }
static Samples S;
static int gK;
static bool g_fail, g_auditfalse;
static double g_minslack;
static std::string g_evt; static std::string g_feat;
static const node<TP>* g_top; static long g_af_top=0, g_af_nontop=0;
static const node<TP>* parent_of(const node<TP>* n, const node<TP>* t){ for(int i=0;i<t->num_children;i++){ if(&t->children[i]==n) return t; const node<TP>* r=parent_of(n,&t->children[i]); if(r) return r;} return 0;}
static void leaves(const node<TP>* n, std::vector<int>& out)
{
    if (n->num_children == 0) { out.push_back(n->p.iter_ - S.begin()); return; }
    for (int i = 0; i < n->num_children; i++) leaves(&n->children[i], out);
}
static double kth(int q) { std::vector<double> ds(M[q]); std::sort(ds.begin(), ds.end()); return ds[gK - 1]; }
static void hook(const void* qc_, const void* en_, double v, int kept, int iszero)
{
    const node<TP>* qc = (const node<TP>*)qc_; const node<TP>* en = (const node<TP>*)en_;
    if (v > 1e300) return;
    std::vector<int> Lq, Lx; leaves(qc, Lq); leaves(en, Lx);
    int c = qc->p.iter_ - S.begin(), e = en->p.iter_ - S.begin();
    int N = M.size();
    bool needed = false;
    for (int q : Lq) { double kq = kth(q); for (int x : Lx) if (M[q][x] < kq) needed = true; }
    double slack = v + qc->max_dist + (iszero ? 0 : en->max_dist) - M[c][e];
    if (needed && !kept) g_fail = true;
    if (needed && slack < g_minslack) g_minslack = slack;
    // strengthened audit
    for (int q : Lq)
    {
        double rad = v + qc->max_dist - M[c][q]; int cnt = 0;
        for (int y = 0; y < N; y++) if (M[q][y] <= rad) cnt++;
        if (cnt < gK && !g_auditfalse)
        {
            g_auditfalse = true;
            { const node<TP>* par = parent_of(qc, g_top); if (par == g_top && g_top->scale != 0) g_af_top++; else g_af_nontop++; }
            char buf[300]; snprintf(buf, sizeof buf, "qc=%d maxd=%g pard=%g v=%g q'=%d d(c,q')=%g kth(q')=%g elem=%d zero=%d kept=%d", c, qc->max_dist, qc->parent_dist, v, q, M[c][q], kth(q), e, iszero, kept);
            g_evt = buf;
        }
    }
}
static void dump(const node<TP>& n, int depth)
{
    printf("%*s%d maxd=%g pard=%g scale=%d nch=%d\n", 2 * depth, "", (int)(n.p.iter_ - S.begin()), n.max_dist, n.parent_dist, (int)n.scale, (int)n.num_children);
    for (int i = 0; i < n.num_children; i++) dump(n.children[i], depth + 1);
}
int main(int argc, char** argv)
{
    rng.seed(argc > 1 ? atol(argv[1]) : 1);
    double tmax = argc > 2 ? atof(argv[2]) : 60;
    int nmax = argc > 3 ? atoi(argv[3]) : 7;
    int show = argc > 4 ? atoi(argv[4]) : 3;
    g_copy_hook = hook;
    tapkee::Logging::instance().disable_info(); tapkee::Logging::instance().disable_warning();
    long n = 0, naf = 0, nfail = 0; time_t t0 = time(0);
    double gmin = 1e300;
    while (true)
    {
        if ((n & 255) == 0 && difftime(time(0), t0) > tmax) break;
        n++;
        int N = ri(4, nmax);
        Pts P;
        int mode = argc > 5 ? atoi(argv[5]) : 0;
        int Kfix = 0;
        if (mode == 0)
        {
            long r = (long[]){8, 12, 20, 40, 100}[ri(0, 4)];
            bool oned = ri(0, 1);
            for (int i = 0; i < N; i++) P.push_back({ri(0, r), oned ? 0 : ri(0, r / 2)});
        }
        else
        {
            // aimed at the copy radius: c, a query leaf q' at distance m behind c, K witnesses at distance v from c in
            // directions away from q', x beyond q' at distance v+m-1 from q'
            long m = ri(2, 12), v = ri(2 * m, 4 * m), sc = 1L << ri(0, 3);
            int nw = ri(3, 6);
            P.push_back({0, 0});
            P.push_back({-m, 0});
            for (int i = 0; i < nw; i++)
            {
                long a = ri(0, v), b = v - a;
                if (ri(0, 1)) b = -b;
                if (ri(0, 5) == 0 && a > 0) a -= 1;
                P.push_back({a, b});
            }
            long s = v + m - ri(1, 2);
            P.push_back({-m - s, ri(0, 1) ? 0 : ri(-1, 1)});
            if (ri(0, 1)) P.push_back({-m - s - ri(1, m), ri(-2, 2)});
            int extra = ri(0, 3);
            for (int e = 0; e < extra; e++) P.push_back({ri(-3 * v, 3 * v), ri(-3 * v, 3 * v)});
            for (auto& a : P) { a[0] *= sc; a[1] *= sc; }
            std::shuffle(P.begin(), P.end(), rng);
            N = P.size();
            Kfix = nw; g_feat = fmt::format("m={} v={} nw={} extra={} N={} ratio={}", m, v, nw, extra, N, (int)(10*v/m));
        }
        M.assign(N, std::vector<double>(N, 0));
        for (int i = 0; i < N; i++) for (int j = 0; j < N; j++) M[i][j] = std::labs(P[i][0] - P[j][0]) + std::labs(P[i][1] - P[j][1]);
        S.resize(N); for (int i = 0; i < N; i++) S[i] = i;
        for (gK = 2; gK <= 5 && gK <= N; gK++)
        {
            PD cb((cbk()));
            v_array<TP> points;
            for (It it = S.begin(); it != S.end(); ++it) push(points, TP(it, cb(it, it)));
            CoverTreeWrapper<TP, PD> ct;
            node<TP> top = ct.batch_create(cb, points);
            g_top = &top;
            v_array<v_array<TP>> res;
            g_fail = g_auditfalse = false; g_minslack = 1e300;
            ct.k_nearest_neighbor(cb, top, top, res, gK);
            if (g_minslack < gmin) gmin = g_minslack;
            {   // weak completeness of the final rows
                bool bad = res.index != N;
                for (int i = 0; i < res.index && !bad; i++)
                {
                    int q = res[i][0].iter_ - S.begin();
                    std::vector<char> in(N, 0);
                    for (int j = 1; j < res[i].index; j++) in[res[i][j].iter_ - S.begin()] = 1;
                    for (int x = 0; x < N && !bad; x++) if (!in[x])
                    {
                        int cnt = 0;
                        for (int y = 0; y < N; y++) if (in[y] && M[q][y] <= M[q][x]) cnt++;
                        if (cnt < gK) bad = true;
                    }
                }
                if (bad) { printf("ROWS INCOMPLETE K=%d %s\n", gK, g_feat.c_str()); g_fail = true; }
            }
            if (g_fail) { nfail++; printf("FAIL K=%d\n", gK); }
            if (g_auditfalse || g_fail)
            {
                naf++;
                if ((naf <= show && (g_af_nontop>0)) || g_fail)
                {
                    printf("AUDITFALSE K=%d N=%d minslack=%g: %s\n pts:", gK, N, g_minslack, g_evt.c_str());
                    for (auto& a : P) printf(" (%ld,%ld)", a[0], a[1]);
                    printf("\n"); dump(top, 1);
                }
            }
        }
    }
    printf("af_top=%ld af_nontop=%ld\n", g_af_top, g_af_nontop);
    printf("done: %ld configs, auditfalse %ld, fail %ld, min slack over needed-kept %g\n", n, naf, nfail, gmin);
}
