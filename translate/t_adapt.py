#!/usr/bin/env python3
"""T-adapt: regenerate coq/gen/ChainAdapters.v (a value of Chain_Adapt_Model.adapt_tables) from the working tree.

    python3 translate/t_adapt.py [--repo /repo] [--out coq/gen/ChainAdapters.v | --stdout]
    python3 translate/t_adapt.py --self-test

Reads   include/tapkee/callbacks/precomputed_callbacks.hpp, include/tapkee/callbacks/eigen_callbacks.hpp
            every struct: the ONE data member (a const DenseMatrix& the constructor binds to its argument) and,
            for every member function, its index parameters and the expression it returns (or assigns to its
            DenseVector& output parameter), in the expression language of coq/Chain_Adapt_Model.v:
              p                       -> APar i           (p the i-th index parameter)
              F(e1, e2)               -> AEntry F e1 e2   (F the data member)
              F.col(e)                -> ACol F e
              e1.dot(e2)              -> ADot e1 e2
              (e1 - e2).norm()        -> ANormDiff e1 e2
              F.rows(), static_cast<IndexType>(F.rows())  -> ARows F
              (p op q) ? e1 : e2      -> ACond op i j e1 e2     (p, q index parameters)
              m(p0, p1)               -> AForward m       (another member, this member's parameters in order)
              anything else           -> AOpaque "<text>"  (the Coq side then cannot show the obligation)
        include/tapkee/routines/*.hpp, utils/features.hpp, methods/*.hpp, and the bodies of PlainDistance /
        KernelDistance in neighbors/neighbors.hpp
            every call  X.kernel(..) / X.distance(..) / X.vector(..): are the DATA arguments (both of kernel /
            distance, the first of vector) dereferences of a data iterator ( *it, it[i], *(it + n) ), where a
            data iterator is an identifier declared with the type RandomAccessIterator?
The translator only reports what the text says; the meaning is given by the Coq evaluator and the theorems of
Properties_C13.v are stated over the generated table.
"""
import argparse
import glob
import os
import re
import shutil
import sys
import tempfile

sys.path.insert(0, os.path.dirname(os.path.abspath(__file__)))
from t_chain import (TranslateError, strip_comments, lex, match, split_commas, is_ident, drop_namespaces,  # noqa: E402
                     find_classes, split_decls, skip_template_header, split_statements, q, coq_list, coq_strs)
from t_use import iterator_names, join_continuations, read, BASE, METHOD_DIR, UNARY_PREV  # noqa: E402

ADAPTER_FILES = ["include/tapkee/callbacks/precomputed_callbacks.hpp", "include/tapkee/callbacks/eigen_callbacks.hpp"]
CALLSITE_GLOBS = ["include/tapkee/routines/*.hpp", "include/tapkee/utils/features.hpp", "include/tapkee/methods/*.hpp"]
WRAPPER_FILE = "include/tapkee/neighbors/neighbors.hpp"
WRAPPER_NAMES = ("PlainDistance", "KernelDistance")
INDEX_TYPES = (["int"], ["IndexType"], ["const", "int"], ["const", "IndexType"], ["long"], ["unsigned"], ["size_t"])
CMP = {"<=": "CLe", "<": "CLt", ">=": "CGe", ">": "CGt", "==": "CEq", "!=": "CNe"}
CB_MEMBERS = ("kernel", "distance", "vector")


# ----------------------------------------------------------------------------- adapter member bodies
def strip_parens(toks):
    while len(toks) >= 2 and toks[0] == "(" and match(toks, 0, "(", ")") == len(toks) - 1:
        toks = toks[1:-1]
    return toks


def top_level(toks, sym):
    """indices of sym at bracket depth 0"""
    out, depth = [], 0
    for i, t in enumerate(toks):
        if t in "([{":
            depth += 1
        elif t in ")]}":
            depth -= 1
        elif t == sym and depth == 0:
            out.append(i)
    return out


def opaque(toks):
    return ("AOpaque", " ".join(toks)[:80])


def parse_aexpr(toks, params, field, members):
    """tokens -> tuple tree of the aexpr language"""
    toks = strip_parens(drop_namespaces(list(toks)))
    if not toks:
        return opaque(toks)
    # conditional:  C ? E1 : E2
    qs = top_level(toks, "?")
    if qs:
        qi = qs[0]
        cs = [c for c in top_level(toks, ":") if c > qi]
        if not cs:
            return opaque(toks)
        cond = strip_parens(toks[:qi])
        if len(cond) == 3 and cond[0] in params and cond[2] in params and cond[1] in CMP:
            return ("ACond", CMP[cond[1]], params.index(cond[0]), params.index(cond[2]),
                    parse_aexpr(toks[qi + 1:cs[0]], params, field, members),
                    parse_aexpr(toks[cs[0] + 1:], params, field, members))
        return opaque(toks)
    if len(toks) == 1:
        if toks[0] in params:
            return ("APar", params.index(toks[0]))
        return opaque(toks)
    # static_cast<T>(E)
    if toks[0] == "static_cast" and toks[1] == "<":
        c = match(toks, 1, "<", ">")
        if c + 1 < len(toks) and toks[c + 1] == "(" and match(toks, c + 1, "(", ")") == len(toks) - 1:
            inner = parse_aexpr(toks[c + 2:-1], params, field, members)
            return inner if inner[0] == "ARows" else opaque(toks)
        return opaque(toks)
    # postfix chain: PRIMARY ( . name ( args ) )*
    # primary
    if toks[0] == "(":
        c = match(toks, 0, "(", ")")
        inner = toks[1:c]
        minus = top_level(inner, "-")
        if len(minus) == 1 and 0 < minus[0] < len(inner) - 1:
            cur = ("Diff", parse_aexpr(inner[:minus[0]], params, field, members),
                   parse_aexpr(inner[minus[0] + 1:], params, field, members))
        else:
            cur = parse_aexpr(inner, params, field, members)
        i = c + 1
    elif is_ident(toks[0]) and len(toks) > 1 and toks[1] == "(":
        c = match(toks, 1, "(", ")")
        args = split_commas(toks[2:c])
        if toks[0] == field and len(args) == 2:
            cur = ("AEntry", field, parse_aexpr(args[0], params, field, members),
                   parse_aexpr(args[1], params, field, members))
        elif toks[0] in members and len(params) == 2 and [a for a in args] == [[params[0]], [params[1]]]:
            cur = ("AForward", toks[0])
        else:
            return opaque(toks)
        i = c + 1
    elif toks[0] == field:
        cur = ("Field", field)
        i = 1
    elif toks[0] in params:
        cur = ("APar", params.index(toks[0]))
        i = 1
    else:
        return opaque(toks)
    while i < len(toks):
        if toks[i] != "." or i + 2 >= len(toks) or not is_ident(toks[i + 1]) or toks[i + 2] != "(":
            return opaque(toks)
        name = toks[i + 1]
        c = match(toks, i + 2, "(", ")")
        args = split_commas(toks[i + 3:c])
        if name == "col" and cur == ("Field", field) and len(args) == 1:
            cur = ("ACol", field, parse_aexpr(args[0], params, field, members))
        elif name == "rows" and cur == ("Field", field) and not args:
            cur = ("ARows", field)
        elif name == "dot" and len(args) == 1 and cur[0] in ("ACol",):
            cur = ("ADot", cur, parse_aexpr(args[0], params, field, members))
        elif name == "norm" and not args and cur[0] == "Diff":
            cur = ("ANormDiff", cur[1], cur[2])
        else:
            return opaque(toks)
        i = c + 1
    if cur[0] in ("Field", "Diff"):
        return opaque(toks)
    return cur


def parse_adapter_class(name, body):
    fields, ctor_field, fns = [], None, []
    for d in split_decls(body):
        if d[0] == "@access":
            continue
        if d[-1] == ";":
            core = d[:-1]
            if core[0] in ("typedef", "using") or "(" in core:
                continue
            fields.append((core[-1], drop_namespaces(core[:-1])))
            continue
        fns.append(skip_template_header(d))
    if len(fields) != 1 or fields[0][1] != ["const", "DenseMatrix", "&"]:
        raise TranslateError("%s: expected exactly one data member of type const DenseMatrix& (has %s)"
                             % (name, [(f, " ".join(t)) for f, t in fields]))
    field = fields[0][0]
    member_names = []
    parsed = []
    for t in fns:
        k = t.index("(")
        fname = t[k - 1]
        if fname == "operator":
            fname = "operator()"
            k = t.index("(", k + 2)
        close = match(t, k, "(", ")")
        j = close + 1
        inits = []
        while t[j] != "{":
            inits.append(t[j])
            j += 1
        e = match(t, j, "{", "}")
        parsed.append((fname, t[k + 1:close], inits, t[j + 1:e]))
        if fname != name:
            member_names.append(fname)
    members = []
    for fname, ptoks, inits, fbody in parsed:
        plist = [drop_namespaces(p) for p in split_commas(ptoks) if p]
        if fname == name:
            # constructor: Name(const DenseMatrix& m) : field(m) { }
            if len(plist) != 1 or plist[0][:-1] != ["const", "DenseMatrix", "&"] or fbody \
                    or inits != [":", field, "(", plist[0][-1], ")"]:
                raise TranslateError("constructor of %s does not just bind %s to its argument" % (name, field))
            ctor_field = field
            continue
        index_params, out_param = [], None
        for p in plist:
            if p[:-1] in INDEX_TYPES and is_ident(p[-1]):
                if out_param is not None:
                    raise TranslateError("%s::%s: index parameter after the output parameter" % (name, fname))
                index_params.append(p[-1])
            elif p[:-1] == ["DenseVector", "&"] and out_param is None:
                out_param = p[-1]
            else:
                raise TranslateError("%s::%s: parameter %r outside the grammar" % (name, fname, " ".join(p)))
        stmts = split_statements(fbody) if fbody else []
        if len(stmts) != 1:
            body_e = opaque(fbody)
        elif out_param is None and stmts[0][0] == "return":
            body_e = parse_aexpr(stmts[0][1:], index_params, field, member_names)
        elif out_param is not None and stmts[0][:2] == [out_param, "="]:
            body_e = parse_aexpr(stmts[0][2:], index_params, field, member_names)
        else:
            body_e = opaque(fbody)
        members.append((fname, len(index_params), out_param is not None, body_e))
    if ctor_field is None:
        raise TranslateError("%s has no constructor taking the matrix" % name)
    return (name, field, members)


def parse_adapters(repo):
    out = []
    for rel in ADAPTER_FILES:
        classes, _ = find_classes(strip_comments(read(repo, rel)))
        for name, _, body in classes:
            out.append(parse_adapter_class(name, body))
    return out


# ----------------------------------------------------------------------------- call sites of callbacks
def is_data_deref(arg, its):
    """*it | it[...] | *(it + ...) | *(it - ...)   with `it` a data iterator; the whole argument, nothing around it"""
    a = strip_parens(list(arg))
    if len(a) == 2 and a[0] == "*" and a[1] in its:
        return True
    if len(a) >= 4 and a[0] in its and a[1] == "[" and match(a, 1, "[", "]") == len(a) - 1:
        return True
    if len(a) >= 4 and a[0] == "*" and a[1] == "(" and match(a, 1, "(", ")") == len(a) - 1 and a[2] in its \
            and a[3] in ("+", "-"):
        return True
    return False


def scan_callsites(rel, toks, its, out):
    for i, t in enumerate(toks):
        if t in CB_MEMBERS and i >= 2 and toks[i - 1] in (".", "->") and i + 1 < len(toks) and toks[i + 1] == "(" \
                and is_ident(toks[i - 2]):
            c = match(toks, i + 1, "(", ")")
            args = split_commas(toks[i + 2:c])
            data = args[:1] if t == "vector" else args
            arity_ok = len(args) == 2
            ok = arity_ok and all(is_data_deref(a, its) for a in data)
            snippet = " ".join(toks[max(0, i - 2):c + 1])[:120]
            out.append((rel.replace("include/tapkee/", ""), snippet, ok))


def parse_callsites(repo):
    out, files = [], []
    base_its = iterator_names(lex(join_continuations(strip_comments(read(repo, BASE)))))
    for g in CALLSITE_GLOBS:
        for p in sorted(glob.glob(os.path.join(repo, g))):
            rel = os.path.relpath(p, repo)
            if rel in files:
                continue
            files.append(rel)
            toks = lex(join_continuations(strip_comments(open(p).read())))
            its = iterator_names(toks)
            if rel.startswith(METHOD_DIR):
                its |= base_its
            scan_callsites(rel, toks, its, out)
    # the wrappers: class bodies only (elsewhere in neighbors/ `callback` is a wrapper and takes iterators)
    classes, _ = find_classes(strip_comments(read(repo, WRAPPER_FILE)))
    files.append(WRAPPER_FILE)
    for want in WRAPPER_NAMES:
        cs = [c for c in classes if c[0] == want]
        if len(cs) != 1:
            raise TranslateError("wrapper %s not found in %s" % (want, WRAPPER_FILE))
        body = cs[0][2]
        scan_callsites(WRAPPER_FILE + ":" + want, body, iterator_names(body), out)
    return out, files


def translate(repo):
    classes = parse_adapters(repo)
    sites, files = parse_callsites(repo)
    return {"classes": classes, "callsites": sites, "callsite_files": files}


# ----------------------------------------------------------------------------- rendering
def render_aexpr(e):
    k = e[0]
    if k == "APar":
        return "APar %d" % e[1]
    if k == "AEntry":
        return "AEntry %s (%s) (%s)" % (q(e[1]), render_aexpr(e[2]), render_aexpr(e[3]))
    if k == "ACol":
        return "ACol %s (%s)" % (q(e[1]), render_aexpr(e[2]))
    if k in ("ADot", "ANormDiff"):
        return "%s (%s) (%s)" % (k, render_aexpr(e[1]), render_aexpr(e[2]))
    if k == "ARows":
        return "ARows %s" % q(e[1])
    if k == "ACond":
        return "ACond %s %d %d (%s) (%s)" % (e[1], e[2], e[3], render_aexpr(e[4]), render_aexpr(e[5]))
    if k == "AForward":
        return "AForward %s" % q(e[1])
    if k == "AOpaque":
        return "AOpaque %s" % q(e[1].replace('"', "'"))
    raise TranslateError("internal: cannot render %r" % (e,))


def render(t):
    def b(x):
        return "true" if x else "false"
    out = []
    out.append("(* GENERATED by translate/t_adapt.py from include/tapkee/callbacks/{precomputed,eigen}_callbacks.hpp and the")
    out.append("   callback call sites of routines/*.hpp, utils/features.hpp, methods/*.hpp, neighbors/neighbors.hpp -- do not edit. *)")
    out.append("From Coq Require Import List String ZArith.")
    out.append("From TK Require Import Chain_Adapt_Model.")
    out.append("Import ListNotations.")
    out.append("Local Open Scope string_scope.")
    out.append("")
    out.append("Definition adapters_gen : adapt_tables := {|")
    cls = []
    for name, field, members in t["classes"]:
        ms = ";\n".join("         {| am_name := %s; am_arity := %d; am_out := %s;\n            am_body := %s |}"
                        % (q(mn), ar, b(o), render_aexpr(e)) for mn, ar, o, e in members)
        cls.append("    {| ac_name := %s; ac_field := %s;\n       ac_members := [\n%s] |}" % (q(name), q(field), ms))
    out.append("  ad_classes := [\n" + ";\n".join(cls) + "];")
    out.append("  ad_callsite_files := %s;" % coq_strs([f.replace("include/tapkee/", "") for f in t["callsite_files"]]))
    out.append("  ad_callsites := [\n" + ";\n".join(
        "    (%s, %s, %s)" % (q(f), q(sn.replace('"', "'")), b(ok)) for f, sn, ok in t["callsites"]) + "] |}.")
    out.append("")
    return "\n".join(out)


# ----------------------------------------------------------------------------- self test
PRE = "include/tapkee/callbacks/precomputed_callbacks.hpp"
EIG = "include/tapkee/callbacks/eigen_callbacks.hpp"
MUTATIONS = [
    (PRE, r"return kernel_matrix\(a, b\);", "return (a <= b) ? kernel_matrix(a, b) : kernel_matrix(b, a);",
     "precomputed kernel reads the upper triangle only"),
    (PRE, r"return distance_matrix\(a, b\);", "return distance_matrix(b, a);", "precomputed distance transposes the pair"),
    (PRE, r"return kernel_matrix\(a, b\);", "return kernel_matrix(a, a);", "precomputed kernel reads the diagonal"),
    (PRE, r"return distance_matrix\(a, b\);", "return 0.5 * (distance_matrix(a, b) + distance_matrix(b, a));",
     "precomputed distance symmetrises"),
    (EIG, r"return \(feature_matrix\.col\(a\) - feature_matrix\.col\(b\)\)\.norm\(\);",
     "return (feature_matrix.col(a) - feature_matrix.col(b)).squaredNorm();", "eigen distance squared"),
    (EIG, r"v = feature_matrix\.col\(i\);", "v = feature_matrix.col(0);", "eigen features always the first column"),
    (EIG, r"return distance\(a, b\);", "return distance(b, a);", "eigen distance operator() swaps the pair"),
    (PRE, r"return kernel_matrix\(a, b\);", "return (kernel_matrix(a, b));", None),
    ("include/tapkee/routines/pca.hpp", r"callback\.vector\(\*iter, current_vector\);\s*current_vector_subtracted_mean",
     "callback.vector(iter - begin, current_vector);\n        current_vector_subtracted_mean",
     "project() hands the position to the features callback"),
    ("include/tapkee/routines/multidimensional_scaling.hpp", r"callback\.distance\(begin\[i_index_iter\], begin\[j_index_iter\]\)",
     "callback.distance(i_index_iter, j_index_iter)", "MDS hands loop counters to the distance callback"),
]


def self_test(repo):
    base = render(translate(repo))
    ok, seen = True, 0
    files = list(ADAPTER_FILES) + [BASE, WRAPPER_FILE]
    for g in CALLSITE_GLOBS:
        files += [os.path.relpath(p, repo) for p in glob.glob(os.path.join(repo, g))]
    for rel, pat, rep, desc in MUTATIONS:
        tmp = tempfile.mkdtemp(prefix="t_adapt_selftest_")
        try:
            for r in set(files):
                os.makedirs(os.path.dirname(os.path.join(tmp, r)), exist_ok=True)
                shutil.copy(os.path.join(repo, r), os.path.join(tmp, r))
            p = os.path.join(tmp, rel)
            new, n = re.subn(pat, rep, open(p).read(), count=1)
            if n != 1:
                print("SELF-TEST: pattern not found (source moved on?): %s" % pat)
                continue
            open(p, "w").write(new)
            try:
                changed = render(translate(tmp)) != base
                how = "table changed" if changed else "table unchanged"
            except TranslateError as ex:
                changed, how = True, "TranslateError: " + str(ex)[:90]
            if desc is None:
                if changed:
                    print("SELF-TEST FAIL: harmless edit of %s changed the output (%s)" % (rel, how))
                    ok = False
                else:
                    print("self-test ok : harmless edit of %s -> %s" % (rel, how))
            elif not changed:
                print("SELF-TEST FAIL: %s -> output unchanged" % desc)
                ok = False
            else:
                seen += 1
                print("self-test ok : %s -> %s" % (desc, how))
        finally:
            shutil.rmtree(tmp, ignore_errors=True)
    print("t_adapt self-test: %s (%d mutations seen)" % ("PASS" if ok else "FAIL", seen))
    return ok


def main():
    ap = argparse.ArgumentParser()
    ap.add_argument("--repo", default=os.environ.get("VERIF_REPO", "/repo"))
    ap.add_argument("--out", default=None)
    ap.add_argument("--stdout", action="store_true")
    ap.add_argument("--self-test", action="store_true")
    a = ap.parse_args()
    if a.self_test:
        sys.exit(0 if self_test(a.repo) else 1)
    try:
        text = render(translate(a.repo))
    except TranslateError as ex:
        print("TranslateError: %s" % ex, file=sys.stderr)
        sys.exit(2)
    if a.stdout:
        sys.stdout.write(text)
        return
    out = a.out or os.path.join(os.path.dirname(os.path.dirname(os.path.abspath(__file__))), "coq", "gen", "ChainAdapters.v")
    old = open(out).read() if os.path.exists(out) else None
    if old != text:
        open(out, "w").write(text)
        print("wrote " + out)
    else:
        print("unchanged " + out)


if __name__ == "__main__":
    main()
