#!/usr/bin/env python3
"""T-hlle: extract the column bookkeeping of hessian_weight_matrix (defect F6 lives there).

    python3 translate/t_hlle.py [--repo /repo] [--out coq/gen/HlleLoop.v]
    python3 translate/t_hlle.py --self-test

Reads include/tapkee/routines/locally_linear.hpp, isolates the body of `hessian_weight_matrix`
and extracts
    const IndexType dp = <E>;                          must be target_dimension*(target_dimension+1)/2
    DenseMatrix Yi(k, <ncols>);
    IndexType ct = <ct0>;
    for (IndexType j = <j0>; j < <jbound>; ++j)
        for (IndexType p = <p0>; p < <pbound>; ++p)
            Yi.col(<col>).noalias() = Yi.col(<src1>).cwiseProduct(Yi.col(<src2>));
        ct += <e>;     (or  ct = <e>;)
as integer-linear forms over (ct, p, j, target_dimension, dp, 1) and writes them as a Coq record
(types in coq/Lle_Loop.v).  Lle_Loop.v interprets the record with a generic evaluator and proves that it
produces exactly the writes of the hand model (Lle_Model.hlle_writes) for the repaired / the shipped
counter; any other shape makes the obligation `hlle_loop_known` fail, i.e. re-opens the proof.
Anything the small grammar below does not understand raises TranslateError.
"""
import argparse
import os
import re
import sys

FILE = "include/tapkee/routines/locally_linear.hpp"
VARS = ["ct", "p", "j", "target_dimension", "dp"]


class TranslateError(Exception):
    pass


def strip_comments(s):
    s = re.sub(r"/\*.*?\*/", lambda m: " " * len(m.group(0)), s, flags=re.S)
    return re.sub(r"//[^\n]*", "", s)


def function_body(src):
    m = re.search(r"SparseWeightMatrix\s+hessian_weight_matrix\s*\(", src)
    if not m:
        raise TranslateError("hessian_weight_matrix not found")
    i = src.find("{", m.end())
    depth = 0
    for j in range(i, len(src)):
        if src[j] == "{":
            depth += 1
        elif src[j] == "}":
            depth -= 1
            if depth == 0:
                return src[i:j + 1]
    raise TranslateError("unbalanced braces")


# ---- integer-linear expressions: dict var -> coefficient, "" for the constant
def tokens(s):
    out = re.findall(r"\s*([A-Za-z_]\w*|\d+|[-+*()])", s)
    if "".join(out) != re.sub(r"\s+", "", s):
        raise TranslateError("cannot tokenise %r" % s)
    return out


def parse_lin(s, allowed):
    toks = tokens(s)
    pos = [0]

    def peek():
        return toks[pos[0]] if pos[0] < len(toks) else None

    def take():
        t = peek()
        pos[0] += 1
        return t

    def factor():
        t = take()
        if t is None:
            raise TranslateError("unexpected end in %r" % s)
        if t == "(":
            e = expr()
            if take() != ")":
                raise TranslateError("missing ) in %r" % s)
            return e
        if t == "-":
            return {k: -v for k, v in factor().items()}
        if t.isdigit():
            return {"": int(t)}
        if t in allowed:
            return {t: 1}
        raise TranslateError("unknown identifier %r in %r" % (t, s))

    def term():
        e = factor()
        while peek() == "*":
            take()
            f = factor()
            ce = e if set(e) <= {""} else None
            cf = f if set(f) <= {""} else None
            if ce is not None:
                e = {k: v * ce.get("", 0) for k, v in f.items()}
            elif cf is not None:
                e = {k: v * cf.get("", 0) for k, v in e.items()}
            else:
                raise TranslateError("non-linear product in %r" % s)
        return e

    def expr():
        e = term()
        while peek() in ("+", "-"):
            op = take()
            f = term()
            for k, v in f.items():
                e[k] = e.get(k, 0) + (v if op == "+" else -v)
        return e

    e = expr()
    if pos[0] != len(toks):
        raise TranslateError("trailing tokens in %r" % s)
    return {k: v for k, v in e.items() if v != 0}


def one(pattern, body, what):
    ms = re.findall(pattern, body, flags=re.S)
    if len(ms) != 1:
        raise TranslateError("%s: expected exactly one match, found %d" % (what, len(ms)))
    return ms[0]


def parse(repo):
    src = strip_comments(open(os.path.join(repo, FILE)).read())
    body = function_body(src)
    tab = {}
    dp = one(r"const\s+IndexType\s+dp\s*=\s*([^;]+);", body, "dp definition")
    tab["dp_tri"] = re.sub(r"\s+", "", dp) in ("target_dimension*(target_dimension+1)/2",
                                              "(target_dimension*(target_dimension+1))/2")
    if not tab["dp_tri"]:
        raise TranslateError("dp is not target_dimension*(target_dimension+1)/2: %r" % dp)
    ncols = one(r"DenseMatrix\s+Yi\s*\(\s*k\s*,\s*([^;]+)\)\s*;", body, "Yi declaration")
    tab["ncols"] = parse_lin(ncols, ["target_dimension", "dp"])
    tab["ct0"] = parse_lin(one(r"IndexType\s+ct\s*=\s*([^;]+);", body, "ct initialisation"), ["target_dimension", "dp"])
    # the product statement and its two enclosing loops
    w = re.search(r"Yi\.col\(([^;]*?)\)\.noalias\(\)\s*=\s*Yi\.col\(([^;]*?)\)\.cwiseProduct\(\s*Yi\.col\(([^;]*?)\)\s*\)\s*;", body)
    if not w or len(re.findall(r"\.cwiseProduct\(", body)) != 1:
        raise TranslateError("product statement not found / not unique")
    tab["col"] = parse_lin(w.group(1), VARS)
    tab["src1"] = parse_lin(w.group(2), VARS)
    tab["src2"] = parse_lin(w.group(3), VARS)
    head = body[:w.start()]
    loops = list(re.finditer(r"for\s*\(\s*IndexType\s+(\w+)\s*=\s*([^;]+);\s*(\w+)\s*<\s*([^;]+);\s*(\+\+\s*(\w+)|(\w+)\s*\+\+)\s*\)", head))
    if len(loops) < 2:
        raise TranslateError("enclosing loops not found")
    lj, lp = loops[-2], loops[-1]
    for l, v in ((lj, "j"), (lp, "p")):
        stepv = l.group(6) or l.group(7)
        if l.group(1) != v or l.group(3) != v or stepv != v:
            raise TranslateError("loop over %s has an unexpected header: %r" % (v, l.group(0)))
    tab["j0"] = parse_lin(lj.group(2), ["target_dimension", "dp"])
    tab["jbound"] = parse_lin(lj.group(4), ["target_dimension", "dp", "ct"])
    tab["p0"] = parse_lin(lp.group(2), ["target_dimension", "dp", "j", "ct"])
    tab["pbound"] = parse_lin(lp.group(4), ["target_dimension", "dp", "j", "ct"])
    # nothing but the product statement inside the p loop, then the update of ct
    tail = body[w.end():]
    m = re.match(r"\s*\}\s*ct\s*(\+=|=)\s*([^;]+);\s*\}", tail)
    if not m:
        raise TranslateError("update of ct after the inner loop not found")
    e = parse_lin(m.group(2), ["ct", "j", "target_dimension", "dp"])
    if m.group(1) == "+=":
        e["ct"] = e.get("ct", 0) + 1
    tab["upd"] = {k: v for k, v in e.items() if v != 0}
    # ct must not be touched anywhere else
    others = re.findall(r"\bct\s*(?:\+=|-=|=|\+\+|--)", body)
    if len(others) != 2:
        raise TranslateError("ct is assigned %d times (expected: initialisation + one update)" % len(others))
    return tab


def lin_coq(e):
    def z(v):
        return "(%d)%%Z" % v
    return "(mk_lin %s %s %s %s %s %s)" % (z(e.get("ct", 0)), z(e.get("p", 0)), z(e.get("j", 0)),
                                            z(e.get("target_dimension", 0)), z(e.get("dp", 0)), z(e.get("", 0)))


def emit(tab):
    f = ["ct0", "j0", "jbound", "p0", "pbound", "col", "src1", "src2", "upd", "ncols"]
    lines = ["(* GENERATED by translate/t_hlle.py from %s (function hessian_weight_matrix) -- do not edit *)" % FILE,
             "Require Import ZArith.",
             "From TK Require Import Lle_Loop.",
             "",
             "(* linear forms: coefficients of ct, p, j, target_dimension, dp and the constant *)",
             "Definition hlle_loop_src : hlle_loop :=",
             "  mk_hlle_loop"]
    for k in f:
        lines.append("    %s  (* %s *)" % (lin_coq(tab[k]), k))
    lines.append("    %s.  (* dp = target_dimension * (target_dimension + 1) / 2 *)" % ("true" if tab["dp_tri"] else "false"))
    return "\n".join(lines) + "\n"


def write_if_changed(path, text):
    os.makedirs(os.path.dirname(path), exist_ok=True)
    if os.path.exists(path) and open(path).read() == text:
        return False
    tmp = path + ".tmp%d" % os.getpid()
    open(tmp, "w").write(text)
    os.replace(tmp, path)
    return True


def self_test(repo):
    """seeded edits of a scratch copy must change the table or be rejected"""
    import shutil
    import tempfile
    base = emit(parse(repo))
    muts = [("ct += target_dimension - j;", "ct += ct + target_dimension - j;"),
            ("Yi.col(ct + p + 1 + target_dimension)", "Yi.col(ct + p + target_dimension)"),
            ("cwiseProduct(Yi.col(j + p + 1))", "cwiseProduct(Yi.col(p + 1))"),
            ("p < target_dimension - j", "p < target_dimension"),
            ("DenseMatrix Yi(k, 1 + target_dimension + dp)", "DenseMatrix Yi(k, target_dimension + dp)")]
    bad = []
    for old, new in muts:
        d = tempfile.mkdtemp(prefix="t_hlle_")
        try:
            os.makedirs(os.path.join(d, os.path.dirname(FILE)))
            s = open(os.path.join(repo, FILE)).read()
            if old not in s:
                continue      # the tree under test already differs here
            open(os.path.join(d, FILE), "w").write(s.replace(old, new, 1))
            try:
                if emit(parse(d)) == base:
                    bad.append(old)
            except TranslateError:
                pass
        finally:
            shutil.rmtree(d, ignore_errors=True)
    return bad


if __name__ == "__main__":
    ap = argparse.ArgumentParser()
    ap.add_argument("--repo", default=os.environ.get("VERIF_REPO", "/repo"))
    ap.add_argument("--out", default=None)
    ap.add_argument("--self-test", action="store_true")
    a = ap.parse_args()
    if a.self_test:
        b = self_test(a.repo)
        print("self-test:", "ok" if not b else "UNDETECTED: %s" % b)
        sys.exit(1 if b else 0)
    t = emit(parse(a.repo))
    if a.out:
        print("written" if write_if_changed(a.out, t) else "unchanged")
    else:
        sys.stdout.write(t)
