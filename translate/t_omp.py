#!/usr/bin/env python3
"""T-omp — regenerate coq/gen/Omp.v (region descriptors of property C15) from the C++ working tree.

A careful source-level parser (the clang JSON AST of one tapkee TU is several GB): for every file
under <repo>/include and <repo>/src that contains `#pragma omp`, after comment stripping and evaluation
of the #ifdef branches (both heap variants of routines/isomap.hpp are translated), every
`#pragma omp parallel` region is parsed into a statement tree and the following is extracted

  * the variables captured from outside the region (function parameters, locals declared before the
    region) = SHARED; the variables declared inside the region before the work-shared loop, and the
    names in a private(...) clause = PRIVATE per thread, persistent across iterations; the induction
    variable of the `omp for`; variables declared inside the loop body = local to an iteration;
  * every access of the loop body to a shared variable that is written, appended to or used in a way
    the translator cannot classify anywhere in the region: read/write, inside `omp critical` or not,
    kind (element / append / opaque), and its (at most two) index expressions in the language of
    coq/Par_Region_Model.v:  XIt c = IV + c,  XIn lo hi = an inner-loop variable with canonical bounds
    (BIt c = IV + c, BTop = no information),  XAny = anything else;
  * for every private persistent variable how the body treats it: PConst (never written), PInit (first
    event is an unconditional plain write), PRestored (last top-level event is clear()), PStale;
  * from hessian_weight_matrix the counter update and the column index of the quadratic block of Yi.

Nothing is dropped silently: a construct the translator does not understand (unknown method on a
shared object, unknown free function taking a shared object, other omp directives inside a region,
assignment to the induction variable, ...) becomes an AOpaque access, which the Coq checker rejects.

Trusted: that the C++ semantics of the recognised forms is what the tables below say (Eigen's
operator()(i,j) touches exactly element (i,j); row(e)/col(e) touch that row/column; the const methods
do not mutate; callbacks are reentrant).

usage: t_omp.py [--repo DIR] [--out FILE] [--json FILE] [--print] [--self-test]
"""
import argparse
import json
import os
import re
import shutil
import sys
import tempfile

HERE = os.path.dirname(os.path.abspath(__file__))
VERIF = os.path.dirname(HERE)


class TranslateError(Exception):
    pass


# ----------------------------------------------------------------------------- tables
CONST_METHODS = {
    "size", "rows", "cols", "begin", "end", "cbegin", "cend", "empty", "top", "first", "second", "front",
    "back", "transpose", "eigenvectors", "eigenvalues", "sum", "trace", "norm", "squaredNorm", "dot",
    "cwiseProduct", "cwiseSqrt", "cwiseAbs", "colwise", "rowwise", "distance", "kernel", "solve", "ldlt",
    "llt", "inverse", "mean", "minCoeff", "maxCoeff", "data", "at", "count", "find", "info", "value",
    "row_", "col_", "outerSize", "innerSize", "nonZeros", "get_num_nodes",
}
VIEW_METHODS = {   # give a view on (part of) the object: whole-object pattern; writable
    "block", "rightCols", "leftCols", "topRows", "bottomRows", "head", "tail", "segment", "diagonal",
    "array", "matrix", "noalias", "selfadjointView", "triangularView", "transpose", "middleCols",
    "middleRows", "topLeftCorner", "bottomRightCorner",
}
INIT_METHODS = {"compute", "setConstant", "setZero", "setOnes", "setIdentity", "setRandom", "fill", "assign"}
APPEND_METHODS = {"push_back", "emplace_back"}
CLEAR_METHODS = {"clear"}
MUTATING_METHODS = {
    "insert", "decrease_key", "extract_min", "push", "pop", "pop_back", "reserve", "resize", "swap",
    "erase", "rankUpdate", "conservativeResize", "setFromTriplets", "emplace", "normalize",
} | INIT_METHODS | APPEND_METHODS | CLEAR_METHODS
PURE_FUNCTIONS = {
    "exp", "sqrt", "log", "pow", "abs", "fabs", "min", "max", "floor", "ceil", "static_cast", "isnan",
    "isinf", "isfinite", "sizeof", "const_cast", "reinterpret_cast", "dynamic_cast", "make_pair",
    "back_inserter",
    # OpenMP queries: read ICVs / the team of the calling thread, touch no program memory (what their VALUE is used
    # for is the business of the distribution descriptor, dist_of_manual)
    "omp_get_thread_num", "omp_get_num_threads", "omp_get_max_threads", "omp_in_parallel", "omp_get_level",
    "omp_get_num_procs", "omp_get_thread_limit",
}
MUTATES_ARGS = {"centerMatrix"}     # free functions that modify their (first) argument in place
ITER_MUTATORS = {
    "fill", "fill_n", "swap", "sort", "stable_sort", "transform", "iota", "generate", "reverse",
    "rotate", "partial_sort", "nth_element", "random_shuffle", "shuffle", "remove", "unique", "memset",
    "memcpy", "for_each", "move", "copy_n", "copy_backward",
}
# member functions that hand out an iterator / pointer INTO the container (wave 4: "claim then fill in place")
ITER_SOURCES = {"begin", "end", "rbegin", "rend", "cbegin", "cend", "data"}
# member functions after which iterators / pointers into a contiguous container may dangle (reallocation)
REALLOC_METHODS = {"resize", "reserve", "push_back", "emplace_back", "insert", "emplace", "conservativeResize", "assign",
                   "shrink_to_fit", "swap", "clear", "erase", "pop_back"}
KEYWORDS = {
    "for", "while", "if", "else", "do", "return", "continue", "break", "new", "delete", "const",
    "static", "typename", "template", "struct", "class", "namespace", "using", "typedef", "switch",
    "case", "default", "goto", "try", "catch", "throw", "sizeof", "true", "false", "nullptr", "this",
    "inline", "auto", "void", "int", "bool", "double", "float", "char", "long", "short", "unsigned",
    "signed", "operator", "public", "private", "protected", "virtual", "friend", "enum", "union",
}
TYPE_KEYWORDS = {"auto", "void", "int", "bool", "double", "float", "char", "long", "short", "unsigned",
                 "signed", "size_t"}
ASSIGN_OPS = {"=", "+=", "-=", "*=", "/=", "%=", "|=", "&=", "^=", "<<=", ">>="}


# ----------------------------------------------------------------------------- lexing
def strip_comments(text):
    out, i, n = [], 0, len(text)
    while i < n:
        c = text[i]
        if text.startswith("//", i):
            j = text.find("\n", i)
            i = n if j < 0 else j
        elif text.startswith("/*", i):
            j = text.find("*/", i + 2)
            seg = text[i: (n if j < 0 else j + 2)]
            out.append("\n" * seg.count("\n"))
            i = n if j < 0 else j + 2
        elif c == '"' or c == "'":
            j = i + 1
            while j < n and text[j] != c:
                j += 2 if text[j] == "\\" else 1
            out.append(text[i:j + 1])
            i = j + 1
        else:
            out.append(c)
            i += 1
    return "".join(out)


def eval_cond(expr, macros):
    e = re.sub(r"defined\s*\(\s*(\w+)\s*\)", lambda m: " True " if m.group(1) in macros else " False ", expr)
    e = re.sub(r"defined\s+(\w+)", lambda m: " True " if m.group(1) in macros else " False ", e)
    e = e.replace("&&", " and ").replace("||", " or ")
    e = re.sub(r"!(?!=)", " not ", e)
    e = re.sub(r"\b([A-Za-z_]\w*)\b", lambda m: m.group(1) if m.group(1) in ("True", "False", "and", "or", "not")
               else ("1" if m.group(1) in macros else "0"), e)
    try:
        return bool(eval(e, {"__builtins__": {}}, {}))
    except Exception:
        return False


def preprocess(text, macros):
    """evaluate conditional directives; keep `#pragma omp` lines; drop the other directives.
    Line structure is preserved (dropped lines become empty)."""
    out = []
    stack = []      # (parent_active, this_branch_taken_already, currently_active)
    active = True
    lines = text.split("\n")
    k = 0
    while k < len(lines):
        line = lines[k]
        # continuation lines of directives
        s = line.strip()
        if s.startswith("#"):
            full = s
            while full.endswith("\\") and k + 1 < len(lines):
                k += 1
                out.append("")
                full = full[:-1] + " " + lines[k].strip()
            d = re.match(r"#\s*(\w+)\s*(.*)", full)
            name, rest = (d.group(1), d.group(2)) if d else ("", "")
            if name in ("ifdef", "ifndef", "if"):
                if name == "ifdef":
                    c = rest.split()[0] in macros
                elif name == "ifndef":
                    c = rest.split()[0] not in macros
                else:
                    c = eval_cond(rest, macros)
                stack.append((active, c, active and c))
                active = active and c
            elif name == "elif":
                par, taken, _ = stack.pop()
                c = (not taken) and eval_cond(rest, macros)
                stack.append((par, taken or c, par and c))
                active = par and c
            elif name == "else":
                par, taken, _ = stack.pop()
                stack.append((par, True, par and not taken))
                active = par and not taken
            elif name == "endif":
                par, _, _ = stack.pop()
                active = par
            elif name == "pragma" and active and rest.startswith("omp"):
                out.append("#pragma " + " ".join(rest.split()))
                k += 1
                continue
            elif name == "define" and active:
                m = re.match(r"(\w+)", rest)
                if m:
                    macros = set(macros) | {m.group(1)}
            out.append("")
        else:
            out.append(line if active else "")
        k += 1
    return "\n".join(out)


TOKEN_RE = re.compile(
    r"(#pragma[^\n]*)|([A-Za-z_]\w*)|((?:\d+\.?\d*|\.\d+)(?:[eE][+-]?\d+)?[fFuUlL]*)|"
    r"(\"(?:\\.|[^\"\\])*\"|'(?:\\.|[^'\\])*')|"
    r"(<<=|>>=|::|->|\+\+|--|\+=|-=|\*=|/=|%=|\|=|&=|\^=|==|!=|<=|>=|&&|\|\||[-+*/%<>=!&|^~?:;,.()\[\]{}])")


class Tok:
    __slots__ = ("k", "s", "line")

    def __init__(self, k, s, line):
        self.k, self.s, self.line = k, s, line

    def __repr__(self):
        return self.s


def tokenize(text):
    toks = []
    line = 1
    pos = 0
    n = len(text)
    while pos < n:
        c = text[pos]
        if c == "\n":
            line += 1
            pos += 1
            continue
        if c.isspace():
            pos += 1
            continue
        m = TOKEN_RE.match(text, pos)
        if not m:
            pos += 1
            continue
        if m.group(1):
            toks.append(Tok("pragma", m.group(1), line))
        elif m.group(2):
            toks.append(Tok("id", m.group(2), line))
        elif m.group(3):
            toks.append(Tok("num", m.group(3), line))
        elif m.group(4):
            toks.append(Tok("str", m.group(4), line))
        else:
            toks.append(Tok("op", m.group(5), line))
        pos = m.end()
    return toks


def S(toks):
    return " ".join(t.s for t in toks)


# ----------------------------------------------------------------------------- statement parser
OPEN = {"(": ")", "[": "]", "{": "}"}


def match_close(toks, i):
    """toks[i] is an opening bracket; index of its partner"""
    o = toks[i].s
    c = OPEN[o]
    depth = 0
    for j in range(i, len(toks)):
        if toks[j].s == o:
            depth += 1
        elif toks[j].s == c:
            depth -= 1
            if depth == 0:
                return j
    raise TranslateError("unbalanced %s at line %d" % (o, toks[i].line))


def split_top(toks, sep):
    """split a token list at top-level occurrences of sep (brackets and template angles respected
    only for () [] {})"""
    parts, cur, depth = [], [], 0
    for t in toks:
        if t.s in OPEN:
            depth += 1
        elif t.s in (")", "]", "}"):
            depth -= 1
        if t.s == sep and depth == 0:
            parts.append(cur)
            cur = []
        else:
            cur.append(t)
    parts.append(cur)
    return parts


def stmt_end(toks, i):
    """index of the ';' ending the simple statement starting at i"""
    depth = 0
    j = i
    while j < len(toks):
        s = toks[j].s
        if s in OPEN:
            depth += 1
        elif s in (")", "]", "}"):
            depth -= 1
            if depth < 0:
                raise TranslateError("statement runs out of its block at line %d" % toks[i].line)
        elif s == ";" and depth == 0:
            return j
        j += 1
    raise TranslateError("unterminated statement at line %d" % toks[i].line)


def parse_stmt(toks, i):
    t = toks[i]
    if t.k == "pragma":
        text = t.s[len("#pragma "):]
        words = text.split()
        if words[:2] == ["omp", "critical"]:
            body, j = parse_stmt(toks, i + 1)
            return ("crit", body, t.line), j
        if words[:2] == ["omp", "for"]:
            body, j = parse_stmt(toks, i + 1)
            return ("ompfor", text, body, t.line), j
        return ("pragma", text, t.line), i + 1
    if t.s == "{":
        e = match_close(toks, i)
        return ("block", parse_seq(toks[i + 1:e]), t.line), e + 1
    if t.s == "for":
        if toks[i + 1].s != "(":
            raise TranslateError("for without ( at line %d" % t.line)
        e = match_close(toks, i + 1)
        hdr = split_top(toks[i + 2:e], ";")
        body, j = parse_stmt(toks, e + 1)
        return ("for", hdr, body, t.line), j
    if t.s == "while":
        e = match_close(toks, i + 1)
        body, j = parse_stmt(toks, e + 1)
        return ("while", toks[i + 2:e], body, t.line), j
    if t.s == "do":
        body, j = parse_stmt(toks, i + 1)
        if toks[j].s != "while":
            raise TranslateError("do without while at line %d" % t.line)
        e = match_close(toks, j + 1)
        return ("while", toks[j + 2:e], body, t.line), stmt_end(toks, e) + 1
    if t.s == "if":
        e = match_close(toks, i + 1)
        then, j = parse_stmt(toks, e + 1)
        els = None
        if j < len(toks) and toks[j].s == "else":
            els, j = parse_stmt(toks, j + 1)
        return ("if", toks[i + 2:e], then, els, t.line), j
    if t.s in ("continue", "break"):
        return ("jump", t.s, t.line), stmt_end(toks, i) + 1
    if t.s == ";":
        return ("empty", t.line), i + 1
    e = stmt_end(toks, i)
    return ("simple", toks[i:e], t.line), e + 1


def parse_seq(toks):
    out, i = [], 0
    while i < len(toks):
        st, i = parse_stmt(toks, i)
        out.append(st)
    return out


def skip_template(toks, i):
    """toks[i] == '<' opening template arguments; index after the matching '>' or None"""
    depth = 0
    j = i
    while j < len(toks):
        s = toks[j].s
        if s == "<":
            depth += 1
        elif s == ">":
            depth -= 1
            if depth == 0:
                return j + 1
        elif s == ">>":
            depth -= 2
            if depth <= 0:
                return j + 1
        elif s in (";", "{", "}", "=", "&&", "||"):
            return None
        j += 1
    return None


def decl_names(toks):
    """if the simple statement is a declaration: list of (name, initialiser tokens, rest-after-name);
    else None.   [const] TYPE[<...>] [&*]* NAME ( = | ( | ; | , | [ | { ) ..."""
    i = 0
    n = len(toks)
    while i < n and toks[i].s in ("const", "static", "typename", "volatile", "mutable", "register"):
        i += 1
    if i >= n or toks[i].k != "id" or (toks[i].s in KEYWORDS and toks[i].s not in TYPE_KEYWORDS):
        return None
    # qualified type name
    j = i + 1
    while j < n and toks[j].k == "id" and toks[j - 1].s in TYPE_KEYWORDS and toks[j].s in TYPE_KEYWORDS:
        j += 1
    while True:
        if j < n and toks[j].s == "<":
            k = skip_template(toks, j)
            if k is None:
                return None
            j = k
        if j + 1 < n and toks[j].s == "::" and toks[j + 1].k == "id":
            j += 2
            continue
        break
    while j < n and toks[j].s in ("&", "*", "const", "&&"):
        j += 1
    if j >= n or toks[j].k != "id" or toks[j].s in KEYWORDS:
        return None
    if j + 1 < n and toks[j + 1].s not in ("=", "(", ",", "[", "{"):
        return None
    # declarators separated by top-level commas
    out = []
    for part in split_top(toks[j:], ","):
        p = [x for x in part]
        while p and p[0].s in ("&", "*"):
            p = p[1:]
        if not p or p[0].k != "id":
            return None
        out.append((p[0].s, p[1:]))
    return out


# ----------------------------------------------------------------------------- analysis of one region
class Region:
    def __init__(self, name, line):
        self.name = name
        self.line = line
        self.shared = set()
        self.priv = []           # names, in declaration order
        self.iv = None
        self.accesses = []       # dicts
        self.events = {}         # private name -> list of (kind, conditional, toplevel)
        self.notes = []
        self.if_clause = None    # text of an `if (...)` clause of the parallel directive
        self.clauses = []        # [(name, argument)] of the parallel directive and of its `omp for`s
        self.loops = []          # [{"iv", "lo", "hi", "cmp"}] of the work-shared loops
        self.func = ""
        self.file = ""
        self.func_consts = []    # numeric constants of the enclosing function that can act as size thresholds
        self.dist = ["DUnknown"]     # who runs the iterations (Par_Team_Model.dist)
        self.dist_what = ""


def is_intlit(t):
    return t.k == "num" and re.fullmatch(r"\d+[uUlL]*", t.s) is not None


def strip_parens(toks):
    while len(toks) >= 2 and toks[0].s == "(" and match_close(toks, 0) == len(toks) - 1:
        toks = toks[1:-1]
    return toks


class Analyzer:
    def __init__(self, region, shared, priv, clause_private=()):
        self.r = region
        self.shared = set(shared)
        self.priv = list(priv)
        self.locals = set()
        self.loops = []          # (var, lo_toks, hi_toks, cmp, valid)
        self.iv = None
        self.crit = False
        self.iter_alias = {}     # local name -> {"var": shared container, "crit": obtained under the lock?, "line"}
        self.cond = 0
        self.depth = 0           # nesting below the omp-for body (0 = top level statement of the body)
        for p in self.priv:
            self.r.events.setdefault(p, [])

    # ---- index expressions
    def affine_iv(self, toks):
        toks = strip_parens(toks)
        if len(toks) == 1 and toks[0].s == self.iv:
            return 0
        if len(toks) == 3 and toks[1].s in ("+", "-"):
            a, op, b = toks
            if a.s == self.iv and is_intlit(b):
                return int(re.sub(r"\D", "", b.s)) * (1 if op.s == "+" else -1)
            if b.s == self.iv and is_intlit(a) and op.s == "+":
                return int(re.sub(r"\D", "", a.s))
        return None

    def bound(self, toks, plus=0):
        c = self.affine_iv(toks) if toks is not None else None
        return ("BTop",) if c is None else ("BIt", c + plus)

    def invariant(self, toks):
        """a loop bound that does not change during the region: IV + c, a literal, or one identifier
        that is neither a loop variable nor declared inside the loop body"""
        if toks is None:
            return False
        toks = strip_parens(toks)
        if self.affine_iv(toks) is not None:
            return True
        if len(toks) == 1 and (is_intlit(toks[0]) or (
                toks[0].k == "id" and toks[0].s not in self.locals
                and all(toks[0].s != l[0] for l in self.loops))):
            return True
        return False

    def ix_of(self, toks):
        x, _ = self.ix_exact(toks)
        return x

    def ix_exact(self, toks):
        """(index pattern, whether the pattern describes the touched indices exactly)"""
        toks = strip_parens(toks)
        c = self.affine_iv(toks)
        if c is not None:
            return ("XIt", c), True
        if len(toks) == 1 and toks[0].k == "id":
            for (var, lo, hi, cmp_, valid) in reversed(self.loops):
                if var == toks[0].s:
                    if not valid:
                        return ("XAny",), False
                    lob = self.bound(lo)
                    hib = self.bound(hi, 1 if cmp_ == "<=" else 0) if cmp_ in ("<", "<=") else ("BTop",)
                    return ("XIn", lob, hib), (cmp_ in ("<", "<=") and self.invariant(lo) and self.invariant(hi))
        return ("XAny",), False

    # ---- recording
    def access(self, var, write, kind, i1=("XAny",), i2=("XAny",), line=0, what=""):
        self.r.accesses.append({"var": var, "write": bool(write), "crit": self.crit, "kind": kind,
                                "i": i1, "j": i2, "line": line, "what": what, "exact": False})

    def event(self, var, kind, line):
        self.r.events.setdefault(var, []).append((kind, self.cond > 0, self.depth == 0, line))

    def tracked(self, name):
        if name in self.locals:
            return None
        if name in self.priv:
            return "priv"
        if name in self.shared:
            return "shared"
        return None

    # ---- postfix chains
    def chain(self, toks, p):
        """postfix chain of the identifier at toks[p]: list of elements, index after the chain"""
        ch = []
        j = p + 1
        n = len(toks)
        while j < n:
            s = toks[j].s
            if s == "(":
                e = match_close(toks, j)
                ch.append(("call", toks[j + 1:e]))
                j = e + 1
            elif s == "[":
                e = match_close(toks, j)
                ch.append(("index", toks[j + 1:e]))
                j = e + 1
            elif s in (".", "->") and j + 1 < n and toks[j + 1].k == "id":
                k = j + 1
                if toks[k].s == "template" and k + 1 < n:
                    k += 1
                name = toks[k].s
                k += 1
                if k < n and toks[k].s == "<":
                    k2 = skip_template(toks, k)
                    if k2 is not None and k2 < n and toks[k2].s == "(":
                        k = k2
                ch.append(("member", name))
                j = k
            else:
                break
        return ch, j

    def pattern(self, ch):
        """(ix1, ix2, leading elements consumed, exact) of an element-style access"""
        if ch and ch[0][0] == "call":
            args = [a for a in split_top(ch[0][1], ",") if a]
            if len(args) == 2:
                (a, ea), (b, eb) = self.ix_exact(args[0]), self.ix_exact(args[1])
                return a, b, 1, ea and eb
            if len(args) == 1:
                a, ea = self.ix_exact(args[0])
                return a, ("XAny",), 1, ea
            return ("XAny",), ("XAny",), 1, False
        if ch and ch[0][0] == "index":
            if len(ch) > 1 and ch[1][0] == "index":
                (a, ea), (b, eb) = self.ix_exact(ch[0][1]), self.ix_exact(ch[1][1])
                return a, b, 2, ea and eb
            a, ea = self.ix_exact(ch[0][1])
            return a, ("XAny",), 1, ea
        if len(ch) > 1 and ch[0][0] == "member" and ch[0][1] in ("row", "col") and ch[1][0] == "call":
            e, ee = self.ix_exact(ch[1][1])
            return (e, ("XAny",), 2, ee) if ch[0][1] == "row" else (("XAny",), e, 2, ee)
        return ("XAny",), ("XAny",), 0, None

    @staticmethod
    def argname(toks):
        toks = strip_parens(toks)
        return toks[0].s if len(toks) == 1 and toks[0].k in ("id", "num") else "?"

    def form_of(self, ch, used):
        """textual form of the indexed part of an access, for the cross-check against the clang AST"""
        if used == 0 or not ch:
            return ["whole"]
        if ch[0][0] == "call":
            return ["()"] + [self.argname(a) for a in split_top(ch[0][1], ",") if a]
        if ch[0][0] == "index":
            out = ["[]", self.argname(ch[0][1])]
            if used == 2:
                out.append(self.argname(ch[1][1]))
            return out
        if ch[0][0] == "member":
            return [ch[0][1], self.argname(ch[1][1])]
        return ["whole"]

    def enclosing_call(self, toks, p):
        """name of the function whose argument list directly or indirectly contains position p"""
        depth = 0
        j = p - 1
        while j >= 0:
            s = toks[j].s
            if s in (")", "]"):
                depth += 1
            elif s in ("(", "["):
                if depth == 0:
                    if s == "(":
                        k = j - 1
                        if k >= 0 and toks[k].s == ">":     # f<T>(...)
                            d = 0
                            while k >= 0:
                                if toks[k].s == ">":
                                    d += 1
                                elif toks[k].s == "<":
                                    d -= 1
                                    if d == 0:
                                        break
                                k -= 1
                            k -= 1
                        if k >= 0 and toks[k].k == "id":
                            is_method = k >= 1 and toks[k - 1].s in (".", "->")
                            return toks[k].s, is_method
                    return None, False
                depth -= 1
            j -= 1
        return None, False

    def occurrence(self, toks, p, target_op=None):
        """classify the occurrence of a tracked variable at toks[p].  target_op: the assignment operator
        if this occurrence (with its whole chain) is the target of the statement.  Returns index after
        the chain."""
        name = toks[p].s
        kind = self.tracked(name)
        ch, end = self.chain(toks, p)
        line = toks[p].line
        # reads inside the chain (index expressions, call arguments)
        for el in ch:
            if el[0] in ("call", "index"):
                self.scan(el[1])
        i1, i2, used, exact = self.pattern(ch)
        form = self.form_of(ch, used)
        rest = ch[used:]
        members = [el[1] for el in rest if el[0] == "member"]
        if exact is None:      # whole object: exact unless narrowed by a partial view
            exact = not any(m in VIEW_METHODS and m not in ("noalias", "array", "matrix") for m in members)
        write = False
        akind = "AElem"
        ev = "R"
        what = name + "".join("." + m for m in members)
        unknown = [m for m in members if m not in CONST_METHODS and m not in VIEW_METHODS
                   and m not in MUTATING_METHODS and m not in ("row", "col")]
        if target_op is not None:
            write = True
            ev = "W" if target_op == "=" else "RMW"
            if any(m in CONST_METHODS and m not in VIEW_METHODS for m in members):
                akind = "AOpaque"      # assignment through something that is not a view
        elif any(m in APPEND_METHODS for m in members):
            write, akind, ev = True, "AAppend", "M"
        elif any(m in CLEAR_METHODS for m in members):
            write, akind, ev = True, "AOpaque", "CLR"
        elif any(m in INIT_METHODS for m in members):
            write, ev = True, "W"
        elif any(m in MUTATING_METHODS for m in members):
            write, akind, ev = True, "AOpaque", "M"
        elif unknown:
            write, akind, ev = True, "AOpaque", "M"
            what += " (unknown method %s)" % unknown[0]
        elif not ch:
            # bare occurrence
            prev = toks[p - 1].s if p > 0 else ""
            nxt = toks[p + 1].s if p + 1 < len(toks) else ""
            fn, is_method = self.enclosing_call(toks, p)
            if prev in ("++", "--") or nxt in ("++", "--"):
                write, ev = True, "RMW"
            elif prev == "&" and (p < 2 or toks[p - 2].s in ("(", ",", "=", "return")):
                write, akind, ev = True, "AOpaque", "M"
                what += " (address taken)"
            elif fn == "back_inserter":
                write, akind, ev = True, "AAppend", "M"
            elif fn in MUTATES_ARGS:
                write, ev = True, "RMW"
            elif fn in ITER_MUTATORS and not is_method:
                write, akind, ev = True, "AOpaque", "M"
                what += " (argument of %s)" % fn
            elif (fn is not None and not is_method and fn not in PURE_FUNCTIONS and fn != "copy"
                  and not fn[0].isupper() and self.tracked(fn) is None):
                write, akind, ev = True, "AOpaque", "M"
                what += " (argument of unknown function %s)" % fn
        else:
            fn, is_method = self.enclosing_call(toks, p)
            if fn in ITER_MUTATORS and not is_method:
                write, akind, ev = True, "AOpaque", "M"
                what += " (inside %s)" % fn
        if kind == "shared":
            self.access(name, write, akind, i1, i2, line, what)
            self.r.accesses[-1]["exact"] = bool(exact) if akind == "AElem" else (akind == "AAppend")
            self.r.accesses[-1]["form"] = ["append"] if akind == "AAppend" else (["opaque"] if akind == "AOpaque" else form)
        elif kind == "priv":
            self.event(name, ev, line)
        return end

    def untracked(self, toks, p):
        """toks[p] is an identifier that is neither a local, a private nor a captured variable of the enclosing
        function: a global, a static, a data member (also written `this->x`), a function, a type, a namespace.
        Mutations of such a name and calls of functions without a summary are recorded as opaque accesses
        (nothing outside the enclosing function is tracked, so nothing can bound them)."""
        t = toks[p]
        n = len(toks)
        prev = toks[p - 1].s if p > 0 else ""
        nxt = toks[p + 1].s if p + 1 < n else ""
        if t.s in KEYWORDS or t.s in self.locals or t.s == self.iv or any(t.s == l[0] for l in self.loops):
            return
        member = prev == "->" and p >= 2 and toks[p - 2].s == "this"
        if prev in (".", "->") and not member:
            return
        if nxt == "::":
            return
        if nxt == "(":
            # a free (possibly qualified) function call
            if prev == "::" or not (p == 0 or prev not in (".", "->")):
                pass
            if (t.s in PURE_FUNCTIONS or t.s in MUTATES_ARGS or t.s in ITER_MUTATORS or t.s == "copy"
                    or t.s[0].isupper() or t.s in TYPE_KEYWORDS or t.s.endswith("_t")
                    or t.s in ("numeric_limits", "pair", "vector", "fill")):
                return
            # `T x(args)` declares x: the previous token is then a type name / `>` / `&` / `*`
            if p > 0 and (toks[p - 1].k == "id" and toks[p - 1].s not in KEYWORDS or prev in (">", "&", "*")) \
                    and prev not in ("return",):
                return
            self.access("<call>", True, "AOpaque", line=t.line,
                        what="call of %s(...): no summary of what it touches" % t.s)
            return
        if prev == "::" and not member:
            # qualified name used as a value: a namespace-level / static variable
            pass
        ch, end = self.chain(toks, p)
        members = [el[1] for el in ch if el[0] == "member"]
        after = toks[end].s if end < n else ""
        wr = None
        if prev in ("++", "--") or after in ("++", "--"):
            wr = "incremented"
        elif after in ASSIGN_OPS and (member or prev in ("", ";", "{", "}", "(", ")", ",", "*") or p == 0):
            wr = "assigned"
        elif any(m in MUTATING_METHODS for m in members):
            wr = "mutated through ." + next(m for m in members if m in MUTATING_METHODS)
        if wr:
            self.access(t.s, True, "AOpaque", line=t.line,
                        what="%s%s is not declared in the enclosing function (global, static or data member) and is %s "
                             "in the loop body" % ("this->" if member else "", t.s, wr))

    def scan(self, toks, target=None):
        """all tracked occurrences in an expression; target = (position, op) of the assignment target"""
        p = 0
        n = len(toks)
        while p < n:
            t = toks[p]
            if t.k == "id" and (p == 0 or toks[p - 1].s not in (".", "->", "::")) and self.tracked(t.s) \
                    and not (p + 1 < n and toks[p + 1].s == "::"):
                top = target[1] if (target is not None and target[0] == p) else None
                # the chain's inner expressions are scanned by occurrence(); skip over the chain
                p = self.occurrence(toks, p, top)
            else:
                if t.k == "id" and self.iv is not None and not self.tracked(t.s):
                    self.untracked(toks, p)
                p += 1

    def cond_alias(self, name, prefix, init, line):
        """wave 4: a non-const reference / pointer bound to `c ? a : b` may bind to a shared object: what is written through
        it later is invisible to the footprint analysis, so the binding itself is recorded as an access that cannot be bounded"""
        if not ("&" in prefix or "&&" in prefix or "*" in prefix) or "const" in prefix:
            return
        depth_ = 0
        cond_at = None
        for z_, t_ in enumerate(init):
            if t_.s in OPEN:
                depth_ += 1
            elif t_.s in (")", "]", "}"):
                depth_ -= 1
            elif t_.s == "?" and depth_ == 0:
                cond_at = z_
                break
        if cond_at is None:
            return
        for z_ in range(cond_at + 1, len(init)):
            t_ = init[z_]
            if t_.k == "id" and init[z_ - 1].s in ("?", ":", "&", "(") and self.tracked(t_.s) == "shared" \
                    and (z_ + 1 == len(init) or init[z_ + 1].s in (":", ")", ";")):
                self.access(t_.s, True, "AOpaque", line=line,
                            what="reference / pointer %s may bind to shared %s (conditional initialiser)" % (name, t_.s))
                self.r.accesses[-1]["form"] = ["opaque"]

    # ---- iterators / pointers into a shared container (wave 4)
    def note_iter_alias(self, name, rhs, line):
        """`name` (a variable local to the iteration or to the thread) is given a value computed from
        SHARED.begin() / end() / data() / &SHARED[e] or from another such alias: from here on it points INTO the shared
        container; what is written through it is written to the container, by whoever holds it, whenever."""
        for q, t in enumerate(rhs):
            if t.k != "id" or (q > 0 and rhs[q - 1].s in (".", "->", "::")):
                continue
            if t.s in self.iter_alias and t.s != name:
                self.iter_alias[name] = dict(self.iter_alias[t.s])
                return True
            if self.tracked(t.s) != "shared":
                continue
            ch, _ = self.chain(rhs, q)
            mem = [el[1] for el in ch if el[0] == "member"]
            addr = q > 0 and rhs[q - 1].s == "&" and (q == 1 or rhs[q - 2].s in ("(", ",", "=", "+", "-", "return")) \
                and bool(ch) and ch[0][0] in ("index", "call")
            handed = len(ch) >= 2 and ch[-1][0] == "call" and ch[-2][0] == "member" and ch[-2][1] in ITER_SOURCES
            if handed or addr:
                self.iter_alias[name] = {"var": t.s, "crit": self.crit, "line": line,
                                         "how": "&%s[...]" % t.s if addr else "%s.%s()" % (t.s, ch[-2][1])}
                return True
        return False

    def escape_write(self, alias, line, how):
        a = self.iter_alias[alias]
        self.access(a["var"], True, "AEscape", line=line,
                    what="%s `%s`, an iterator / pointer into `%s` obtained from %s %s (line %d), written through %s" % (
                        how, alias, a["var"], a["how"],
                        "inside a critical section" if a["crit"] else "outside any critical section", a["line"],
                        "inside a critical section" if self.crit else "OUTSIDE the critical section"))
        self.r.accesses[-1]["form"] = ["opaque"]
        self.r.accesses[-1]["escape"] = {"alias": alias, "obtained_crit": a["crit"], "obtained_line": a["line"]}

    def iter_writes(self, toks, line):
        """writes through a registered alias in one simple statement: `*it = v`, `*it++ = v`, `it[e] = v`, `it->m = v`,
        and the alias handed to a standard algorithm as an output position"""
        if not self.iter_alias:
            return
        n = len(toks)
        for q, t in enumerate(toks):
            if t.k != "id" or t.s not in self.iter_alias or (q > 0 and toks[q - 1].s in (".", "->", "::")):
                continue
            # the extent of the lvalue expression around the alias
            b = q
            while b > 0 and toks[b - 1].s in ("*", "(", "++", "--"):
                b -= 1
            e = q + 1
            while e < n and toks[e].s in ("++", "--", ")"):
                e += 1
            deref = any(x.s == "*" for x in toks[b:q])
            if e < n and toks[e].s == "[":
                e = match_close(toks, e) + 1
                deref = True
            elif e + 1 < n and toks[e].s == "->":
                e += 2
                deref = True
            if deref and e < n and toks[e].s in ASSIGN_OPS:
                self.escape_write(t.s, line, "assignment through")
                continue
            fn, is_method = self.enclosing_call(toks, q)
            if fn is not None and not is_method and (fn in ITER_MUTATORS or fn == "copy"):
                self.escape_write(t.s, line, "%s(...) writes through" % fn)

    # ---- statements
    def assigned_in(self, var, stmt):
        toks = flatten(stmt)
        for q, t in enumerate(toks):
            if t.s == var and (q == 0 or toks[q - 1].s not in (".", "->", "::")):
                nxt = toks[q + 1].s if q + 1 < len(toks) else ""
                prv = toks[q - 1].s if q > 0 else ""
                if nxt in ASSIGN_OPS or nxt in ("++", "--") or prv in ("++", "--"):
                    return True
        return False

    def simple(self, toks, line):
        if not toks:
            return
        if toks[0].s in ("return", "delete", "throw"):
            self.scan(toks[1:])
            return
        self.iter_writes(toks, line)
        d = decl_names(toks)
        if d is not None:
            # a reference / pointer / `auto` (Eigen view) declaration initialised from a tracked variable is an
            # ALIAS: later writes through it are writes to that variable.  It is recorded as a write access with
            # the pattern of the initialiser (a view such as X.row(e)), or as opaque when it cannot be bounded.
            idx = next((q for q, t in enumerate(toks) if t.s == d[0][0]), 0)
            prefix = [t.s for t in toks[:idx]]
            is_const = "const" in prefix
            aliasing = (("&" in prefix or "&&" in prefix) and not is_const) or "*" in prefix or \
                       ("auto" in prefix and not is_const)
            for name, rest in d:
                init = rest[1:] if rest and rest[0].s == "=" else rest
                if aliasing and init:
                    q0 = 0
                    addr = False
                    if init[0].s == "&":
                        addr, q0 = True, 1
                    if q0 < len(init) and init[q0].k == "id" and self.tracked(init[q0].s):
                        ch, end = self.chain(init, q0)
                        views = [el[1] for el in ch if el[0] == "member"]
                        is_view = any(v in VIEW_METHODS or v in ("row", "col") for v in views)
                        elem = bool(ch) and ch[0][0] in ("call", "index")
                        if end == len(init) and (is_view or elem or not ch or addr or "&" in prefix):
                            if addr or "*" in prefix:
                                if self.tracked(init[q0].s) == "shared":
                                    self.access(init[q0].s, True, "AOpaque", line=line,
                                                what="pointer alias %s into %s" % (name, init[q0].s))
                                else:
                                    self.event(init[q0].s, "M", line)
                                self.scan(init[q0 + 1:])
                            else:
                                self.scan(init, target=(q0, "+=")) if q0 == 0 else self.scan(init)
                            self.locals.add(name)
                            continue
                if aliasing and init:
                    self.cond_alias(name, prefix, init, line)
                self.scan(rest)
                self.locals.add(name)
                if init and self.tracked(name) != "shared":
                    self.note_iter_alias(name, init, line)
            return
        # top-level assignment operator
        depth = 0
        a = None
        for q, t in enumerate(toks):
            if t.s in OPEN:
                depth += 1
            elif t.s in (")", "]", "}"):
                depth -= 1
            elif depth == 0 and t.s in ASSIGN_OPS:
                a = q
                break
        if a is None:
            self.scan(toks)
            return
        lhs, op, rhs = toks[:a], toks[a].s, toks[a + 1:]
        self.scan(rhs)
        if len(lhs) == 1 and lhs[0].k == "id" and op == "=" and self.tracked(lhs[0].s) != "shared":
            self.note_iter_alias(lhs[0].s, rhs, line)
        base = 0
        while base < len(lhs) and lhs[base].s in ("*", "("):
            base += 1
        if base < len(lhs) and lhs[base].k == "id" and self.tracked(lhs[base].s):
            ch, end = self.chain(lhs, base)
            if base == 0 and end == len(lhs):
                self.scan(lhs, target=(0, op))
            else:
                # something like *p = ... or (a ? b : c) = ...: not understood
                if self.tracked(lhs[base].s) == "shared":
                    self.access(lhs[base].s, True, "AOpaque", line=line, what="assignment through " + S(lhs))
                else:
                    self.event(lhs[base].s, "M", line)
                self.scan(lhs)
        else:
            self.scan(lhs + [toks[a]])

    def for_header(self, hdr):
        """(var, lo, hi, cmp, declared) of a canonical for header, or (None, ...)"""
        if len(hdr) != 3:
            return None, None, None, None, False
        init, cond, inc = hdr
        declared = False
        var = lo = hi = cmp_ = None
        d = decl_names(init) if init else None
        if d is not None and len(d) == 1 and d[0][1] and d[0][1][0].s == "=":
            var, lo, declared = d[0][0], d[0][1][1:], True
        elif len(init) >= 3 and init[0].k == "id" and init[1].s == "=":
            var, lo = init[0].s, init[2:]
        if var is not None and len(cond) >= 3 and cond[0].s == var and cond[1].s in ("<", "<=", "!="):
            cmp_, hi = cond[1].s, cond[2:]
        incs = S(inc).replace(" ", "")
        if var is not None and incs not in (var + "++", "++" + var, var + "+=1"):
            cmp_ = None
        return var, lo, hi, cmp_, declared

    def stmt(self, st):
        k = st[0]
        if k == "block":
            for s in st[1]:
                self.stmt(s)
        elif k == "simple":
            self.simple(st[1], st[2])
        elif k == "for":
            hdr, body = st[1], st[2]
            var, lo, hi, cmp_, declared = self.for_header(hdr)
            if var is None:
                for h in hdr:
                    self.simple(h, st[3])
                self.depth += 1
                self.stmt(body)
                self.depth -= 1
                return
            if lo is not None:
                self.scan(lo)
            if declared:
                self.locals.add(var)
            elif self.tracked(var) == "priv":
                self.event(var, "W", st[3])
            elif self.tracked(var) == "shared":
                self.access(var, True, "AElem", line=st[3], what="loop variable " + var)
            if hi is not None:
                self.scan(hi)
            valid = cmp_ is not None and not self.assigned_in(var, body)
            self.loops.append((var, lo, hi, cmp_, valid))
            self.depth += 1
            self.stmt(body)
            self.depth -= 1
            self.loops.pop()
        elif k == "while":
            self.scan(st[1])
            self.cond += 1
            self.depth += 1
            self.stmt(st[2])
            self.depth -= 1
            self.cond -= 1
        elif k == "if":
            self.scan(st[1])
            self.cond += 1
            self.depth += 1
            self.stmt(st[2])
            if st[3] is not None:
                self.stmt(st[3])
            self.depth -= 1
            self.cond -= 1
        elif k == "crit":
            old = self.crit
            self.crit = True
            self.depth += 1
            self.stmt(st[1])
            self.depth -= 1
            self.crit = old
        elif k == "pragma":
            self.access("<directive>", True, "AOpaque", line=st[2], what="unsupported directive: " + st[1])
        elif k == "ompfor":
            self.access("<directive>", True, "AOpaque", line=st[3], what="nested work-sharing loop")
        # jump / empty: nothing


def flatten(st):
    k = st[0]
    if k == "block":
        return [t for s in st[1] for t in flatten(s)]
    if k == "simple":
        return list(st[1]) + [Tok("op", ";", st[2])]
    if k == "for":
        return [t for h in st[1] for t in h + [Tok("op", ";", st[3])]] + flatten(st[2])
    if k == "while":
        return list(st[1]) + flatten(st[2])
    if k == "if":
        return list(st[1]) + flatten(st[2]) + (flatten(st[3]) if st[3] is not None else [])
    if k == "crit":
        return flatten(st[1])
    if k == "ompfor":
        return flatten(st[2])
    return []


def classify_private(events):
    """events: list of (kind, conditional, toplevel, line)"""
    writes = [e for e in events if e[0] in ("W", "RMW", "M", "CLR")]
    if not writes:
        return "PConst"
    first = events[0]
    if first[0] == "W" and not first[1]:
        return "PInit"
    last = events[-1]
    if last[0] == "CLR" and not last[1] and last[2]:
        return "PRestored"
    return "PStale"



# ----------------------------------------------------------------------------- directive clauses
SAFE_CLAUSES = {"private", "shared", "default", "schedule", "num_threads", "if", "nowait", "proc_bind"}


def parse_clauses(text, skip):
    """clauses of a directive: list of (name, argument text or None); `skip` = number of leading words that
    name the directive itself (`omp parallel for` -> 3)"""
    words = text.split()
    rest = text
    for w in words[:skip]:
        rest = rest[rest.index(w) + len(w):]
    out = []
    i, n = 0, len(rest)
    while i < n:
        m = re.compile(r"\s*,?\s*([A-Za-z_]\w*)").match(rest, i)
        if not m:
            break
        name = m.group(1)
        i = m.end()
        j = i
        while j < n and rest[j].isspace():
            j += 1
        arg = None
        if j < n and rest[j] == "(":
            depth = 0
            k = j
            while k < n:
                if rest[k] == "(":
                    depth += 1
                elif rest[k] == ")":
                    depth -= 1
                    if depth == 0:
                        break
                k += 1
            arg = rest[j + 1:k].strip()
            i = k + 1
        out.append((name, arg))
    return out


def cond_atoms(text):
    """the identifiers, comparison operators and integer literals of a clause expression, sorted: the form in
    which the `if` clause is compared with clang's reading"""
    if text is None:
        return []
    return sorted(re.findall(r"[A-Za-z_]\w*|\d+|<=|>=|==|!=|&&|\|\||[<>!]", text))


def cond_thresholds(text):
    """[(variable, operator, integer)] for every comparison VAR op LITERAL / LITERAL op VAR of the expression"""
    out = []
    if not text:
        return out
    flip = {"<": ">", "<=": ">=", ">": "<", ">=": "<=", "==": "==", "!=": "!="}
    for m in re.finditer(r"([A-Za-z_][\w.>\-]*(?:\(\))?)\s*(<=|>=|==|!=|<|>)\s*(\d+)", text):
        out.append((m.group(1), m.group(2), int(m.group(3))))
    for m in re.finditer(r"(\d+)\s*(<=|>=|==|!=|<|>)\s*([A-Za-z_][\w.>\-]*(?:\(\))?)", text):
        out.append((m.group(3), flip[m.group(2)], int(m.group(1))))
    return out


def numeric_thresholds(text, lo=256, hi=1 << 40):
    """wave 4: the numeric constants of a piece of source that can act as SIZE thresholds (a reserve() cap, a block size, a branch
    `n > 4096`): integer literals (decimal, hex, with digit separators / suffixes), integer-valued scientific literals (1e6) and
    shifts of one (1 << 22, static_cast<size_t>(1) << 22, 1UL << 20).  Returns sorted [[value, text, line]] (line relative to
    `text`, 1-based), each value once."""
    text = re.sub(r'"(?:\\.|[^"\\])*"', '""', text)
    found = {}

    def add(v, m):
        if lo <= v <= hi and v not in found:
            found[v] = [v, re.sub(r"\s+", " ", m.group(0)), text.count("\n", 0, m.start()) + 1]
    for m in re.finditer(r"(?:\b1[uUlL]*|\(\s*1[uUlL]*\s*\))\s*<<\s*(\d+)\b", text):
        if int(m.group(1)) < 63:
            add(1 << int(m.group(1)), m)
    for m in re.finditer(r"\b0[xX]([0-9a-fA-F']+)[uUlL]*\b", text):
        add(int(m.group(1).replace("'", ""), 16), m)
    for m in re.finditer(r"(?<![\w.])(\d[\d']*)[uUlL]*\b(?![.xX'])", text):
        try:
            add(int(m.group(1).replace("'", "")), m)
        except ValueError:
            pass
    for m in re.finditer(r"(?<![\w.])(\d+)(?:\.(\d*))?[eE]\+?(\d+)[fFlL]?\b", text):
        mant, frac, ex = m.group(1), m.group(2) or "", int(m.group(3))
        if ex <= 15 and len(frac) <= ex:
            add(int(mant + frac) * 10 ** (ex - len(frac)), m)
    return sorted(found.values())


# ----------------------------------------------------------------------------- HLLE expressions
def parse_hexpr(toks, env):
    """+ - * with the usual precedence over identifiers in env and integer literals"""
    pos = [0]

    def atom():
        if pos[0] >= len(toks):
            raise TranslateError("expression ends early")
        t = toks[pos[0]]
        pos[0] += 1
        if t.s == "(":
            e = expr()
            if pos[0] >= len(toks) or toks[pos[0]].s != ")":
                raise TranslateError("missing )")
            pos[0] += 1
            return e
        if is_intlit(t):
            return ("HC", int(re.sub(r"\D", "", t.s)))
        if t.k == "id" and t.s in env:
            return ("HV", env[t.s])
        raise TranslateError("unexpected token %s in HLLE index expression" % t.s)

    def term():
        e = atom()
        while pos[0] < len(toks) and toks[pos[0]].s == "*":
            pos[0] += 1
            e = ("HMul", e, atom())
        return e

    def expr():
        e = term()
        while pos[0] < len(toks) and toks[pos[0]].s in ("+", "-"):
            op = toks[pos[0]].s
            pos[0] += 1
            e = ("HAdd" if op == "+" else "HSub", e, term())
        return e

    e = expr()
    if pos[0] != len(toks):
        raise TranslateError("trailing tokens in HLLE expression: " + S(toks[pos[0]:]))
    return e


def find_hlle(body_stmt):
    """look for   for (J = 0; J < D; ++J) { for (P = 0; P < D - J; ++P) { X.col(COL)... = ...; } CT += STEP; }"""
    found = []

    def walk(st):
        k = st[0]
        if k == "block":
            for s in st[1]:
                walk(s)
        elif k == "for":
            hdr, body = st[1], st[2]
            an = Analyzer(Region("", 0), [], [])
            jv, jlo, jhi, jcmp, _ = an.for_header(hdr)
            inner = [s for s in (body[1] if body[0] == "block" else [body])]
            fors = [s for s in inner if s[0] == "for"]
            upd = [s for s in inner if s[0] == "simple" and len(s[1]) >= 3 and s[1][0].k == "id"
                   and s[1][1].s in ("+=", "=")]
            if jv and jcmp == "<" and jhi and len(jhi) == 1 and fors and upd:
                dv = jhi[0].s
                pv, plo, phi, pcmp, _ = an.for_header(fors[0][1])
                ib = fors[0][2]
                istm = ib[1] if ib[0] == "block" else [ib]
                cols = []
                for s in istm:
                    if s[0] == "simple":
                        tk = s[1]
                        for q in range(len(tk) - 3):
                            if tk[q].s == "." and tk[q + 1].s == "col" and tk[q + 2].s == "(" and q == 1:
                                e = match_close(tk, q + 2)
                                cols.append(tk[q + 3:e])
                                break
                for u in upd:
                    ct = u[1][0].s
                    if cols and any(t.s == ct for t in cols[0]) and pv:
                        env = {ct: "HCt", dv: "HD", jv: "HJ", pv: "HP"}
                        rhs = u[1][2:]
                        if u[1][1].s == "=":
                            # CT = CT + E
                            if len(rhs) >= 2 and rhs[0].s == ct and rhs[1].s == "+":
                                rhs = rhs[2:]
                            else:
                                continue
                        shape_ok = (S(jlo) == "0" and S(plo) == "0" and pcmp == "<" and
                                    S(phi).replace(" ", "") == (dv + "-" + jv))
                        found.append((parse_hexpr(rhs, env), parse_hexpr(cols[0], env), shape_ok))
            walk(body)
        elif k in ("while",):
            walk(st[2])
        elif k == "if":
            walk(st[2])
            if st[3] is not None:
                walk(st[3])
        elif k in ("crit",):
            walk(st[1])
        elif k == "ompfor":
            walk(st[2])

    walk(body_stmt)
    return found


# ----------------------------------------------------------------------------- regions of a file

# ----------------------------------------------------------------------------- distribution of the iterations (wave 3)
OMP_QUERIES = ("omp_get_num_threads", "omp_get_max_threads", "omp_get_thread_num", "omp_get_thread_limit",
               "omp_get_num_procs", "omp_get_team_size", "omp_get_ancestor_thread_num")


def manual_header(hdr):
    """(var, lo, hi, cmp, step tokens) of  for (v = LO; v < HI; v += STEP)  /  v = v + STEP, else None"""
    if len(hdr) != 3:
        return None
    init, cond, inc = hdr
    var = lo = None
    d = decl_names(init) if init else None
    if d is not None and len(d) == 1 and d[0][1] and d[0][1][0].s == "=":
        var, lo = d[0][0], d[0][1][1:]
    elif len(init) >= 3 and init[0].k == "id" and init[1].s == "=":
        var, lo = init[0].s, init[2:]
    if var is None or len(cond) < 3 or cond[0].s != var or cond[1].s not in ("<", "<=", "!="):
        return None
    step = None
    if len(inc) >= 3 and inc[0].s == var and inc[1].s == "+=":
        step = inc[2:]
    elif len(inc) >= 5 and inc[0].s == var and inc[1].s == "=" and inc[2].s == var and inc[3].s == "+":
        step = inc[4:]
    if step is None:
        return None
    return var, lo, cond[2:], cond[1].s, step


def _only_call(toks, fname):
    """toks is (casts / parentheses around) a single call fname()"""
    ids = [t.s for t in toks if t.k == "id"]
    calls = [x for x in ids if x in OMP_QUERIES]
    other = [x for x in ids if x not in OMP_QUERIES and x not in TYPE_KEYWORDS and x not in
             ("static_cast", "IndexType", "size_t", "std", "ptrdiff_t", "Index")]
    ops = [t.s for t in toks if t.k not in ("id", "num") and t.s not in ("(", ")", "<", ">", "::")]
    return calls == [fname] and not other and not ops and not any(t.k == "num" for t in toks)


def value_source(toks, inside_decls, outside_toks, assigned):
    """where the value of the expression `toks` (evaluated inside the region) comes from:
    ("call", fname, inside?) | ("const", c) | ("unknown", why)"""
    toks = strip_parens(list(toks))
    for q in OMP_QUERIES:
        if _only_call(toks, q):
            return ("call", q, True)
    if len(toks) == 1 and is_intlit(toks[0]):
        return ("const", int(re.sub(r"[uUlL]+$", "", toks[0].s)))
    if len(toks) == 1 and toks[0].k == "id":
        name = toks[0].s
        if name in assigned:
            return ("unknown", "`%s` is assigned in the region" % name)
        if name in inside_decls:
            init = inside_decls[name]
            if init and init[0].s == "=":
                init = init[1:]
            src = value_source(init, {}, outside_toks, assigned)
            return src
        # declared before the region: the last  `name = ...;` / `TYPE name = ...;`  before the pragma
        last = None
        i = 0
        n = len(outside_toks)
        while i < n:
            if outside_toks[i].s == name and i + 1 < n and outside_toks[i + 1].s == "=" and \
                    (i == 0 or outside_toks[i - 1].s not in (".", "->", "::")):
                j = i + 2
                depth = 0
                while j < n and not (outside_toks[j].s in (";", ",") and depth == 0):
                    if outside_toks[j].s in OPEN:
                        depth += 1
                    elif outside_toks[j].s in (")", "]", "}"):
                        depth -= 1
                    j += 1
                last = outside_toks[i + 2:j]
                i = j
            else:
                i += 1
        if last is None:
            return ("unknown", "`%s`: no initialiser found before the region" % name)
        src = value_source(last, {}, [], assigned)
        if src[0] == "call":
            return ("call", src[1], False)
        return src
    return ("unknown", "expression `%s`" % S(toks))


def dist_of_manual(lo, step, inside_decls, outside_toks, assigned):
    f = value_source(lo, inside_decls, outside_toks, assigned)
    st = value_source(step, inside_decls, outside_toks, assigned)
    first = "FirstTid" if (f[0] == "call" and f[1] == "omp_get_thread_num" and f[2]) else "FirstOther"
    if st[0] == "call" and st[1] == "omp_get_num_threads":
        step_src = ["SrcTeam"] if st[2] else ["SrcOutside"]
    elif st[0] == "call" and st[1] == "omp_get_max_threads":
        step_src = ["SrcMaxThreads"]
    elif st[0] == "const":
        step_src = ["SrcConst", st[1]]
    else:
        step_src = ["SrcUnknown"]
    what = "hand-made schedule: first iteration from %s, stride from %s" % (
        "%s()%s" % (f[1], "" if f[2] else " evaluated before the region") if f[0] == "call" else str(f[1]),
        "%s()%s" % (st[1], " inside the region" if st[2] else " evaluated BEFORE the region") if st[0] == "call" else str(st[1]))
    return ["DCyclic", first, step_src], what


def function_context(toks, p):
    """for the pragma at toks[p]: (function name, parameter names, names declared in the function
    before p)"""
    stack = []
    for q in range(p):
        if toks[q].s == "{":
            stack.append(q)
        elif toks[q].s == "}":
            if stack:
                stack.pop()
    fbrace = None
    for b in stack:
        if b > 0 and toks[b - 1].s in (")", "const", "noexcept", "override"):
            fbrace = b
            break
    if fbrace is None:
        raise TranslateError("cannot find the function enclosing the region at line %d" % toks[p].line)
    q = fbrace - 1
    while q >= 0 and toks[q].s != ")":
        q -= 1
    depth = 0
    o = q
    while o >= 0:
        if toks[o].s == ")":
            depth += 1
        elif toks[o].s == "(":
            depth -= 1
            if depth == 0:
                break
        o -= 1
    fname = toks[o - 1].s if o >= 1 else "?"
    params = []
    for part in split_top(toks[o + 1:q], ","):
        # drop default arguments
        cut = [x for x in part]
        for z, t in enumerate(cut):
            if t.s == "=":
                cut = cut[:z]
                break
        ids = [t for t in cut if t.k == "id"]
        if ids:
            params.append(ids[-1].s)
    declared = []
    q = fbrace + 1
    start = True
    while q < p:
        t = toks[q]
        if start and t.k == "id":
            try:
                e = stmt_end(toks, q)
            except TranslateError:
                e = None
            if e is not None and e < p:
                d = decl_names(toks[q:e])
                if d is not None:
                    declared += [n for n, _ in d]
        if t.s == "for" and q + 1 < p and toks[q + 1].s == "(":
            e = match_close(toks, q + 1)
            hdr = split_top(toks[q + 2:e], ";")
            if hdr and hdr[0]:
                d = decl_names(hdr[0])
                if d is not None:
                    declared += [n for n, _ in d]
        start = t.s in (";", "{", "}") or t.k == "pragma"
        q += 1
    return fname, params, declared, fbrace


def analyse_file(path, rel, macros, variant):
    text = preprocess(strip_comments(open(path, errors="replace").read()), macros)
    toks = tokenize(text)
    regions = []
    hlle = []
    counts = {}
    p = 0
    while p < len(toks):
        t = toks[p]
        orphan = t.k == "pragma" and t.s.split()[1:2] == ["omp"] and \
            t.s.split()[2:3] and re.match(r"(for|sections|single|taskloop)\b", t.s.split()[2]) is not None
        if (t.k == "pragma" and t.s.split()[1:3] == ["omp", "parallel"]) or orphan:
            words = t.s.split()
            if orphan:
                # analysed like `omp parallel for` (the footprints are the loop's), but nobody creates a team for it
                words = words[:2] + ["parallel"] + words[2:]
            fname, params, declared, fbrace = function_context(toks, p)
            counts[fname] = counts.get(fname, 0) + 1
            name = "%s:%s#%d%s" % (rel, fname, counts[fname], variant)
            reg = Region(name, t.line)
            reg.func, reg.file = fname, rel
            try:
                l0, l1 = toks[fbrace].line, toks[match_close(toks, fbrace)].line
                reg.func_consts = [[v, tx, ln + l0 - 1] for v, tx, ln in
                                   numeric_thresholds("\n".join(text.split("\n")[l0 - 1:l1]))]
            except Exception:
                reg.func_consts = []
            clause_private = []
            combined = "for" in words[3:4]
            directive = t.s[len("#pragma "):]
            if orphan:
                directive = "omp parallel " + directive[len("omp "):]
            par_clauses = parse_clauses(directive, 3 if combined else 2)
            bad_clauses = []

            def take_clauses(cls, where):
                for cname, carg in cls:
                    reg.clauses.append((cname, carg))
                    if cname == "private" and carg is not None:
                        clause_private.extend(x.strip() for x in carg.split(",") if x.strip())
                    elif cname == "if" and where == "parallel":
                        reg.if_clause = carg
                    elif cname not in SAFE_CLAUSES:
                        bad_clauses.append((cname, carg, where))
            take_clauses(par_clauses, "parallel")
            body, nxt = parse_stmt(toks, p + 1)
            shared = set(params) | set(declared)
            priv = list(clause_private)
            loops = []
            pre = []
            if combined:
                loops = [body]
            else:
                if body[0] != "block":
                    raise TranslateError("parallel region without a block at line %d" % t.line)
                for st in body[1]:
                    if st[0] == "ompfor":
                        loops.append(st[2])
                        take_clauses(parse_clauses(st[1], 2), "for")
                    elif st[0] == "simple":
                        d = decl_names(st[1])
                        if d is not None and not loops:
                            priv += [n for n, _ in d]
                        pre.append(st)
                    else:
                        pre.append(st)
            manual = None
            if orphan:
                reg.dist = ["DWorkshare", False]
                reg.dist_what = ("orphaned `omp %s`: not inside an `omp parallel` of %s(); it binds to the team of the "
                                 "CALLER's parallel region" % (" ".join(words[3:4]), fname))
            elif loops:
                reg.dist = ["DWorkshare", True]
                reg.dist_what = "worksharing loop inside the parallel region"
            elif not combined:
                # no worksharing construct: a hand-made schedule  for (v = first; v < n; v += step)  at the top level
                # of the region is analysed as the work-shared loop, with the distribution the code computes
                inside_decls = {}
                for st in body[1]:
                    if st[0] == "simple":
                        d = decl_names(st[1])
                        if d is not None:
                            for n_, rest in d:
                                inside_decls[n_] = rest
                for z, st in enumerate(body[1]):
                    if st[0] == "for":
                        mh = manual_header(st[1])
                        if mh is not None:
                            manual = mh
                            loops = [st]
                            pre = [x for x in pre if x is not st]
                            for later in body[1][z + 1:]:
                                if later[0] == "for" and manual_header(later[1]) is not None:
                                    loops.append(later)
                                    pre = [x for x in pre if x is not later]
                            break
                if manual is not None:
                    assigned = set()
                    flat_toks = []

                    def _collect(st_):
                        if st_[0] == "block":
                            for x in st_[1]:
                                _collect(x)
                        elif st_[0] == "simple":
                            flat_toks.append(st_[1])
                        elif st_[0] == "for":
                            flat_toks.extend(st_[1])
                            _collect(st_[2])
                        elif st_[0] in ("while",):
                            _collect(st_[2])
                        elif st_[0] == "if":
                            _collect(st_[2])
                            if st_[3] is not None:
                                _collect(st_[3])
                        elif st_[0] in ("crit",):
                            _collect(st_[1])
                        elif st_[0] == "ompfor":
                            _collect(st_[2])
                    _collect(body)
                    for tl in flat_toks:
                        if decl_names(tl) is not None:
                            continue
                        for z2, tk in enumerate(tl):
                            if tk.k == "id" and z2 + 1 < len(tl) and tl[z2 + 1].s in ASSIGN_OPS | {"++", "--"} and \
                                    (z2 == 0 or tl[z2 - 1].s not in (".", "->", "::")) and tk.s != manual[0]:
                                assigned.add(tk.s)
                            if tk.s in ("++", "--") and z2 + 1 < len(tl) and tl[z2 + 1].k == "id" and tl[z2 + 1].s != manual[0]:
                                assigned.add(tl[z2 + 1].s)
                    reg.dist, reg.dist_what = dist_of_manual(manual[1], manual[4], inside_decls,
                                                             toks[fbrace + 1:p], assigned)
                    priv = [x for x in priv if x != manual[0]]
                    inside_private = [n_ for n_ in inside_decls if n_ not in priv and n_ != manual[0]]
                    priv += [x for x in inside_private]
            priv = list(dict.fromkeys(priv + [x for x in clause_private if x not in priv]))
            shared -= set(priv)
            an = Analyzer(reg, shared, priv)
            # a clause that changes the iteration space or the sharing of a variable in a way the descriptor
            # language does not express (reduction, collapse, firstprivate, lastprivate, ordered, ...) is rejected
            for cname, carg, where in bad_clauses:
                an.access("<directive>", True, "AOpaque", line=t.line,
                          what="clause %s(%s) of `omp %s` is not modelled%s" % (
                              cname, carg or "", where,
                              " (the partial results are combined in an unspecified order)" if cname == "reduction" else ""))
            # statements of the region outside the work-shared loops run once per thread: they may
            # only touch private variables; anything shared written there is a conflict of all threads
            for st in pre:
                if st[0] == "simple":
                    d = decl_names(st[1])
                    if d is not None:
                        idx_ = next((q for q, t_ in enumerate(st[1]) if t_.s == d[0][0]), 0)
                        prefix_ = [t_.s for t_ in st[1][:idx_]]
                        for n, rest in d:
                            an.scan(rest)
                            init_ = rest[1:] if rest and rest[0].s == "=" else rest
                            if init_:
                                an.cond_alias(n, prefix_, init_, st[2])
                        continue
                    ev_before = {k: len(v) for k, v in reg.events.items()}
                    an.stmt(st)
                    for k in reg.events:            # events outside the loop are not loop-body events
                        reg.events[k] = reg.events[k][:ev_before.get(k, 0)]
                elif st[0] == "pragma":
                    an.stmt(st)
                else:
                    ev_before = {k: len(v) for k, v in reg.events.items()}
                    an.stmt(st)
                    for k in reg.events:
                        reg.events[k] = reg.events[k][:ev_before.get(k, 0)]
            if not loops:
                an.access("<region>", True, "AOpaque", line=t.line, what="parallel region without omp for")
            for lp in loops:
                if lp[0] != "for":
                    an.access("<region>", True, "AOpaque", line=t.line, what="omp for without a for loop")
                    continue
                if manual is not None:
                    mh = manual_header(lp[1])
                    var, lo, hi, cmp_, declared_iv = mh[0], mh[1], mh[2], mh[3], False
                    an.scan(mh[4])
                else:
                    var, lo, hi, cmp_, declared_iv = an.for_header(lp[1])
                if var is None or cmp_ is None:
                    an.access("<region>", True, "AOpaque", line=lp[3], what="non-canonical omp for header")
                    continue
                an.iv = var
                reg.iv = var
                reg.loops.append({"iv": var, "lo": S(lo or []), "hi": S(hi or []), "cmp": cmp_,
                                  "step": S(manual[4]) if manual is not None else "1"})
                an.locals.discard(var)
                if var in an.priv:
                    an.priv.remove(var)
                    reg.events.pop(var, None)
                an.shared.discard(var)
                an.scan(lo or [])
                an.scan(hi or [])
                if an.assigned_in(var, lp[2]):
                    an.access(var, True, "AOpaque", line=lp[3], what="induction variable assigned in the body")
                an.depth = 0
                body_st = lp[2]
                if body_st[0] == "block":
                    for s in body_st[1]:
                        an.stmt(s)
                else:
                    an.stmt(body_st)
                if fname == "hessian_weight_matrix":
                    hlle += find_hlle(body_st)
            reg.priv = [x for x in an.priv]
            regions.append(reg)
            p = nxt
        else:
            p += 1
    return regions, hlle


def find_files(repo):
    out = []
    for sub in ("include", "src"):
        for root, dirs, files in os.walk(os.path.join(repo, sub)):
            dirs.sort()
            for f in sorted(files):
                if f.endswith((".hpp", ".h", ".cpp", ".hxx", ".cc")):
                    p = os.path.join(root, f)
                    try:
                        txt = open(p, errors="replace").read()
                    except OSError:
                        continue
                    if re.search(r"#\s*pragma\s+omp", txt):
                        out.append(p)
    return out


BASE_MACROS = {"TAPKEE_USE_LGPL_COVERTREE", "TAPKEE_VERIF", "FMT_HEADER_ONLY", "_OPENMP", "__cplusplus"}


def translate(repo):
    regions, hlle = [], []
    for path in find_files(repo):
        rel = os.path.relpath(path, repo)
        txt = open(path, errors="replace").read()
        if "TAPKEE_USE_PRIORITY_QUEUE" in txt or "TAPKEE_USE_FIBONACCI_HEAP" in txt:
            variants = [("[pq]", BASE_MACROS | {"TAPKEE_USE_PRIORITY_QUEUE"}),
                        ("[fib]", BASE_MACROS | {"TAPKEE_USE_FIBONACCI_HEAP"})]
        else:
            variants = [("", BASE_MACROS)]
        for suffix, macros in variants:
            r, h = analyse_file(path, rel, set(macros), suffix)
            regions += r
            hlle += h
    out = []
    for r in regions:
        acc = r.accesses
        interesting = {a["var"] for a in acc if a["write"] or a["kind"] != "AElem"}
        seen, keep = set(), []
        for a in acc:
            if a["var"] not in interesting:
                continue
            key = (a["var"], a["write"], a["crit"], a["kind"], a["i"], a["j"])
            if key in seen:
                continue
            seen.add(key)
            keep.append(a)
        for a in keep:
            if a["kind"] == "AEscape":
                sites = sorted({(b["line"], b["what"]) for b in acc if b["var"] == a["var"] and b is not a and
                                any(("." + m_) in b.get("what", "") for m_ in REALLOC_METHODS)})
                if sites:
                    a["what"] += "; other iterations call %s: a reallocation of `%s` invalidates the iterator while it is still in use" % (
                        ", ".join("%s (line %d)" % (w, ln) for ln, w in sites[:3]), a["var"])
                    a["escape"]["realloc_sites"] = [list(x) for x in sites[:3]]
        pv = [{"name": n, "class": classify_private(r.events.get(n, [])),
               "events": [[e[0], bool(e[1]), bool(e[2])] for e in r.events.get(n, [])]} for n in r.priv]
        wf = sorted({json.dumps([a["var"], a["crit"], a.get("form", ["whole"])]) for a in acc if a["write"]})
        af = sorted({json.dumps([a["var"], a["crit"], a.get("form", ["whole"])]) for a in acc
                     if a["var"] in interesting})
        out.append({"name": r.name, "line": r.line, "iv": r.iv, "shared": keep, "private": pv,
                    "write_forms": [json.loads(x) for x in wf], "access_forms": [json.loads(x) for x in af],
                    "file": r.file, "func": r.func, "if": r.if_clause, "if_atoms": cond_atoms(r.if_clause),
                    "if_thresholds": cond_thresholds(r.if_clause), "clauses": [list(c) for c in r.clauses],
                    "loops": r.loops, "dist": r.dist, "dist_what": r.dist_what, "func_consts": r.func_consts})
    return {"regions": out, "hlle": hlle}


# ----------------------------------------------------------------------------- Coq output
def coq_z(n):
    return "(%d)" % n if n < 0 else str(n)


def coq_bound(b):
    return "BTop" if b[0] == "BTop" else "(BIt %s)" % coq_z(b[1])


def coq_ix(x):
    if x[0] == "XIt":
        return "(XIt %s)" % coq_z(x[1])
    if x[0] == "XIn":
        return "(XIn %s %s)" % (coq_bound(x[1]), coq_bound(x[2]))
    return "XAny"


def coq_hexpr(e):
    if e[0] == "HV":
        return "(HV %s)" % e[1]
    if e[0] == "HC":
        return "(HC %s)" % coq_z(e[1])
    return "(%s %s %s)" % (e[0], coq_hexpr(e[1]), coq_hexpr(e[2]))


def coq_bool(b):
    return "true" if b else "false"


def coq_dist(d):
    if d[0] == "DWorkshare":
        return "DWorkshare %s" % coq_bool(d[1])
    if d[0] == "DCyclic":
        st = d[2]
        return "DCyclic %s %s" % (d[1], "(SrcConst %d)" % st[1] if st[0] == "SrcConst" else st[0])
    return "DUnknown"


def to_coq(tr):
    L = ["(* GENERATED by translate/t_omp.py from the C++ working tree -- do not edit.",
         "   Region descriptors of property C15: see Par_Region_Model.v for their meaning. *)",
         "From Coq Require Import ZArith List String.",
         "Import ListNotations.",
         "From TK Require Import Par_Region_Model Par_Team_Model.",
         "Local Open Scope string_scope.",
         "Local Open Scope Z_scope.",
         ""]
    names = []
    for n, r in enumerate(tr["regions"]):
        ident = "region_%d" % n
        names.append(ident)
        L.append("(* %s (line %d), induction variable %s%s *)" % (
            r["name"], r["line"], r["iv"],
            (", parallel only if (%s)" % r["if"].replace("*)", "* )").replace("(*", "( *")) if r.get("if") else ""))
        L.append("Definition %s : region := mkRegion \"%s\"" % (ident, r["name"]))
        accs = []
        for a in r["shared"]:
            accs.append("     mkAcc \"%s\" %s %s %s %s %s   (* line %d: %s *)" % (
                a["var"], coq_bool(a["write"]), coq_bool(a["crit"]), a["kind"], coq_ix(a["i"]), coq_ix(a["j"]),
                a["line"], a["what"].replace("*)", "* )").replace("(*", "( *")))
        if accs:
            body = []
            for z, s in enumerate(accs):
                code, cm = s.split("   (*", 1)
                body.append(code + (";" if z + 1 < len(accs) else "") + "   (*" + cm)
            L.append("  [\n" + "\n".join(body) + "\n  ]")
        else:
            L.append("  []")
        evname = {"W": "EW", "RMW": "ERMW", "R": "ER", "M": "EM", "CLR": "ECLR"}
        pvs = []
        for p in r["private"]:
            evs = "; ".join("mkEv %s %s %s" % (evname[e[0]], coq_bool(e[1]), coq_bool(e[2])) for e in p["events"])
            pvs.append("mkPvar \"%s\" %s [%s]" % (p["name"], p["class"], evs))
        L.append("  [" + ";\n   ".join(pvs) + "].")
        L.append("")
    L.append("Definition regions : list region :=\n  [" + "; ".join(names) + "].")
    L.append("")
    # wave 3: who runs the iterations of each region (Par_Team_Model.dist), in the order of `regions`
    ds = []
    for r in tr["regions"]:
        ds.append("   (\"%s\", %s)   (* %s *)" % (r["name"], coq_dist(r.get("dist") or ["DUnknown"]),
                                               (r.get("dist_what") or "").replace("*)", "* )").replace("(*", "( *")))
    body = []
    for z, d_ in enumerate(ds):
        code, cm = d_.split("   (*", 1)
        body.append(code + (";" if z + 1 < len(ds) else "") + "   (*" + cm)
    L.append("Definition dists : list (string * dist) :=\n  [\n" + "\n".join(body) + "\n  ].")
    L.append("")
    h = tr["hlle"]
    if h:
        ok = all(x[2] for x in h) and all(x[0] == h[0][0] and x[1] == h[0][1] for x in h)
        L.append("Definition gen_hlle_found : bool := %s." % coq_bool(ok))
        L.append("Definition gen_hlle_step : hexpr := %s." % coq_hexpr(h[0][0]))
        L.append("Definition gen_hlle_col : hexpr := %s." % coq_hexpr(h[0][1]))
    else:
        L.append("Definition gen_hlle_found : bool := false.")
        L.append("Definition gen_hlle_step : hexpr := (HC 0).")
        L.append("Definition gen_hlle_col : hexpr := (HC 0).")
    L.append("")
    return "\n".join(L)


# ----------------------------------------------------------------------------- self test
SELF_MUTATIONS = [
    ("include/tapkee/routines/multidimensional_scaling.hpp",
     "for (j_index_iter = i_index_iter; j_index_iter < n_vectors; ++j_index_iter)",
     "for (j_index_iter = 0; j_index_iter < n_vectors; ++j_index_iter)"),
    ("include/tapkee/routines/isomap.hpp", "shortest_distances(k, j) =", "shortest_distances(k + 1, j) ="),
    ("include/tapkee/routines/locally_linear.hpp", "#pragma omp critical", ""),
    ("include/tapkee/routines/landmarks.hpp", "embedding.row(index_iter).noalias()", "embedding.row(0).noalias()"),
    ("include/tapkee/routines/locally_linear.hpp", "ct += target_dimension - j;", "ct += ct + target_dimension - j;"),
    ("src/cli/util.hpp", "for (j = i; j < N; j++)", "for (j = 0; j < N; j++)"),
    # a write to a name that is not declared in the enclosing function (global / static / member)
    ("include/tapkee/routines/multidimensional_scaling.hpp", "d *= d;", "d *= d; tapkee_pairs_done++;"),
    # a call of a function without a summary
    ("include/tapkee/routines/diffusion_maps.hpp", "ScalarType gk = exp(", "note_progress(i_index_iter); ScalarType gk = exp("),
    # a clause the descriptor language does not express
    ("include/tapkee/routines/landmarks.hpp", "#pragma omp for nowait", "#pragma omp for collapse(2) nowait"),
    # wave 3: the `parallel` of a region lost (orphaned worksharing loop)
    ("include/tapkee/routines/diffusion_maps.hpp", "#pragma omp parallel\n", "\n"),
    # wave 4: a block claimed under the lock and filled in place through the iterator after it
    ("include/tapkee/routines/locally_linear.hpp",
     "#pragma omp critical\n            {\n                copy(local_triplets.begin(), local_triplets.end(), std::back_inserter(sparse_triplets));\n            }",
     "SparseTriplets::iterator claimed;\n#pragma omp critical\n            {\n                sparse_triplets.resize(sparse_triplets.size() + "
     "local_triplets.size());\n                claimed = sparse_triplets.end() - local_triplets.size();\n            }\n"
     "            copy(local_triplets.begin(), local_triplets.end(), claimed);"),
    # a new conditional region with a reduction in code without any region
    ("include/tapkee/external/barnes_hut_sne/tsne.hpp", "        for (int n = 0; n < N; n++)\n            tree->computeNonEdgeForces(",
     "#pragma omp parallel for reduction(+ : sum_Q) if (N >= 1000)\n        for (int n = 0; n < N; n++)\n            tree->computeNonEdgeForces("),
]


def _nocomment(text):
    return re.sub(r"\(\*.*?\*\)", "", text, flags=re.S)


def self_test(repo, quiet=False):
    base = to_coq(translate(repo))
    ok = True
    for rel, old, new in SELF_MUTATIONS:
        tmp = tempfile.mkdtemp(prefix="t_omp_self_")
        try:
            for sub in ("include", "src"):
                shutil.copytree(os.path.join(repo, sub), os.path.join(tmp, sub))
            p = os.path.join(tmp, rel)
            txt = open(p).read()
            if old not in txt:
                if not quiet:
                    print("self-test: pattern not found in %s: %r (skipped)" % (rel, old))
                continue
            open(p, "w").write(txt.replace(old, new, 1))
            try:
                out = to_coq(translate(tmp))
            except TranslateError as ex:
                out = "ERROR " + str(ex)
            changed = _nocomment(out) != _nocomment(base)
            if not quiet:
                print("self-test: %-55s %s" % (rel + ": " + old[:30], "output changed" if changed else "NOT DETECTED"))
            ok = ok and changed
        finally:
            shutil.rmtree(tmp, ignore_errors=True)
    return ok


def main():
    ap = argparse.ArgumentParser()
    ap.add_argument("--repo", default=os.environ.get("VERIF_REPO", "/repo"))
    ap.add_argument("--out", default=None)
    ap.add_argument("--json", default=None)
    ap.add_argument("--print", action="store_true")
    ap.add_argument("--self-test", action="store_true")
    a = ap.parse_args()
    if a.self_test:
        sys.exit(0 if self_test(a.repo) else 1)
    try:
        tr = translate(a.repo)
    except TranslateError as ex:
        print("TranslateError: %s" % ex)
        sys.exit(2)
    text = to_coq(tr)
    if a.out:
        old = open(a.out).read() if os.path.exists(a.out) else None
        if old != text:
            open(a.out, "w").write(text)
    if a.json:
        json.dump(tr, open(a.json, "w"), indent=1, default=str)
    if a.print or not (a.out or a.json):
        print(text)


if __name__ == "__main__":
    main()
