#!/usr/bin/env python3
"""T-cli: regenerate coq/gen/Cli.v from src/cli/main.cpp and src/cli/util.hpp of the CURRENT tree.

    python3 translate/t_cli.py [--repo /repo] [--out coq/gen/Cli.v] [--json file]
    python3 translate/t_cli.py --self-test

What is read (types are those of coq/Cli_Model.v):
  gen_options   the cxxopts option table: every spelling of every option and the value given to
                with_default(...) (flags have none)
  gen_numfmt    how with_default() turns a numeric default into the string cxxopts parses
                (std::to_string keeps six decimals)
  gen_maps      the name maps of util.hpp (methods, neighbour methods, eigen methods, strategies),
                with the #ifdef regions resolved for the build that is verified
  gen_exits     the early `return N` tests of run(), in source order
  gen_wiring    tapkee::kwargs[( keyword = expression over options, ... )], local variables resolved
  gen_io        which option names the input / output / projection files, the delimiter, and under
                which conditions the input / output are transposed, the projection is written and
                the tables are precomputed
  gen_precompute  which wrapper gets which table built from which direct callback under which trait
  gen_catch     the return codes of main()'s catch handlers
  gen_read_loop the form of read_data's line loop
The translator is a tokenizer + a statement-level parser; expressions it does not understand
become `WOther "text"` / `XOther "text"` so that the Coq obligations fail rather than silently pass.
"""
import argparse
import json
import os
import re
import shutil
import sys
import tempfile
from fractions import Fraction

MAIN = "src/cli/main.cpp"
UTIL = "src/cli/util.hpp"
# macros of the verified build (vlib.BASE_FLAGS): everything else is undefined
DEFINED = {"TAPKEE_USE_LGPL_COVERTREE", "TAPKEE_VERIF", "FMT_HEADER_ONLY"}


class TranslateError(Exception):
    pass


# ------------------------------------------------------------------------------- lexer
def preprocess(text, defined=DEFINED):
    """resolve #ifdef/#ifndef/#else/#endif for the verified build, drop other directives"""
    out, stack = [], []
    for line in text.split("\n"):
        t = line.strip()
        if t.startswith("#"):
            d = t[1:].strip()
            m = re.match(r"(ifdef|ifndef)\s+(\w+)", d)
            if m:
                on = (m.group(2) in defined) == (m.group(1) == "ifdef")
                stack.append(on)
            elif d.startswith("if"):
                raise TranslateError("unsupported preprocessor conditional: " + t)
            elif d.startswith("else"):
                if not stack:
                    raise TranslateError("#else without #if")
                stack[-1] = not stack[-1]
            elif d.startswith("endif"):
                if not stack:
                    raise TranslateError("#endif without #if")
                stack.pop()
            elif d.startswith("elif"):
                raise TranslateError("unsupported #elif")
            out.append("")
            continue
        out.append(line if all(stack) else "")
    return "\n".join(out)


TOK = re.compile(r"""
    (?P<ws>\s+)
  | (?P<lc>//[^\n]*)
  | (?P<bc>/\*.*?\*/)
  | (?P<str>"(?:[^"\\\n]|\\.)*"s?)
  | (?P<chr>'(?:[^'\\\n]|\\.)*')
  | (?P<num>(?:\d+\.\d*|\.\d+|\d+)(?:[eE][+-]?\d+)?[uUlLfF]*)
  | (?P<id>[A-Za-z_]\w*)
  | (?P<op>::|->|<=|>=|==|!=|&&|\|\||<<|>>|\+\+|--|\+=|-=|\*=|/=|[{}()\[\];,<>=!&|+\-*/%.?:~^\#])
""", re.X | re.S)


def unescape(lit):
    body = lit[1:-1]
    return (body.replace(r"\\", "\0").replace(r"\"", '"').replace(r"\n", "\n").replace(r"\t", "\t")
            .replace("\0", "\\"))


def lex(text):
    toks, i = [], 0
    while i < len(text):
        m = TOK.match(text, i)
        if not m:
            raise TranslateError("cannot tokenize at: " + text[i:i + 40])
        i = m.end()
        k = m.lastgroup
        if k in ("ws", "lc", "bc"):
            continue
        v = m.group(k)
        if k == "str":
            if v.endswith("s"):
                v = v[:-1]
            s = unescape(v)
            if toks and toks[-1][0] == "str":          # adjacent literals concatenate
                toks[-1] = ("str", toks[-1][1] + s)
            else:
                toks.append(("str", s))
        else:
            toks.append((k, v))
    return toks


def txt(toks):
    return " ".join(('"%s"' % t[1]) if t[0] == "str" else t[1] for t in toks)


def match_close(toks, i):
    """toks[i] is an opening bracket; index of the matching closer"""
    pairs = {"(": ")", "[": "]", "{": "}"}
    o = toks[i][1]
    c = pairs[o]
    depth = 0
    for j in range(i, len(toks)):
        if toks[j][0] == "op":
            if toks[j][1] == o:
                depth += 1
            elif toks[j][1] == c:
                depth -= 1
                if depth == 0:
                    return j
    raise TranslateError("unbalanced " + o)


def split_top(toks, sep):
    """split a token list on operator `sep` at bracket depth 0 (angle brackets are not counted)"""
    parts, cur, depth = [], [], 0
    for t in toks:
        if t[0] == "op" and t[1] in "([{":
            depth += 1
        elif t[0] == "op" and t[1] in ")]}":
            depth -= 1
        if depth == 0 and t == ("op", sep):
            parts.append(cur)
            cur = []
        else:
            cur.append(t)
    parts.append(cur)
    return parts


# ------------------------------------------------------------------------------- statements
def parse_stmt(toks, i):
    """returns (stmt, next index); stmt = ('block', [stmts]) | ('if', cond, then, else|None)
       | ('try', body, [handler stmts]) | ('loop', header, body) | ('simple', toks)"""
    t = toks[i]
    if t == ("op", "{"):
        j = match_close(toks, i)
        return ("block", parse_stmts(toks[i + 1:j])), j + 1
    if t == ("id", "if"):
        k = i + 1
        if toks[k] == ("id", "constexpr"):
            k += 1
        j = match_close(toks, k)
        cond = toks[k + 1:j]
        then, n = parse_stmt(toks, j + 1)
        els = None
        if n < len(toks) and toks[n] == ("id", "else"):
            els, n = parse_stmt(toks, n + 1)
        return ("if", cond, then, els), n
    if t == ("id", "try"):
        body, n = parse_stmt(toks, i + 1)
        handlers = []
        while n < len(toks) and toks[n] == ("id", "catch"):
            j = match_close(toks, n + 1)
            h, n = parse_stmt(toks, j + 1)
            handlers.append(h)
        return ("try", body, handlers), n
    if t in (("id", "for"), ("id", "while")):
        j = match_close(toks, i + 1)
        body, n = parse_stmt(toks, j + 1)
        return ("loop", toks[i:j + 1], body), n
    depth = 0
    for j in range(i, len(toks)):
        x = toks[j]
        if x[0] == "op" and x[1] in "([{":
            depth += 1
        elif x[0] == "op" and x[1] in ")]}":
            depth -= 1
        elif x == ("op", ";") and depth == 0:
            return ("simple", toks[i:j]), j + 1
    raise TranslateError("statement without ';': " + txt(toks[i:i + 12]))


def parse_stmts(toks):
    out, i = [], 0
    while i < len(toks):
        s, i = parse_stmt(toks, i)
        out.append(s)
    return out


def walk(stmt):
    """all statements nested in stmt (pre-order)"""
    yield stmt
    k = stmt[0]
    if k == "block":
        for s in stmt[1]:
            yield from walk(s)
    elif k == "if":
        yield from walk(stmt[2])
        if stmt[3]:
            yield from walk(stmt[3])
    elif k == "try":
        yield from walk(stmt[1])
        for h in stmt[2]:
            yield from walk(h)
    elif k == "loop":
        yield from walk(stmt[2])


def returns_in(stmt):
    codes = []
    for s in walk(stmt):
        if s[0] == "simple" and s[1] and s[1][0] == ("id", "return"):
            codes.append(s[1][1:])
    return codes


def function_body(toks, name):
    for i in range(len(toks) - 2):
        if toks[i] == ("id", name) and toks[i + 1] == ("op", "("):
            j = match_close(toks, i + 1)
            if j + 1 < len(toks) and toks[j + 1] == ("op", "{"):
                e = match_close(toks, j + 1)
                return toks[j + 2:e]
    raise TranslateError("function %s not found" % name)


# ------------------------------------------------------------------------------- expressions
TY = {"int": "TInt", "double": "TDbl", "std::string": "TStr", "string": "TStr"}


class Env:
    def __init__(self, consts, optvar):
        self.consts = consts        # identifier -> string literal
        self.vars = {}              # local variable -> wexpr (python tuple)
        self.optvar = optvar
        self.streams = {}           # stream variable -> wexpr for the file name

    def key(self, toks):
        if len(toks) == 1 and toks[0][0] == "str":
            return toks[0][1]
        if len(toks) == 1 and toks[0][0] == "id" and toks[0][1] in self.consts:
            return self.consts[toks[0][1]]
        return None


def strip_parens(toks):
    while toks and toks[0] == ("op", "(") and match_close(toks, 0) == len(toks) - 1:
        toks = toks[1:-1]
    return toks


def qualified(toks):
    """join `a :: b :: c` into one string if the token list is exactly a qualified name"""
    if not toks or len(toks) % 2 == 0:
        return None
    for n, t in enumerate(toks):
        if n % 2 == 0 and t[0] != "id":
            return None
        if n % 2 == 1 and t != ("op", "::"):
            return None
    return "::".join(t[1] for t in toks[::2])


def parse_expr(toks, env):
    toks = strip_parens(list(toks))
    if not toks:
        return ("WOther", "")
    parts = split_top(toks, "&&")
    if len(parts) > 1:
        e = parse_expr(parts[0], env)
        for p in parts[1:]:
            e = ("WAnd", e, parse_expr(p, env))
        return e
    if toks[0] == ("op", "!"):
        return ("WNot", parse_expr(toks[1:], env))
    # c == 0 / c != 0 / c > 0 where c is opt.count(KEY) (an occurrence count: 0 iff not given)
    for op, neg in (("==", True), ("!=", False), (">", False)):
        parts = split_top(toks, op)
        if len(parts) == 2 and parts[1] == [("num", "0")]:
            lhs = parse_expr(parts[0], env)
            if lhs[0] == "WCount":
                return ("WNot", lhs) if neg else lhs
            return ("WOther", txt(toks))
    ov = ("id", env.optvar)
    # opt[KEY].as<T>()
    if toks[0] == ov and len(toks) > 2 and toks[1] == ("op", "["):
        j = match_close(toks, 1)
        key = env.key(toks[2:j])
        rest = toks[j + 1:]
        if key is not None and len(rest) >= 6 and rest[0] == ("op", ".") and rest[1] == ("id", "as") \
                and rest[2] == ("op", "<") and rest[-3:] == [("op", ">"), ("op", "("), ("op", ")")]:
            ty = qualified(rest[3:-3])
            if ty in TY:
                return ("WAs", key, TY[ty])
        return ("WOther", txt(toks))
    # opt.count(KEY)
    if toks[0] == ov and len(toks) > 4 and toks[1] == ("op", ".") and toks[2] == ("id", "count") \
            and toks[3] == ("op", "(") and match_close(toks, 3) == len(toks) - 1:
        key = env.key(toks[4:-1])
        if key is not None:
            return ("WCount", key)
        return ("WOther", txt(toks))
    # parse_multiple(MAP, e)
    if toks[0] == ("id", "parse_multiple") and toks[1] == ("op", "(") and match_close(toks, 1) == len(toks) - 1:
        a = split_top(toks[2:-1], ",")
        if len(a) == 2 and len(a[0]) == 1 and a[0][0][0] == "id":
            return ("WName", a[0][0][1], parse_expr(a[1], env))
        return ("WOther", txt(toks))
    # static_cast<T>(e): value preserving for the types used here
    if toks[0] == ("id", "static_cast") and toks[-1] == ("op", ")"):
        for j, t in enumerate(toks):
            if t == ("op", "(") and match_close(toks, j) == len(toks) - 1:
                return parse_expr(toks[j + 1:-1], env)
    if len(toks) == 1:
        k, v = toks[0]
        if k == "id" and v in env.vars:
            return env.vars[v]
        if k == "id" and v in ("true", "false"):
            return ("WLit", v)
        if k == "num" and re.fullmatch(r"\d+", v):
            return ("WLit", v)
        return ("WOther", txt(toks))
    # v[0]
    if len(toks) == 4 and toks[0][0] == "id" and toks[0][1] in env.vars and toks[1] == ("op", "[") \
            and toks[2] == ("num", "0") and toks[3] == ("op", "]"):
        return ("WIndex0", env.vars[toks[0][1]])
    # v.c_str()
    if len(toks) == 5 and toks[0][0] == "id" and toks[0][1] in env.vars and \
            [t[1] for t in toks[1:]] == [".", "c_str", "(", ")"]:
        return env.vars[toks[0][1]]
    return ("WOther", txt(toks))


def expr_type(e):
    if e[0] == "WAs":
        return e[2]
    return None


CMPS = {"<=": "CLe", "<": "CLt", ">=": "CGe", ">": "CGt", "==": "CEq", "!=": "CNe"}


def number(toks):
    """numeric literal (optionally signed) -> Fraction, is_integer_literal"""
    sign = 1
    toks = list(toks)
    while toks and toks[0] in (("op", "-"), ("op", "+")):
        if toks[0][1] == "-":
            sign = -sign
        toks = toks[1:]
    if len(toks) != 1 or toks[0][0] != "num":
        return None
    lit = re.sub(r"[uUlLfF]+$", "", toks[0][1])
    try:
        from decimal import Decimal
        q = Fraction(Decimal(lit)) * sign
    except Exception:
        return None
    return q, bool(re.fullmatch(r"\d+", lit))


def parse_test(cond, env):
    cond = strip_parens(list(cond))
    depth = 0
    for j, t in enumerate(cond):
        if t[0] == "op" and t[1] in "([{":
            depth += 1
        elif t[0] == "op" and t[1] in ")]}":
            depth -= 1
        elif depth == 0 and t[0] == "op" and t[1] in CMPS and j > 0:
            # `<`/`>` may be template brackets (as<int>): only accept if the rhs is a number
            rhs = number(cond[j + 1:])
            if rhs is None:
                continue
            lhs = parse_expr(cond[:j], env)
            ty = expr_type(lhs)
            q, is_int = rhs
            if ty == "TInt" and is_int:
                return ("XCmpZ", lhs, CMPS[t[1]], int(q))
            if ty == "TDbl":
                return ("XCmpQ", lhs, CMPS[t[1]], q)
            return ("XOther", txt(cond))
    e = parse_expr(cond, env)
    if has_other(e):
        return ("XOther", txt(cond))
    return ("XIf", e)


def has_other(e):
    if e[0] == "WOther":
        return True
    return any(isinstance(x, tuple) and has_other(x) for x in e[1:])


def expr_mentions(e, optvar):
    """does the (resolved) expression depend on the parsed command line?"""
    if e[0] in ("WAs", "WCount"):
        return True
    if e[0] == "WOther":
        return re.search(r"(?<![\w])%s(?![\w])" % re.escape(optvar), e[1]) is not None
    return any(isinstance(x, tuple) and expr_mentions(x, optvar) for x in e[1:])


def toks_mention(toks, env):
    for t in toks:
        if t == ("id", env.optvar):
            return True
        if t[0] == "id" and t[1] in env.vars and expr_mentions(env.vars[t[1]], env.optvar):
            return True
    return False


def ends_with_return(stmt):
    """the statement unconditionally ends in `return ...;`"""
    if stmt[0] == "simple":
        return bool(stmt[1]) and stmt[1][0] == ("id", "return")
    if stmt[0] == "block":
        return bool(stmt[1]) and ends_with_return(stmt[1][-1])
    return False


def mentions_options(e):
    if e[0] in ("WAs", "WCount"):
        return True
    return any(isinstance(x, tuple) and mentions_options(x) for x in e[1:])


# ------------------------------------------------------------------------------- main.cpp
def parse_type_prefix(toks):
    """if toks starts with `type name`, return (index of name); else None"""
    i = 0
    n = len(toks)
    while i < n and toks[i][0] == "id" and toks[i][1] in ("const", "static", "unsigned"):
        i += 1
    if i >= n or toks[i][0] != "id":
        return None
    i += 1
    while i + 1 < n and toks[i] == ("op", "::") and toks[i + 1][0] == "id":
        i += 2
    if i < n and toks[i] == ("op", "<"):
        depth = 0
        while i < n:
            if toks[i] == ("op", "<"):
                depth += 1
            elif toks[i] == ("op", ">"):
                depth -= 1
                if depth == 0:
                    i += 1
                    break
            elif toks[i] == ("op", ">>"):
                depth -= 2
                if depth <= 0:
                    i += 1
                    break
            i += 1
        while i + 1 < n and toks[i] == ("op", "::") and toks[i + 1][0] == "id":
            i += 2
    while i < n and toks[i] in (("op", "*"), ("op", "&")):
        i += 1
    if i < n and toks[i][0] == "id" and i >= 1:
        return i
    return None


def translate_main(toks, maps):
    out = {}
    # string constants:  static const char* NAME = "...";
    consts = {}
    for i in range(len(toks) - 3):
        if toks[i][0] == "id" and toks[i + 1] == ("op", "=") and toks[i + 2][0] == "str" \
                and toks[i + 3] == ("op", ";"):
            consts[toks[i][1]] = toks[i + 2][1]
    # descriptions built with +: keep the leading literal
    descs = dict(consts)
    for i in range(len(toks) - 3):
        if toks[i][0] == "id" and toks[i + 1] == ("op", "=") and toks[i + 2][0] == "str" \
                and toks[i + 3] == ("op", "+"):
            descs[toks[i][1]] = toks[i + 2][1] + "<names>"

    # with_default
    wd = function_body(toks, "with_default")
    wtxt = txt(wd)
    if "std :: to_string ( defs )" in wtxt:
        out["numfmt"] = ("FmtToString",)
    elif re.search(r'fmt :: format \( "\{\}" , defs \)', wtxt):
        out["numfmt"] = ("FmtShortest",)
    else:
        out["numfmt"] = ("FmtOther", wtxt)

    body = function_body(toks, "run")
    # ---- option table
    k = None
    for i in range(len(body) - 2):
        if body[i] == ("id", "add_options") and body[i + 1] == ("op", "("):
            k = match_close(body, i + 1) + 1
            break
    if k is None:
        raise TranslateError("add_options() not found")
    options, helps = [], []
    env0 = Env(consts, "opt")
    while body[k] == ("op", "("):
        j = match_close(body, k)
        argl = split_top(body[k + 1:j], ",")
        k = j + 1
        if len(argl) not in (2, 3):
            raise TranslateError("option group with %d arguments: %s" % (len(argl), txt(body[k:j])))
        n = argl[0]
        if n and n[0] == ("id", "either"):
            names = [env0.key(x) for x in split_top(n[2:-1], ",")]
        else:
            names = [env0.key(n)]
        if any(x is None for x in names):
            raise TranslateError("option name not a constant: " + txt(n))
        # cxxopts splits "a,b" itself as well
        names = [y for x in names for y in x.split(",")]
        dk = argl[1][0][1] if len(argl[1]) == 1 and argl[1][0][0] == "id" else None
        helps.append((names[0], descs.get(dk, txt(argl[1]))))
        if len(argl) == 2:
            options.append((names, ("DFlag",)))
            continue
        d = argl[2]
        if not (d[0] == ("id", "with_default") and d[1] == ("op", "(") and d[-1] == ("op", ")")):
            raise TranslateError("option value is not with_default(...): " + txt(d))
        inner = d[2:-1]
        if len(inner) == 1 and inner[0][0] == "str":
            options.append((names, ("DStr", inner[0][1])))
        else:
            num = number(inner)
            if num is None:
                raise TranslateError("default not a literal: " + txt(inner))
            q, is_int = num
            options.append((names, ("DInt", int(q)) if is_int else ("DDbl", q, txt(inner))))
    if body[k] != ("op", ";"):
        raise TranslateError("unexpected token after the option table: " + txt(body[k:k + 5]))
    out["options"] = options
    out["help"] = helps

    stmts = parse_stmts(body[k + 1:])
    # name of the ParseResult variable
    optvar = "opt"
    for s in stmts:
        if s[0] == "simple" and ("id", "parse") in s[1] and ("id", "argc") in s[1]:
            p = parse_type_prefix(s[1])
            if p is not None:
                optvar = s[1][p][1]
    env = Env(consts, optvar)
    exits, wiring, io, io_runtime, pre = [], [], {}, [], {}
    data_var = [None]
    tables_src = {}      # matrix variable -> (callback type, trait)
    wrappers = {}        # callback object -> (wrapper type, matrix variable)

    def note_call(t, cond_stack):
        """calls that matter for the io roles"""
        names = [x[1] for x in t if x[0] == "id"]
        if "transposeInPlace" in names:
            tgt = "transpose_input_when" if data_var[0] and names[0] == data_var[0] else "transpose_output_when"
            io[tgt] = conj(cond_stack)
        for fn in ("write_matrix", "write_vector"):
            for i in range(len(t) - 1):
                if t[i] == ("id", fn) and t[i + 1] == ("op", "("):
                    a = split_top(t[i + 2:match_close(t, i + 1)], ",")
                    what = txt(a[0])
                    stream = a[1][0][1] if len(a) > 1 and len(a[1]) == 1 else None
                    fexpr = env.streams.get(stream, ("WOther", txt(a[1]) if len(a) > 1 else ""))
                    if "proj_mat" in what:
                        io["projection_matrix_file"] = fexpr
                        io["delimiter_projection"] = parse_expr(a[2], env) if len(a) > 2 else ("WOther", "")
                        io["write_projection_when"] = conj(cond_stack, runtime=io_runtime)
                    elif "mean_vec" in what:
                        io["projection_mean_file"] = fexpr
                    elif "embedding" in what:
                        io["output_file"] = fexpr
                        io["delimiter_write"] = parse_expr(a[2], env) if len(a) > 2 else ("WOther", "")
                    else:
                        io["write_other_" + what] = fexpr

    def conj(cond_stack, runtime=None):
        e = None
        for c in cond_stack:
            for part in split_top(strip_parens(list(c)), "&&"):
                pe = parse_expr(part, env)
                if not mentions_options(pe) and runtime is not None:
                    runtime.append(txt(part))          # a fact about the library's result
                    continue
                e = pe if e is None else ("WAnd", e, pe)
        return e if e is not None else ("WLit", "true")

    def simple(t, cond_stack):
        if not t:
            return
        # kwargs
        for i in range(len(t) - 2):
            if t[i] == ("id", "kwargs") and t[i + 1] == ("op", "[") and t[i + 2] == ("op", "("):
                j = match_close(t, i + 2)
                for item in split_top(t[i + 3:j], ","):
                    eq = split_top(item, "=")
                    if len(eq) != 2:
                        raise TranslateError("kwargs item: " + txt(item))
                    kw = qualified(eq[0])
                    if kw is None:
                        raise TranslateError("kwargs keyword: " + txt(eq[0]))
                    wiring.append((kw.split("::")[-1], parse_expr(eq[1], env)))
                return
        if t[0] == ("id", "return"):
            return
        p = parse_type_prefix(t)
        if p is not None:                                     # declaration
            name = t[p][1]
            rest = t[p + 1:]
            tyname = txt(t[:p])
            if not rest:
                env.vars.pop(name, None)
                return
            if rest[0] == ("op", "="):
                rhs = rest[1:]
                if rhs and rhs[0] == ("id", "read_data"):
                    a = split_top(rhs[2:match_close(rhs, 1)], ",")
                    st = a[0][0][1] if len(a[0]) == 1 else None
                    io["input_file"] = env.streams.get(st, ("WOther", txt(a[0])))
                    io["delimiter_read"] = parse_expr(a[1], env) if len(a) > 1 else ("WOther", "")
                    data_var[0] = name
                    return
                env.vars[name] = parse_expr(rhs, env)
                return
            if rest[0] == ("op", "(") and match_close(rest, 0) == len(rest) - 1:
                inner = rest[1:-1]
                if "stream" in tyname:
                    env.streams[name] = parse_expr(inner, env)
                elif "callback" in tyname:
                    wrappers[name] = (tyname.split("::")[-1].strip(), txt(inner))
                else:
                    env.vars[name] = ("WOther", txt(t))
                return
            env.vars[name] = ("WOther", txt(t))
            return
        # assignment  v = expr
        if len(t) > 2 and t[0][0] == "id" and t[1] == ("op", "="):
            name, rhs = t[0][1], t[2:]
            if rhs and rhs[0] == ("id", "matrix_from_callback"):
                a = split_top(rhs[2:match_close(rhs, 1)], ",")
                cbt = None
                for x in a[-1]:
                    if x[0] == "id" and "callback" in x[1]:
                        cbt = x[1]
                trait = None
                for c in cond_stack:
                    for x in c:
                        if x[0] == "id" and x[1].startswith("needs_"):
                            trait = x[1]
                tables_src[name] = (cbt or txt(a[-1]), trait or "always")
                return
            new = parse_expr(rhs, env)
            old = env.vars.get(name)
            if cond_stack:
                if old == ("WLit", "false") and new == ("WLit", "true"):
                    env.vars[name] = conj(cond_stack)
                elif name == "output" or "embed" in txt(rhs):
                    note_embed(t, cond_stack)
                else:
                    env.vars[name] = ("WOther", "conditional assignment: " + txt(t))
            else:
                if "embed" in txt(rhs):
                    note_embed(t, cond_stack)
                env.vars[name] = new
            return
        note_call(t, cond_stack)

    def note_embed(t, cond_stack):
        s = txt(t)
        if "withKernel" in s or "withDistance" in s or "withFeatures" in s:
            for role, fn in (("kernel", "withKernel"), ("distance", "withDistance"), ("features", "withFeatures")):
                m = re.search(fn + r" \( (\w+) \)", s)
                if m:
                    pre[role] = m.group(1)
            pre["_when"] = conj(cond_stack)
        m = re.search(r"with \( (\w+) \)", s)
        if m:
            pre.setdefault("_params", []).append(m.group(1))

    def run_stmt(s, cond_stack):
        k = s[0]
        if k == "simple":
            simple(s[1], cond_stack)
        elif k == "block":
            saved = dict(env.vars)
            declared = set()
            for x in s[1]:
                if x[0] == "simple":
                    p = parse_type_prefix(x[1])
                    if p is not None:
                        declared.add(x[1][p][1])
                run_stmt(x, cond_stack)
            for d in declared:                                 # block scope ends
                if d in saved:
                    env.vars[d] = saved[d]
                else:
                    env.vars.pop(d, None)
        elif k == "if":
            rets = returns_in(s[2])
            if rets and s[3] is None and ends_with_return(s[2]):
                code = number(rets[-1])
                if code is None:
                    raise TranslateError("return value not a literal: " + txt(rets[-1]))
                test = parse_test(s[1], env)
                about_options = expr_mentions(test[1], env.optvar) if test[0] != "XOther" \
                    else toks_mention(s[1], env)
                if not about_options:
                    # a test on the library's result (or on nothing the command line decides)
                    io_runtime.append("exit %d when %s" % (int(code[0]), txt(
                        [x for c in cond_stack for x in list(c) + [("op", "&&")]] + list(s[1]))))
                    return
                if any(c for c in cond_stack):
                    outer = conj(cond_stack)
                    if test[0] == "XIf":
                        test = ("XIf", ("WAnd", outer, test[1]))
                    else:
                        test = ("XOther", txt(s[1]))
                exits.append((test, int(code[0])))
                return
            run_stmt(s[2], cond_stack + [s[1]])
            if s[3] is not None:
                run_stmt(s[3], cond_stack + [[("op", "!"), ("op", "(")] + list(s[1]) + [("op", ")")]])
        elif k == "try":
            codes = [number(r) for h in s[2] for r in returns_in(h)]
            assigns = [x for x in walk(s[1]) if x[0] == "simple" and len(x[1]) > 2 and x[1][1] == ("op", "=")
                       and x[1][2] == ("id", "parse_multiple")]
            if codes and assigns:
                if any(c is None for c in codes):
                    raise TranslateError("catch handler returns a non-literal")
                for a in assigns:
                    e = parse_expr(a[1][2:], env)
                    if e[0] == "WName":
                        exits.append((("XUnknown", e[1], e[2]), int(codes[0][0])))
                    else:
                        exits.append((("XOther", txt(a[1])), int(codes[0][0])))
                    env.vars[a[1][0][1]] = e
            else:
                run_stmt(s[1], cond_stack)
        elif k == "loop":
            run_stmt(s[2], cond_stack + [s[1]])

    for s in stmts:
        run_stmt(s, [])

    # the precompute branch hangs off an `if (opt.count(precompute)) ... else ...`
    if "_when" in pre:
        io["precompute_when"] = pre["_when"]
    else:
        io["precompute_when"] = ("WLit", "false")
    io.setdefault("transpose_input_when", ("WLit", "false"))
    io.setdefault("transpose_output_when", ("WLit", "false"))
    precompute = []
    for role in ("kernel", "distance", "features"):
        obj = pre.get(role)
        if obj is None:
            continue
        wt, mv = wrappers.get(obj, ("?", "?"))
        cbt, trait = tables_src.get(mv, (mv, ""))
        precompute.append((role, wt, cbt, trait))
    out["exits"] = exits
    out["wiring"] = wiring
    out["io"] = sorted(io.items())
    out["io_runtime"] = io_runtime
    out["precompute"] = precompute
    # main(): return codes of the catch handlers
    mb = parse_stmts(function_body(toks, "main"))
    catches = []
    for s in mb:
        for x in walk(s):
            if x[0] == "try":
                for h in x[2]:
                    for r in returns_in(h):
                        c = number(r)
                        if c is None:
                            raise TranslateError("main(): catch returns a non-literal")
                        catches.append(int(c[0]))
    out["catch"] = catches
    return out


# ------------------------------------------------------------------------------- util.hpp
def translate_util(toks, raw):
    maps = []
    i = 0
    while i < len(toks) - 4:
        if toks[i] == ("id", "map") and toks[i + 1] == ("op", "<"):
            # ... map<std::string, T> NAME = { {"k", tapkee::V}, ... };
            j = i
            while j < len(toks) and toks[j] != ("op", "="):
                if toks[j] in (("op", ";"), ("op", "(")):
                    break
                j += 1
            if j < len(toks) and toks[j] == ("op", "=") and toks[j + 1] == ("op", "{") and toks[j - 1][0] == "id":
                name = toks[j - 1][1]
                e = match_close(toks, j + 1)
                entries = []
                for item in split_top(toks[j + 2:e], ","):
                    if not item:
                        continue
                    if item[0] != ("op", "{") or item[-1] != ("op", "}"):
                        raise TranslateError("map entry: " + txt(item))
                    kv = split_top(item[1:-1], ",")
                    if len(kv) != 2 or len(kv[0]) != 1 or kv[0][0][0] != "str":
                        raise TranslateError("map entry: " + txt(item))
                    val = qualified(kv[1])
                    if val is None:
                        raise TranslateError("map value: " + txt(kv[1]))
                    entries.append((kv[0][0][1], val.split("::")[-1]))
                maps.append((name, entries))
                i = e
        i += 1
    body = txt(function_body(toks, "read_data"))
    if re.search(r"while \( getline \( ifs , str \) \) \{", body):
        loop = "LoopGetline"
    elif re.search(r"while \( ifs \) \{ getline \( ifs , str \) ;", body):
        loop = "LoopStreamThenGetline"
    else:
        loop = "LoopOther"
    return maps, loop


# ------------------------------------------------------------------------------- util.hpp: function shapes
# read_data and matrix_from_callback are algorithms, not tables.  They are tied by SHAPE: the function is
# rendered canonically (comments, layout, `std::`/`tapkee::` qualifiers, the names of parameters and locals,
# the text of string literals, `++i` vs `i++`, braces around a single statement and the integer type of a
# loop counter do not matter; everything else does) and compared with the reviewed shape that the Coq model
# mirrors.  Any other shape becomes `...Other` and the obligations about it fail.
KEYWORDS_NOT_TYPES = {"return", "throw", "break", "continue", "delete", "goto", "else", "case", "new", "typedef",
                      "using"}
INT_TYPES = {"int", "long", "unsigned", "size_t", "auto", "Index", "IndexType", "ptrdiff_t", "short", "signed"}


def function_def(toks, name):
    """(parameter tokens, body tokens) of the first definition of `name`"""
    for i in range(len(toks) - 2):
        if toks[i] == ("id", name) and toks[i + 1] == ("op", "("):
            j = match_close(toks, i + 1)
            if j + 1 < len(toks) and toks[j + 1] == ("op", "{"):
                e = match_close(toks, j + 1)
                return toks[i + 2:j], toks[j + 2:e]
    raise TranslateError("function %s not found" % name)


def declared_names(t):
    """names declared by a simple statement `type a [= ..| (..)] , b ...` (empty list if it is not a declaration)"""
    if not t or (t[0][0] == "id" and t[0][1] in KEYWORDS_NOT_TYPES):
        return []
    p = parse_type_prefix(t)
    if p is None or p == 0:
        return []
    names = [t[p][1]]
    for part in split_top(t[p + 1:], ",")[1:]:
        part = [x for x in part if x not in (("op", "*"), ("op", "&"))]
        if part and part[0][0] == "id":
            names.append(part[0][1])
    return names


def for_clauses(header):
    """header = `for ( a ; b ; c )` tokens -> [a, b, c] or None (while loops, range-for)"""
    if header[0] != ("id", "for"):
        return None
    parts = split_top(header[2:-1], ";")
    return parts if len(parts) == 3 else None


def collect_locals(params, stmts):
    names = []

    def add(n):
        if n not in names:
            names.append(n)
    for part in split_top(params, ","):
        ids = [x[1] for x in part if x[0] == "id"]
        if ids:
            add(ids[-1])
    for top in stmts:
        for s in walk(top):
            if s[0] == "simple":
                for n in declared_names(s[1]):
                    add(n)
            elif s[0] == "loop":
                cl = for_clauses(s[1])
                if cl:
                    for n in declared_names(cl[0]):
                        add(n)
    return names


def canon_tokens(toks, ren):
    """token list -> canonical text"""
    out, i, n = [], 0, len(toks)
    while i < n:
        k, v = toks[i]
        if k == "id" and v in ("std", "tapkee") and i + 1 < n and toks[i + 1] == ("op", "::"):
            i += 2
            continue
        if k == "id" and v == "static_cast" and i + 1 < n and toks[i + 1] == ("op", "<"):
            depth, j = 0, i + 1
            while j < n:
                if toks[j] == ("op", "<"):
                    depth += 1
                elif toks[j] == ("op", ">"):
                    depth -= 1
                elif toks[j] == ("op", ">>"):
                    depth -= 2
                if depth <= 0:
                    break
                j += 1
            out.append("CAST")
            i = j + 1
            continue
        if k == "op" and v in ("++", "--") and i + 1 < n and toks[i + 1][0] == "id" and \
                (i == 0 or toks[i - 1][0] == "op" and toks[i - 1][1] in (";", "(", "{", "}")):
            # prefix increment of a plain variable used as a statement
            out.append(ren.get(toks[i + 1][1], toks[i + 1][1]))
            out.append(v)
            i += 2
            continue
        if k == "str":
            out.append('"S"')
        elif k == "id" and v in ren and not (out and out[-1] in (".", "->", "::")):
            out.append(ren[v])
        else:
            out.append(v)
        i += 1
    return " ".join(out)


def canon_stmt(s, ren):
    k = s[0]
    if k == "simple":
        return canon_tokens(s[1], ren) + " ;"
    if k == "block":
        inner = [canon_stmt(x, ren) for x in s[1]]
        return inner[0] if len(inner) == 1 else "{ " + " ".join(inner) + " }"
    if k == "if":
        r = "if ( " + canon_tokens(s[1], ren) + " ) THEN " + canon_stmt(s[2], ren)
        if s[3] is not None:
            r += " ELSE " + canon_stmt(s[3], ren)
        return r + " ENDIF"
    if k == "loop":
        cl = for_clauses(s[1])
        if cl:
            init = cl[0]
            if declared_names(init):
                p = parse_type_prefix(init)
                if all(x[0] != "id" or x[1] in INT_TYPES or x[1] in ("std", "tapkee", "DenseMatrix", "Eigen", "const")
                       for x in init[:p]):
                    init = [("id", "INT")] + init[p:]
            head = "for ( %s ; %s ; %s )" % tuple(canon_tokens(c, ren) for c in (init, cl[1], cl[2]))
        else:
            head = canon_tokens(s[1], ren)
        return head + " DO " + canon_stmt(s[2], ren) + " DONE"
    if k == "try":
        return "try " + canon_stmt(s[1], ren) + "".join(" catch " + canon_stmt(h, ren) for h in s[2])
    raise TranslateError("statement kind " + k)


def canon_function(toks, name):
    params, body = function_def(toks, name)
    stmts = parse_stmts(body)
    names = collect_locals(params, stmts)
    ren = {n: "L%d" % i for i, n in enumerate(names)}
    return "( " + canon_tokens(params, ren) + " ) " + " ".join(canon_stmt(s, ren) for s in stmts), stmts


LINE_LOOPS = [
    (re.compile(r"while \( getline \( (L\d+) , (L\d+) \) \) DO \{"), "LoopGetline"),
    (re.compile(r"while \( (L\d+) \) DO \{ getline \( \1 , (L\d+) \) ;"), "LoopStreamThenGetline"),
]

# the reviewed shape of read_data (everything but the header of the line loop): one vector per non-empty
# line, filled with the tokens that parse (`if (value_stream >> value) row.push_back(value)`), a final empty
# token never produced (`while (ss) { if (!getline(ss, tok, delimiter)) break; ...`), then a rows x
# row0.size() matrix filled row by row with a per-row length test that throws.   = Cli_Model.to_matrix
READ_DATA_EVERY_ROW = (
    "( ifstream & L0 , char L1 ) string L2 ; vector < vector < ScalarType >> L3 ; "
    "LINELOOP istringstream L4 ( L2 ) ; "
    "if ( L2 . size ( ) ) THEN { vector < ScalarType > L5 ; "
    "while ( L4 ) DO { string L6 ; if ( ! getline ( L4 , L6 , L1 ) ) THEN break ; ENDIF "
    "istringstream L7 ( L6 ) ; ScalarType L8 ; if ( L7 >> L8 ) THEN L5 . push_back ( L8 ) ; ENDIF } DONE "
    "L3 . push_back ( L5 ) ; } ENDIF } DONE "
    "if ( ! L3 . empty ( ) ) THEN { DenseMatrix L9 ( L3 . size ( ) , L3 [ 0 ] . size ( ) ) ; "
    "for ( INT L10 = 0 ; L10 < L9 . rows ( ) ; L10 ++ ) DO { "
    "if ( CAST ( L3 [ L10 ] . size ( ) ) != L9 . cols ( ) ) THEN { stringstream L4 ; L4 << \"S\" << L10 ; "
    "throw runtime_error ( L4 . str ( ) ) ; } ENDIF "
    "for ( INT L11 = 0 ; L11 < L9 . cols ( ) ; L11 ++ ) DO L9 ( L10 , L11 ) = L3 [ L10 ] [ L11 ] ; DONE } DONE "
    "return L9 ; } ELSE return DenseMatrix ( 0 , 0 ) ; ENDIF"
)

MFC_RE = re.compile(
    r"\( const IndexType L0 , PairwiseCallback L1 \) "
    r"DenseMatrix L2 (?P<init>\( L0 , L0 \)|= DenseMatrix :: Zero \( L0 , L0 \)) ; IndexType L3 , L4 ; "
    r"for \( L3 = 0 ; L3 < L0 ; L3 \+\+ \) DO "
    r"for \( L4 = L3(?: \+ (?P<off>\d+))? ; L4 < L0 ; L4 \+\+ \) DO "
    r"\{ ScalarType L5 = L1 \( L3 , L4 \) ; L2 \( L3 , L4 \) = L5 ; L2 \( L4 , L3 \) = L5 ; \} DONE DONE "
    r"return L2 ;")


def throw_sites(stmts):
    """[(enclosing kinds, innermost condition text)] for every throw"""
    out = []

    def go(s, ctx):
        k = s[0]
        if k == "simple":
            if s[1] and s[1][0] == ("id", "throw"):
                out.append(list(ctx))
        elif k == "block":
            for x in s[1]:
                go(x, ctx)
        elif k == "if":
            go(s[2], ctx + [("if", s[1])])
            if s[3] is not None:
                go(s[3], ctx + [("else", s[1])])
        elif k == "loop":
            go(s[2], ctx + [("loop", s[1])])
        elif k == "try":
            go(s[1], ctx)
            for h in s[2]:
                go(h, ctx)
    for s in stmts:
        go(s, [])
    return out


def translate_shapes(toks):
    """read_check and mfc tables"""
    text, stmts = canon_function(toks, "read_data")
    body, loop = text, "LoopOther"
    for rx, name in LINE_LOOPS:
        body, n = rx.subn("LINELOOP", body, count=1)
        if n:
            loop = name
            break
    if body == READ_DATA_EVERY_ROW:
        check = ("CheckEveryRow",)
    else:
        # one aggregate test: a single throw outside every loop on `#values != lines * columns`, values kept flat
        sites = throw_sites(stmts)
        check = ("CheckOther", hashlib_short(body))
        if len(sites) == 1 and not any(k == "loop" for k, _ in sites[0]) and "vector < vector" not in body \
                and sites[0] and sites[0][-1][0] == "if":
            cond = canon_tokens(sites[0][-1][1], {})
            if re.fullmatch(r"(CAST \( )?\w+ \. size \( \)( \))? != \w+ \* \w+", cond) or \
                    re.fullmatch(r"\w+ \* \w+ != (CAST \( )?\w+ \. size \( \)( \))?", cond):
                check = ("CheckTotalCount",)
    mtext, _ = canon_function(toks, "matrix_from_callback")
    m = MFC_RE.fullmatch(mtext)
    if m:
        mfc = ("MfcLoops", "InitUninit" if m.group("init").startswith("(") else "InitZero", int(m.group("off") or 0))
    else:
        mfc = ("MfcOther", hashlib_short(mtext))
    return loop, check, mfc, text, mtext


def hashlib_short(s):
    import hashlib
    return "unrecognised shape " + hashlib.sha1(s.encode()).hexdigest()[:12]


# ------------------------------------------------------------------------------- emit
def cstr(s):
    if any(ord(c) < 32 or ord(c) > 126 for c in s):
        s = "".join(c if 32 <= ord(c) <= 126 else "?" for c in s)
    return '"' + s.replace('"', '""') + '"'


def cz(n):
    return "(%d)%%Z" % n


def cq(q):
    return "(%d # %d)%%Q" % (q.numerator, q.denominator)


def cexpr(e):
    k = e[0]
    if k == "WAs":
        return "WAs %s %s" % (cstr(e[1]), e[2])
    if k == "WCount":
        return "WCount %s" % cstr(e[1])
    if k == "WNot":
        return "WNot (%s)" % cexpr(e[1])
    if k == "WAnd":
        return "WAnd (%s) (%s)" % (cexpr(e[1]), cexpr(e[2]))
    if k == "WLit":
        return "WLit %s" % cstr(e[1])
    if k == "WName":
        return "WName %s (%s)" % (cstr(e[1]), cexpr(e[2]))
    if k == "WIndex0":
        return "WIndex0 (%s)" % cexpr(e[1])
    return "WOther %s" % cstr(e[1])


def ctest(t):
    k = t[0]
    if k == "XIf":
        return "XIf (%s)" % cexpr(t[1])
    if k == "XUnknown":
        return "XUnknown %s (%s)" % (cstr(t[1]), cexpr(t[2]))
    if k == "XCmpZ":
        return "XCmpZ (%s) %s %s" % (cexpr(t[1]), t[2], cz(t[3]))
    if k == "XCmpQ":
        return "XCmpQ (%s) %s %s" % (cexpr(t[1]), t[2], cq(t[3]))
    return "XOther %s" % cstr(t[1])


def cdefault(d):
    if d[0] == "DFlag":
        return "DFlag"
    if d[0] == "DStr":
        return "DStr %s" % cstr(d[1])
    if d[0] == "DInt":
        return "DInt %s" % cz(d[1])
    return "DDbl %s" % cq(d[1])


def clist(items, indent="  "):
    if not items:
        return "[]"
    return "[\n" + ";\n".join(indent + x for x in items) + "\n]"


def emit(tab):
    o = []
    o.append("(* GENERATED by translate/t_cli.py from src/cli/main.cpp and src/cli/util.hpp. DO NOT EDIT. *)")
    o.append("From Coq Require Import String List ZArith QArith.")
    o.append("From TK Require Import Cli_Model.")
    o.append("Import ListNotations.")
    o.append("Local Close Scope Q_scope.")
    o.append("Open Scope string_scope.")
    o.append("")
    o.append("Definition gen_options : list odecl := " + clist(
        ["{| o_names := [%s]; o_default := %s |}" % ("; ".join(cstr(n) for n in names), cdefault(d))
         for names, d in tab["options"]]) + ".")
    o.append("")
    nf = tab["numfmt"]
    o.append("Definition gen_numfmt : dfmt := %s." % (nf[0] if len(nf) == 1 else "FmtOther " + cstr(nf[1])))
    o.append("")
    o.append("Definition gen_maps : list (string * list (string * string)) := " + clist(
        ["(%s, [%s])" % (cstr(n), ";\n     ".join("(%s, %s)" % (cstr(k), cstr(v)) for k, v in es))
         for n, es in tab["maps"]]) + ".")
    o.append("")
    o.append("Definition gen_exits : list xexit := " + clist(
        ["{| x_test := %s; x_code := %s |}" % (ctest(t), cz(c)) for t, c in tab["exits"]]) + ".")
    o.append("")
    o.append("Definition gen_wiring : list (string * wexpr) := " + clist(
        ["(%s, %s)" % (cstr(k), cexpr(e)) for k, e in tab["wiring"]]) + ".")
    o.append("")
    o.append("Definition gen_io : list (string * wexpr) := " + clist(
        ["(%s, %s)" % (cstr(k), cexpr(e)) for k, e in tab["io"]]) + ".")
    o.append("")
    o.append("(* conjuncts of conditions that depend on the library's result, not on the options *)")
    o.append("Definition gen_io_runtime : list string := " + clist([cstr(x) for x in tab["io_runtime"]]) + ".")
    o.append("")
    o.append("(* role, wrapper handed to the library, direct callback the table is built from, trait guarding it *)")
    o.append("Definition gen_precompute : list (string * (string * (string * string))) := " + clist(
        ["(%s, (%s, (%s, %s)))" % tuple(cstr(x) for x in p) for p in tab["precompute"]]) + ".")
    o.append("")
    o.append("Definition gen_catch : list Z := [%s]." % "; ".join(cz(c) for c in tab["catch"]))
    o.append("")
    o.append("Definition gen_read_loop : read_loop := %s." % tab["read_loop"])
    o.append("")
    rc = tab["read_check"]
    o.append("(* shape of read_data apart from the header of its line loop (row storage, token filter, length test) *)")
    o.append("Definition gen_read_check : read_check := %s." % (rc[0] if len(rc) == 1 else "CheckOther " + cstr(rc[1])))
    o.append("")
    mf = tab["mfc"]
    o.append("(* shape of matrix_from_callback: initial value of the result, first column visited in row i = i + offset *)")
    o.append("Definition gen_mfc : mfc_shape := %s." % (
        "MfcLoops %s %d" % (mf[1], mf[2]) if mf[0] == "MfcLoops" else "MfcOther " + cstr(mf[1])))
    o.append("")
    o.append("Definition gen_help : list (string * string) := " + clist(
        ["(%s, %s)" % (cstr(k), cstr(v)) for k, v in tab["help"]]) + ".")
    o.append("")
    o.append("Definition gen_tables : tables :=")
    o.append("  {| t_options := gen_options; t_numfmt := gen_numfmt; t_maps := gen_maps; t_exits := gen_exits;")
    o.append("     t_wiring := gen_wiring; t_io := gen_io; t_catch := gen_catch |}.")
    o.append("")
    return "\n".join(o)


def jsonable(x):
    if isinstance(x, Fraction):
        return {"num": x.numerator, "den": x.denominator}
    if isinstance(x, (tuple, list)):
        return [jsonable(y) for y in x]
    if isinstance(x, dict):
        return {k: jsonable(v) for k, v in x.items()}
    return x


def translate(repo):
    mp = os.path.join(repo, MAIN)
    up = os.path.join(repo, UTIL)
    raw_u = open(up).read()
    utoks = lex(preprocess(raw_u))
    maps, loop = translate_util(utoks, raw_u)
    mtoks = lex(preprocess(open(mp).read()))
    tab = translate_main(mtoks, maps)
    tab["maps"] = maps
    # the line loop is recognised on the canonical text (names of the stream and of the line variable are free)
    loop, check, mfc, rd_text, mfc_text = translate_shapes(utoks)
    tab["read_loop"] = loop
    tab["read_check"] = check
    tab["mfc"] = mfc
    tab["shape_text"] = {"read_data": rd_text, "matrix_from_callback": mfc_text}
    # canonical order where the order has no meaning: kwargs items (ParametersSet is a map),
    # option declarations (only the help text depends on it), map entries (std::map).
    # Duplicates are kept (stable sort), so a keyword bound twice stays visible.
    tab["wiring"] = sorted(tab["wiring"], key=lambda kv: kv[0])
    order = {names[0]: i for i, (names, _) in enumerate(tab["options"])}
    tab["options"] = sorted(tab["options"], key=lambda o: o[0][0])
    tab["help"] = sorted(tab["help"], key=lambda h: h[0])
    tab["maps"] = [(n, sorted(es, key=lambda kv: kv[0])) for n, es in tab["maps"]]
    return tab


def write_if_changed(path, text):
    old = open(path).read() if os.path.exists(path) else None
    if old != text:
        os.makedirs(os.path.dirname(path), exist_ok=True)
        tmp = path + ".tmp%d" % os.getpid()
        open(tmp, "w").write(text)
        os.replace(tmp, path)
        return True
    return False


# ------------------------------------------------------------------------------- self test
MUTATIONS = [
    # (file, old, new, what must change)
    (MAIN, "tapkee::spe_global_strategy = opt.count(SPE_LOCAL_KEYWORD)",
     "tapkee::spe_global_strategy = !opt.count(SPE_LOCAL_KEYWORD)", "wiring"),
    (MAIN, "tapkee::spe_global_strategy = !opt.count(SPE_LOCAL_KEYWORD)",
     "tapkee::spe_global_strategy = opt.count(SPE_LOCAL_KEYWORD)", "wiring"),
    (MAIN, "tapkee::spe_global_strategy = (opt.count(SPE_LOCAL_KEYWORD) == 0)",
     "tapkee::spe_global_strategy = opt.count(SPE_LOCAL_KEYWORD)", "wiring"),
    (MAIN, "if (k < 3)", "if (k < 2)", "exits"),
    (MAIN, "if (target_dim <= 0)", "if (target_dim < 0)", "exits"),
    (MAIN, "tapkee::num_neighbors = k,", "tapkee::num_neighbors = target_dim,", "wiring"),
    (MAIN, "tapkee::spe_tolerance = opt[SPE_TOLERANCE_KEYWORD]", "tapkee::spe_tolerance = opt[FA_EPSILON_KEYWORD]",
     "wiring"),
    (MAIN, "with_default(10)", "with_default(12)", "options"),
    (MAIN, "if (!opt.count(TRANSPOSE_INPUT_KEYWORD))", "if (opt.count(TRANSPOSE_INPUT_KEYWORD))", "io"),
    (MAIN, "write_matrix(&output.embedding, ofs, delimiter[0]);", "write_matrix(&output.embedding, ofs, ',');", "io"),
    (UTIL, '{"lle", tapkee::KernelLocallyLinearEmbedding}', '{"lle", tapkee::KernelLocalTangentSpaceAlignment}',
     "maps"),
    (UTIL, '{"vptree", tapkee::VpTree}', '{"vptree", tapkee::Brute}', "maps"),
    (UTIL, "for (j = i; j < N; j++)", "for (j = i + 1; j < N; j++)", "mfc"),
    (UTIL, "tapkee::DenseMatrix result(N, N);", "tapkee::DenseMatrix result = tapkee::DenseMatrix::Zero(N, N);", "mfc"),
    (UTIL, "result(j, i) = res;", "result(i, j) = res;", "mfc"),
    (UTIL, "!= fm.cols())", "> fm.cols())", "read_check"),
    (UTIL, "if (value_stream >> value)\n                    row.push_back(value);",
     "value_stream >> value;\n                row.push_back(value);", "read_check"),
    (UTIL, "fm(i, j) = input_data[i][j];", "fm(i, j) = input_data[i][0];", "read_check"),
    (UTIL, "for (int i = 0; i < fm.rows(); i++)", "for (int i = 1; i < fm.rows(); i++)", "read_check"),
    (MAIN, "catch (const std::exception &exc)\n    {\n        std::cerr << \"Some error occured: \" << exc.what() << std::endl;\n        return 1;",
     "catch (const std::exception &exc)\n    {\n        std::cerr << \"Some error occured: \" << exc.what() << std::endl;\n        return 0;",
     "catch"),
]


def self_test(repo):
    base = translate(repo)
    ok, seen = True, 0
    for rel, old, new, key in MUTATIONS:
        src = open(os.path.join(repo, rel)).read()
        if old not in src:
            continue
        seen += 1
        d = tempfile.mkdtemp(prefix="t_cli_")
        try:
            os.makedirs(os.path.join(d, "src", "cli"))
            for f in (MAIN, UTIL):
                shutil.copy(os.path.join(repo, f), os.path.join(d, f))
            open(os.path.join(d, rel), "w").write(src.replace(old, new, 1))
            try:
                mut = translate(d)
            except TranslateError as ex:
                print("self-test: mutation %r -> TranslateError (%s): acceptable" % (old[:40], ex))
                continue
            if jsonable(mut[key]) == jsonable(base[key]):
                print("self-test FAILED: mutation %r did not change table %s" % (old[:50], key))
                ok = False
        finally:
            shutil.rmtree(d, ignore_errors=True)
    # whitespace / comment changes must not change anything
    d = tempfile.mkdtemp(prefix="t_cli_")
    try:
        os.makedirs(os.path.join(d, "src", "cli"))
        for f in (MAIN, UTIL):
            s = open(os.path.join(repo, f)).read()
            s = s.replace("    ", "\t").replace(";\n", "; // c\n")
            open(os.path.join(d, f), "w").write(s)
        if jsonable(translate(d)) != jsonable(base):
            print("self-test FAILED: whitespace/comment change altered the tables")
            ok = False
    finally:
        shutil.rmtree(d, ignore_errors=True)
    print("self-test: %d mutations applied, %s" % (seen, "ok" if ok else "FAILED"))
    return 0 if ok and seen >= 8 else 1


def main():
    ap = argparse.ArgumentParser()
    ap.add_argument("--repo", default=os.environ.get("VERIF_REPO", "/repo"))
    here = os.path.dirname(os.path.dirname(os.path.abspath(__file__)))
    ap.add_argument("--out", default=os.path.join(here, "coq", "gen", "Cli.v"))
    ap.add_argument("--json", default=None)
    ap.add_argument("--self-test", action="store_true")
    a = ap.parse_args()
    if a.self_test:
        sys.exit(self_test(a.repo))
    tab = translate(a.repo)
    changed = write_if_changed(a.out, emit(tab))
    if a.json:
        json.dump(jsonable(tab), open(a.json, "w"), indent=1)
    print("t_cli: %s %s (%d options, %d exits, %d wiring lines, %d maps)" % (
        a.out, "rewritten" if changed else "unchanged", len(tab["options"]), len(tab["exits"]),
        len(tab["wiring"]), len(tab["maps"])))


if __name__ == "__main__":
    main()
