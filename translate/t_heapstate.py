#!/usr/bin/env python3
"""T-heapstate — where does tapkee's fibonacci_heap keep its state?  (property C16)

The refinement theorem of C16 (fh_refines_map) is about ONE heap value: the model's `heap` record and the
node forest hanging off it.  It carries over to a program that has several heaps alive (one per thread in
compute_shortest_distances_matrix) exactly when the real heap keeps ALL of its state in its own object:
the data members of `fibonacci_heap` / `fibonacci_heap_node` and the arrays they own — no function-local
static, no static data member, no namespace-scope object.

How: a translation unit that includes only tapkee/utils/fibonacci_heap.hpp is handed to clang-query-14:
  field    fieldDecl whose parent is a record declared in fibonacci_heap.hpp   -> (record, name, type)
  static   varDecl(hasStaticStorageDuration()) expanded in fibonacci_heap.hpp  -> (kind, name, type)
           (function-local statics, static data members and namespace-scope objects alike)
Output: coq/gen/HeapState.v
  Definition heap_fields : list (string * string * string).
  Definition heap_statics : list (string * string * string).
Properties_C16.v states (fh_state_is_own_record) that heap_statics is empty and that the member list is the one
the model's abstraction function accounts for; an edit that adds storage outside the object re-opens it.

usage: t_heapstate.py [--repo DIR] [--out FILE] [--print] [--selftest]
"""
import os
import re
import shutil
import subprocess
import sys
import tempfile

HERE = os.path.dirname(os.path.abspath(__file__))
VERIF = os.path.dirname(HERE)
HEADER = "tapkee/utils/fibonacci_heap.hpp"
FLAGS = ["-std=gnu++2b", "-fopenmp", "-DFMT_HEADER_ONLY=1", "-DTAPKEE_USE_LGPL_COVERTREE", "-DTAPKEE_VERIF",
         "-isystem", "/root/miniconda/include", "-isystem", "/usr/include/eigen3", "-w"]


class TranslateError(Exception):
    pass


def run_query(repo, workdir):
    inc = os.path.realpath(os.path.join(repo, "include"))
    hdr = os.path.join(inc, HEADER)
    if not os.path.isfile(hdr):
        raise TranslateError("no %s under %s" % (HEADER, inc))
    tu = os.path.join(workdir, "t_heapstate_tu.cpp")
    with open(tu, "w") as fh:
        fh.write("#include <%s>\nint main() { return 0; }\n" % HEADER)
    pat = re.escape(hdr).replace("\\/", "/")
    qf = os.path.join(workdir, "t_heapstate_queries.txt")
    with open(qf, "w") as fh:
        fh.write("set output diag\nenable output dump\nset bind-root false\n"
                 'm fieldDecl(isExpansionInFileMatching("%s"), hasParent(cxxRecordDecl().bind("rec"))).bind("field")\n'
                 'm varDecl(hasStaticStorageDuration(), isExpansionInFileMatching("%s")).bind("static")\n' % (pat, pat))
    try:
        p = subprocess.run(["clang-query-14", "-f", qf, tu, "--"] + FLAGS + ["-I", inc],
                           capture_output=True, text=True, timeout=300)
    except subprocess.TimeoutExpired:
        raise TranslateError("clang-query timed out")
    out = p.stdout + "\n" + p.stderr
    errs = re.findall(r"(?m)^\S+:\d+:\d+: (?:fatal )?error: .*$", out)
    if errs:
        raise TranslateError("the header does not compile with clang: " + "; ".join(errs[:5]))
    if out.count("matches.") + out.count("match.") < 2:
        raise TranslateError("clang-query did not run both matchers:\n" + out[-2000:])
    return out


DECL = re.compile(r"^(FieldDecl|VarDecl|CXXRecordDecl)\s+0x[0-9a-f]+\s+<[^>]*>\s+\S+(?:\s+(?:implicit|used|referenced|invalid))*\s+(.*)$")


def parse(out):
    """-> (fields, statics): sorted lists of (record, name, type) / (kind, name, type)"""
    fields, statics = set(), set()
    for block in re.split(r"(?m)^Match #\d+:\s*$", out)[1:]:
        lines = block.splitlines()
        bound = {}
        for i, l in enumerate(lines):
            m = re.match(r'^\S+?:\d+:\d+: note: "([\w-]+)" binds here', l)
            if not m:
                continue
            for j in range(i + 1, len(lines)):
                if re.match(r'^\S+?:\d+:\d+: note: ', lines[j]):
                    break
                d = DECL.match(lines[j])
                if d:
                    bound[m.group(1)] = (d.group(1), d.group(2))
                    break
        if "field" in bound and bound["field"][0] == "FieldDecl":
            rec = "?"
            if "rec" in bound:
                mm = re.search(r"\b(?:class|struct|union)\s+(\w+)", bound["rec"][1])
                rec = mm.group(1) if mm else "?"
            mm = re.match(r"(\w+)\s+'([^']*)'", bound["field"][1])
            if mm:
                fields.add((rec, mm.group(1), mm.group(2)))
        if "static" in bound and bound["static"][0] == "VarDecl":
            mm = re.match(r"(\w+)\s+'([^']*)'(.*)$", bound["static"][1])
            if mm:
                tail = mm.group(3)
                k = "static-local" if re.search(r"\bstatic\b", tail) and "inline" not in tail else "static"
                statics.add((k, mm.group(1), mm.group(2)))
    return sorted(fields), sorted(statics)


def coq_string(s):
    return '"' + s.replace('"', '""') + '"'


def render(fields, statics):
    def lst(es):
        if not es:
            return "[]"
        return "[\n" + ";\n".join("  (%s, %s, %s)" % tuple(coq_string(x) for x in e) for e in es) + "\n]"
    return ("(* GENERATED by translate/t_heapstate.py from include/%s — do not edit. *)\n"
            "From Coq Require Import List String.\nImport ListNotations.\nLocal Open Scope string_scope.\n\n"
            "(* (record, member, type) of every data member declared in the header *)\n"
            "Definition heap_fields : list (string * string * string) := %s.\n\n"
            "(* (kind, name, type) of every object with static storage duration declared in the header *)\n"
            "Definition heap_statics : list (string * string * string) := %s.\n" % (HEADER, lst(fields), lst(statics)))


def generate(repo, workdir=None):
    own = workdir is None
    wd = workdir or tempfile.mkdtemp(prefix="t_heapstate_")
    os.makedirs(wd, exist_ok=True)
    try:
        out = run_query(repo, wd)
        fields, statics = parse(out)
        if not fields:
            raise TranslateError("no data member found in %s: parser out of date?" % HEADER)
        return fields, statics, render(fields, statics)
    finally:
        if own:
            shutil.rmtree(wd, ignore_errors=True)


def selftest(repo):
    """mutate a scratch copy: (a) a function-local static in consolidate-like code, (b) a static data member,
    (c) a new data member — each must change the output in the expected component."""
    res = {}
    base_f, base_s, _ = generate(repo)
    src = open(os.path.join(repo, "include", HEADER)).read()
    edits = {
        "static_local": (r"(int get_num_nodes\(\) const\s*\{)", r"\1 static int verif_calls = 0; verif_calls++;"),
        "static_member": (r"(  protected:\s*\n\s*/\*\* minimal root in heap \*/)", r"  public: static inline int verif_shared = 0;\n\1"),
        "new_field": (r"(  protected:\s*\n\s*/\*\* minimal root in heap \*/)", r"  protected: int verif_extra;\n\1"),
    }
    for name, (pat, rep) in edits.items():
        tmp = tempfile.mkdtemp(prefix="t_heapstate_st_")
        try:
            dst = os.path.join(tmp, "include")
            shutil.copytree(os.path.join(repo, "include"), dst)
            new, n = re.subn(pat, rep, src, count=1)
            if n != 1:
                res[name] = "edit did not apply"
                continue
            open(os.path.join(dst, HEADER), "w").write(new)
            try:
                f, s, _ = generate(tmp)
            except TranslateError as ex:
                res[name] = "error: " + str(ex)[:200]
                continue
            if name == "new_field":
                res[name] = "ok" if (f != base_f and s == base_s) else "NOT SEEN"
            else:
                res[name] = "ok" if s != base_s else "NOT SEEN"
        finally:
            shutil.rmtree(tmp, ignore_errors=True)
    return res


def main(argv):
    repo = "/repo"
    out = os.path.join(VERIF, "coq", "gen", "HeapState.v")
    if "--repo" in argv:
        repo = argv[argv.index("--repo") + 1]
    if "--out" in argv:
        out = argv[argv.index("--out") + 1]
    if "--selftest" in argv:
        r = selftest(repo)
        print(r)
        return 0 if all(v == "ok" for v in r.values()) else 1
    try:
        fields, statics, text = generate(repo)
    except TranslateError as ex:
        print("t_heapstate: " + str(ex), file=sys.stderr)
        return 2
    if "--print" in argv:
        print(text)
        return 0
    old = open(out).read() if os.path.exists(out) else None
    if old != text:
        open(out, "w").write(text)
    print("t_heapstate: %d fields, %d statics (%s)" % (len(fields), len(statics), "unchanged" if old == text else "written"))
    return 0


if __name__ == "__main__":
    sys.exit(main(sys.argv[1:]))
