#!/usr/bin/env python3
"""translate/t_shapes.py -- translator T-shapes of property C01.

Reads the SIZING and INDEX expressions that the C01 index-obligation model (coq/Shapes_Model.v) mirrors by
hand from the C++ working tree and emits them as a table of integer expressions, coq/gen/ShapesSrc.v
(`gen_facts : facts`, type in coq/Shapes_Src.v).  coq/Shapes_Proof_Tie.v proves, for ALL sizes, that every
generated expression denotes the same integer as the expression the hand-written model uses
(`src_facts_tied`), so an edit of one of these expressions re-opens a C01 proof obligation; the extracted
`facts_differ` then tells the check's search phase on which sizes the edited source and the model part.

The reader is deliberately tolerant about *how* a statement is written (while / if / std::min clamps, casts,
parentheses, commutation is left to the Coq side, which compares VALUES, not syntax) and loud when a statement
is not found at all (TranslateError).

usage: t_shapes.py [--repo R] [--out coq/gen/ShapesSrc.v] [--print] [--self-test]
"""
import argparse
import os
import re
import sys

INC = "include/tapkee"


class TranslateError(Exception):
    pass


def fail(msg):
    raise TranslateError(msg)


# ----------------------------------------------------------------------------- text helpers
def strip_comments(s):
    s = re.sub(r"/\*.*?\*/", " ", s, flags=re.S)
    s = re.sub(r"//[^\n]*", " ", s)
    return s


def match_close(s, i, oc="(", cc=")"):
    """s[i] == oc -> index of the matching cc"""
    depth = 0
    for j in range(i, len(s)):
        if s[j] == oc:
            depth += 1
        elif s[j] == cc:
            depth -= 1
            if depth == 0:
                return j
    fail("unbalanced %s near: %s" % (oc, s[i:i + 60]))


def function_body(src, head_re, what):
    """text of the { ... } that follows the first match of head_re"""
    m = re.search(head_re, src)
    if not m:
        fail("function %s not found" % what)
    i = src.find("{", m.end())
    # skip the parameter list if head_re stopped before it
    p = src.find("(", m.end() - 1)
    if p != -1 and p < i:
        q = match_close(src, p)
        i = src.find("{", q)
    if i == -1:
        fail("body of %s not found" % what)
    j = match_close(src, i, "{", "}")
    return src[i + 1:j], i + 1


def split_args(s):
    out, depth, cur = [], 0, ""
    for ch in s:
        if ch in "(<[":
            depth += 1
        elif ch in ")>]":
            depth -= 1
        if ch == "," and depth == 0:
            out.append(cur)
            cur = ""
        else:
            cur += ch
    out.append(cur)
    return [a.strip() for a in out]


# ----------------------------------------------------------------------------- integer expressions
TOK = re.compile(r"\s*(?:(\d+)|([A-Za-z_][\w.]*(?:\(\))?)|(.))")


def strip_casts(s):
    s = re.sub(r"static_cast\s*<[^<>]*>", "", s)
    s = re.sub(r"\(\s*(?:int|IndexType|size_t|unsigned|long|std::size_t)\s*\)", "", s)
    s = re.sub(r"\b(?:size_t|IndexType|int)\s*(?=\()", "", s)
    return s


class P:
    def __init__(self, text, names):
        self.toks = []
        text = strip_casts(text)
        text = re.sub(r"\bend\s*-\s*begin\b", "N__", text)
        pos = 0
        while pos < len(text):
            m = TOK.match(text, pos)
            if not m or m.end() == pos:
                break
            pos = m.end()
            if m.group(1):
                self.toks.append(("n", int(m.group(1))))
            elif m.group(2):
                self.toks.append(("i", m.group(2)))
            elif m.group(3).strip():
                self.toks.append(("o", m.group(3)))
        self.i = 0
        self.names = dict(names)
        self.names["N__"] = "VN"
        self.text = text

    def peek(self):
        return self.toks[self.i] if self.i < len(self.toks) else ("e", None)

    def eat(self):
        t = self.peek()
        self.i += 1
        return t

    def expr(self):
        a = self.term()
        while self.peek() in (("o", "+"), ("o", "-")):
            op = self.eat()[1]
            b = self.term()
            a = ("XAdd" if op == "+" else "XSub", a, b)
        return a

    def term(self):
        a = self.atom()
        while self.peek() in (("o", "*"), ("o", "/")):
            op = self.eat()[1]
            b = self.atom()
            a = ("XMul" if op == "*" else "XDiv", a, b)
        return a

    def atom(self):
        k, v = self.eat()
        if k == "n":
            return ("XC", v)
        if k == "i":
            if v not in self.names:
                fail("identifier `%s` is not a size this model knows (in `%s`)" % (v, self.text.strip()))
            return ("XV", self.names[v])
        if (k, v) == ("o", "("):
            a = self.expr()
            if self.eat() != ("o", ")"):
                fail("`)` expected in `%s`" % self.text.strip())
            return a
        if (k, v) == ("o", "-"):
            return ("XSub", ("XC", 0), self.atom())
        fail("integer expression not understood: `%s`" % self.text.strip())


def parse_sx(text, names):
    p = P(text, names)
    e = p.expr()
    if p.peek()[0] != "e":
        fail("trailing tokens in integer expression `%s`" % text.strip())
    return e


def coq_sx(e):
    if e[0] == "XC":
        return "(XC (%d))" % e[1]
    if e[0] == "XV":
        return "(XV %s)" % e[1]
    return "(%s %s %s)" % (e[0], coq_sx(e[1]), coq_sx(e[2]))


def show_sx(e):
    if e[0] == "XC":
        return str(e[1])
    if e[0] == "XV":
        return e[1][1:]
    return "(%s %s %s)" % (show_sx(e[1]), {"XAdd": "+", "XSub": "-", "XMul": "*", "XDiv": "/"}[e[0]], show_sx(e[2]))


# ----------------------------------------------------------------------------- readers
def one(body, regex, what, names, group=1, all_equal=True, flags=0):
    ms = list(re.finditer(regex, body, flags))
    if not ms:
        fail("statement not found: %s" % what)
    es = [parse_sx(m.group(group), names) for m in ms]
    if all_equal and any(e != es[0] for e in es):
        fail("%s: %d occurrences with different expressions (%s)" % (what, len(es), ", ".join(show_sx(e) for e in es)))
    return es[0]


def balanced_arg(body, regex, what):
    """regex ends just before a '(' : returns the text inside the balanced parentheses"""
    m = re.search(regex, body)
    if not m:
        fail("statement not found: %s" % what)
    i = body.find("(", m.end() - 1)
    j = match_close(body, i)
    return body[i + 1:j]


def clamp(body, var, what, names):
    """`while/if (var > E) [{ ... ] var = E;`  or  `var = std::min(var, E);`  ->  E (the value var is capped at)"""
    found = []
    for m in re.finditer(r"\b(?:while|if)\s*\(\s*%s\s*>=?\s*" % re.escape(var), body):
        i = body.rfind("(", m.start(), m.end())
        j = match_close(body, i)
        cond = body[m.end():j]
        rest = body[j + 1:]
        if rest.lstrip().startswith("{"):
            k = rest.find("{")
            rest = rest[k + 1:match_close(rest, k, "{", "}")]
        else:
            rest = rest[:rest.find(";") + 1]
        a = re.search(r"\b%s\s*=\s*([^;=][^;]*);" % re.escape(var), rest)
        if not a:
            continue
        e1, e2 = parse_sx(cond, names), parse_sx(a.group(1), names)
        if e1 != e2:
            fail("%s: the test compares with `%s` but the assignment stores `%s`" % (what, show_sx(e1), show_sx(e2)))
        found.append(e1)
    for m in re.finditer(r"\b%s\s*=\s*std::min\s*(?:<[^<>]*>)?\s*\(" % re.escape(var), body):
        i = m.end() - 1
        args = split_args(body[i + 1:match_close(body, i)])
        if len(args) != 2:
            continue
        others = [a for a in args if strip_casts(a).strip() != var]
        if len(others) != 1:
            continue
        found.append(parse_sx(others[0], names))
    if len(found) != 1:
        fail("%s: expected exactly one clamp of `%s`, found %d" % (what, var, len(found)))
    return found[0]


def loop_spans(body):
    """spans (start, end) of the bodies of for / while / do loops in `body`"""
    spans = []
    for m in re.finditer(r"\b(for|while)\s*\(", body):
        j = match_close(body, m.end() - 1)
        rest = body[j + 1:]
        if rest.lstrip().startswith("{"):
            k = j + 1 + rest.find("{")
            spans.append((k, match_close(body, k, "{", "}")))
        else:
            spans.append((j + 1, j + 1 + rest.find(";")))
    for m in re.finditer(r"\bdo\s*\{", body):
        k = m.end() - 1
        spans.append((k, match_close(body, k, "{", "}")))
    return spans


# ----------------------------------------------------------------------------- wave 3: OpenMP regions, SPE annealing
def blank_comments_strings(text):
    """comments and string/char literals replaced by spaces, newlines kept (line numbers stay valid)"""
    out, i, n = [], 0, len(text)
    while i < n:
        c = text[i]
        if text.startswith("//", i):
            j = text.find("\n", i)
            j = n if j < 0 else j
            out.append(" " * (j - i)); i = j
        elif text.startswith("/*", i):
            j = text.find("*/", i + 2)
            j = n if j < 0 else j + 2
            out.append("".join(ch if ch == "\n" else " " for ch in text[i:j])); i = j
        elif c == '"' or (c == "'" and not (i > 0 and text[i - 1].isalnum())):
            j = i + 1
            while j < n and text[j] != c and text[j] != "\n":
                j += 2 if text[j] == "\\" else 1
            out.append(c + " " * (j - i - 1) + (c if j < n and text[j] == c else "")); i = j + 1
        else:
            out.append(c); i += 1
    return "".join(out)

def match_close4(s, i, oc, cc):
    depth = 0
    for j in range(i, len(s)):
        if s[j] == oc: depth += 1
        elif s[j] == cc:
            depth -= 1
            if depth == 0: return j
    fail("unbalanced %s" % oc)

def statement_end(s, i):
    """index just past the statement that starts at (or after whitespace / pragmas following) position i"""
    n = len(s)
    while True:
        while i < n and s[i].isspace(): i += 1
        if s.startswith("#", i):                      # a nested pragma line belongs to the statement after it
            j = s.find("\n", i); i = n if j < 0 else j + 1
            continue
        break
    if i >= n: fail("statement expected after #pragma omp")
    if s[i] == "{":
        return match_close4(s, i, "{", "}") + 1
    m = re.match(r"(for|while|if|switch)\b\s*", s[i:])
    if m:
        p = i + m.end()
        if p >= n or s[p] != "(": fail("`(` expected after %s" % m.group(1))
        q = match_close4(s, p, "(", ")")
        e = statement_end(s, q + 1)
        if m.group(1) == "if":
            m2 = re.match(r"\s*else\b", s[e:])
            if m2: e = statement_end(s, e + m2.end())
        return e
    m = re.match(r"do\b", s[i:])
    if m:
        e = statement_end(s, i + 2)
        j = s.find(";", e)
        return n if j < 0 else j + 1
    m = re.match(r"try\b", s[i:])
    if m:
        e = statement_end(s, i + 3)
        while True:
            m2 = re.match(r"\s*catch\s*", s[e:])
            if not m2: return e
            p = e + m2.end(); q = match_close4(s, p, "(", ")"); e = statement_end(s, q + 1)
    # expression statement: up to the ';' at depth 0
    depth = 0
    for j in range(i, n):
        if s[j] in "([{": depth += 1
        elif s[j] in ")]}": depth -= 1
        elif s[j] == ";" and depth == 0: return j + 1
    fail("`;` expected")

PRAGMA = re.compile(r"^[ \t]*#[ \t]*pragma[ \t]+omp[ \t]+([^\n]*)$", re.M)

def scan_omp(repo, inc="include/tapkee"):
    """-> (regions, throws, orphans): #parallel regions; `throw` statements lexically inside a parallel region (an
    exception cannot leave the structured block: std::terminate); work-sharing constructs (`omp for`, `sections`,
    `single`) that are NOT lexically inside a parallel region of the same file (orphaned: they bind to the CALLER's
    team when the application calls tapkee from its own parallel region)"""
    regions, throws, orphans = 0, [], []
    root = os.path.join(repo, inc)
    files = []
    for dp, dn, fn in os.walk(root):
        for f in fn:
            if f.endswith((".hpp", ".h")): files.append(os.path.join(dp, f))
    if not files: fail("no headers under %s" % root)
    for path in sorted(files):
        rel = os.path.relpath(path, os.path.join(repo, inc))
        try:
            raw = open(path, errors="replace").read()
        except OSError as ex:
            fail("cannot read %s: %s" % (rel, ex))
        if "pragma" not in raw: continue
        s = blank_comments_strings(raw.replace("\\\n", "  "))
        spans = []
        prs = list(PRAGMA.finditer(s))
        for m in prs:
            words = m.group(1).split()
            if words and words[0] == "parallel":
                e = statement_end(s, m.end())
                spans.append((m.end(), e)); regions += 1
        for (a, b) in spans:
            for t in re.finditer(r"\bthrow\b", s[a:b]):
                # a throw caught inside the region by an enclosing try block is fine; anything else is not
                line = s.count("\n", 0, a + t.start()) + 1
                if not enclosed_by_try(s, a, a + t.start()):
                    throws.append((rel, line))
        for m in prs:
            words = m.group(1).split()
            if words and re.match(r"(for|sections|single)\b", words[0]):
                if not any(a <= m.start() < b for (a, b) in spans):
                    orphans.append((rel, s.count("\n", 0, m.start()) + 1))
    if regions == 0: fail("no `#pragma omp parallel` region found under %s" % inc)
    return regions, sorted(set(throws)), sorted(set(orphans))

def enclosed_by_try(s, a, pos):
    """is position pos inside the block of a `try` that starts inside [a, pos) and has a catch (...) handler"""
    for m in re.finditer(r"\btry\s*\{", s[a:pos]):
        o = a + m.end() - 1
        c = match_close4(s, o, "{", "}")
        if o < pos < c and re.match(r"\s*catch\s*\(\s*\.\.\.\s*\)", s[c + 1:]):
            return True
    return False

def spe_anneal(repo, inc="include/tapkee"):
    """spe.hpp: the divisor of the annealing step `lambda = lambda - (lambda / X)` and the bound of the main loop
    `for (i = 0; i < B; ++i)` that contains it -> (X, B)"""
    raw = open(os.path.join(repo, inc, "routines/spe.hpp")).read()
    s = blank_comments_strings(raw)
    m = re.search(r"\blambda\s*(?:=\s*lambda\s*-|-=)\s*\(?\s*lambda\s*/\s*(?:static_cast\s*<[^<>]*>\s*\(\s*)?([A-Za-z_]\w*)", s)
    if not m: fail("statement not found: spe.hpp lambda = lambda - (lambda / ..)")
    div = m.group(1)
    bound = None
    for f in re.finditer(r"\bfor\s*\(", s):
        q = match_close4(s, f.end() - 1, "(", ")")
        e = statement_end(s, q + 1)
        if f.start() < m.start() < e:
            head = s[f.end():q]
            parts = head.split(";")
            if len(parts) == 3:
                mm = re.match(r"\s*(\w+)\s*<\s*([A-Za-z_]\w*)\s*$", parts[1])
                if mm: bound = mm.group(2)      # innermost enclosing loops come later: keep the OUTERMOST
                break
    if bound is None: fail("spe.hpp: main loop `for (i = 0; i < B; ++i)` around the annealing step not found")
    return div, bound


REC_KW = {"if","for","while","switch","catch","return","sizeof","else","do","new","delete","throw","static_cast","alignof","decltype","defined","operator","assert","typeid","noexcept","alignas","const_cast","reinterpret_cast","dynamic_cast"}
def scan_recursive(repo, inc="include/tapkee"):
    out=[]
    root=os.path.join(repo,inc)
    for dp,dn,fn in os.walk(root):
        for f in sorted(fn):
            if not f.endswith((".hpp",".h")): continue
            path=os.path.join(dp,f); rel=os.path.relpath(path,root)
            if rel.startswith("external/stichwort") : continue
            s=blank_comments_strings(open(path,errors="replace").read())
            s=re.sub(r"^[ \t]*#[^\n]*$", lambda m:" "*len(m.group(0)), s, flags=re.M)
            for m in re.finditer(r"\b([A-Za-z_]\w*)\s*\(", s):
                name=m.group(1)
                if name in REC_KW: continue
                try:
                    q=match_close4(s, m.end()-1, "(", ")")
                except TranslateError:
                    continue
                rest=s[q+1:]
                mm=re.match(r"\s*(?:const\b\s*)?(?:noexcept\b\s*)?(?:override\b\s*)?(?:->\s*[\w:<>,\s\*&]+?)?\s*\{", rest)
                if not mm: continue
                # a call expression followed by a block cannot occur: this is a definition (or a control macro)
                o=q+1+mm.end()-1
                try:
                    c=match_close4(s,o,"{","}")
                except TranslateError:
                    continue
                body=s[o+1:c]
                if re.search(r"\b%s\s*\(" % re.escape(name), body):
                    out.append((rel,name))
    return sorted(set(out))


def read(repo):
    def src(rel):
        p = os.path.join(repo, INC, rel)
        try:
            return strip_comments(open(p).read())
        except OSError as ex:
            fail("cannot read %s: %s" % (rel, ex))

    F = {}
    # ---- routines/spe.hpp
    spe, _ = function_body(src("routines/spe.hpp"), r"\bspe_embedding\s*\(", "spe_embedding")
    n_spe = {"N": "VN", "nupdates": "Vnu", "k": "Vk", "j": "Vj", "kk": "Vkk", "target_dimension": "Vd"}
    F["f_spe_clamp"] = clamp(spe, "nupdates", "spe.hpp clamp of nupdates", n_spe)
    F["f_spe_ind2"] = one(spe, r"\bind2\s*=\s*indices\.begin\(\)\s*\+\s*([^;]+);", "spe.hpp ind2 = indices.begin() + ..", n_spe)
    F["f_spe_sel"] = one(spe, r"\bindices\[([^\]]+)\]\s*=\s*ind1Neighbors\[", "spe.hpp indices[..] = ind1Neighbors[r]", n_spe)
    F["f_spe_nbsize"] = parse_sx(balanced_arg(spe, r"\bind1Neighbors\.resize\s*\(", "spe.hpp ind1Neighbors.resize(..)"), n_spe)
    F["f_spe_nbwrite"] = one(spe, r"\bind1Neighbors\[([^\]]+)\]\s*=\s*current_neighbors\[", "spe.hpp ind1Neighbors[..] = current_neighbors[kk]", n_spe)
    m = re.search(r"floor\s*\(\s*tapkee::uniform_random\(\)\s*\*\s*([^()]+)\)\s*\+\s*([^;]+?)\)\s*;", spe)
    if not m:
        fail("statement not found: spe.hpp r = floor(uniform_random() * k) + k * j")
    F["f_spe_rscale"] = parse_sx(m.group(1), n_spe)
    F["f_spe_roff"] = parse_sx(m.group(2), n_spe)
    F["f_spe_bufs"] = one(spe, r"\bDense(?:Matrix\s+Yd\s*\(\s*target_dimension\s*,|Vector\s+(?:Rt|scale|D)\s*\()\s*([^;]+)\)\s*;",
                          "spe.hpp Yd / Rt / scale / D extents", n_spe)
    F["f_spe_indices"] = one(spe, r"\bIndices\s+indices\s*\(([^;]+)\)\s*;", "spe.hpp Indices indices(N)", n_spe)
    # ---- neighbors/neighbors.hpp
    nbsrc = src("neighbors/neighbors.hpp")
    fn, _ = function_body(nbsrc, r"\bNeighbors\s+find_neighbors\s*\(", "find_neighbors")
    n_nb = {"k": "Vk", "N": "VN"}
    F["f_nb_clamp"] = clamp(fn, "k", "neighbors.hpp clamp of k", n_nb)
    cl = re.search(r"\b(?:while|if)\s*\(\s*k\s*>=?|\bk\s*=\s*std::min", fn)
    recursive = re.search(r"\bfind_neighbors\s*\(", fn) is not None
    impl_calls = [m.start() for m in re.finditer(r"\bfind_neighbors_\w+_impl\s*\(", fn)]
    if not impl_calls:
        fail("neighbors.hpp: no find_neighbors_*_impl call inside find_neighbors")
    loops = [sp for sp in loop_spans(fn) if any(sp[0] <= c <= sp[1] for c in impl_calls)]
    if recursive or not loops:
        F["f_nb_retry_reclamps"] = True
    else:
        F["f_nb_retry_reclamps"] = all(sp[0] <= cl.start() <= sp[1] for sp in loops)
    # ---- routines/locally_linear.hpp
    ll = src("routines/locally_linear.hpp")
    n_ll = {"target_dimension": "Vd", "k": "Vk", "dp": "Vdp", "j": "Vj", "N": "VN"}
    tw, _ = function_body(ll, r"\btangent_weight_matrix\s*\(", "tangent_weight_matrix")
    F["f_ltsa_cols"] = one(tw, r"\bDenseMatrix\s+G\s*=\s*DenseMatrix::Zero\s*\(\s*k\s*,\s*([^;]+)\)\s*;", "locally_linear.hpp G = Zero(k, ..)", n_ll)
    hw, _ = function_body(ll, r"\bhessian_weight_matrix\s*\(", "hessian_weight_matrix")
    F["f_hlle_dp"] = one(hw, r"\bIndexType\s+dp\s*=\s*([^;]+);", "locally_linear.hpp dp = ..", n_ll)
    F["f_hlle_cols"] = one(hw, r"\bDenseMatrix\s+Yi\s*\(\s*k\s*,\s*([^;]+)\)\s*;", "locally_linear.hpp Yi(k, ..)", n_ll)
    F["f_hlle_ct"] = one(hw, r"\bct\s*\+=\s*([^;]+);", "locally_linear.hpp ct += ..", n_ll)
    # ---- external/barnes_hut_sne/tsne.hpp
    ts = src("external/barnes_hut_sne/tsne.hpp")
    ks = set(re.findall(r"\(\s*int\s*\)\s*\(\s*(\d+)\s*\*\s*perplexity\s*\)", ts))
    if len(ks) != 1:
        fail("tsne.hpp: expected one form of (int)(c * perplexity), found %s" % sorted(ks))
    F["f_tsne_kfactor"] = int(ks.pop())
    m = re.search(r"ScalarType\s+perplexity\s*,\s*int\s+K\s*\)", ts)
    if not m:
        fail("tsne.hpp: computeGaussianPerplexity(.., int K) not found")
    gp, _ = function_body(ts[m.start():], r"int\s+K\s*\)", "computeGaussianPerplexity(K)")
    n_ts = {"N": "VN", "K": "VK", "D": "VD"}
    F["f_tsne_rowp"] = one(gp, r"\*_row_P\s*=\s*\(int\*\)\s*malloc\s*\(\s*(.+?)\s*\*\s*sizeof\s*\(int\)\s*\)\s*;", "tsne.hpp *_row_P = malloc(..)", n_ts)
    F["f_tsne_colp"] = one(gp, r"\*_col_P\s*=\s*\(int\*\)\s*[mc]alloc\s*\(\s*(.+?)\s*[,*]\s*sizeof\s*\(int\)\s*\)\s*;", "tsne.hpp *_col_P = calloc(..)", n_ts)
    F["f_tsne_curp"] = one(gp, r"\bcur_P\s*=\s*\(ScalarType\*\)\s*malloc\s*\(\s*(.+?)\s*\*\s*sizeof\s*\(ScalarType\)\s*\)\s*;", "tsne.hpp cur_P = malloc(..)", n_ts)
    # ---- every header: throw statements inside OpenMP regions, orphaned work-sharing constructs
    regions, throws, orphans = scan_omp(repo, INC)
    F["f_omp_throws"] = ("sites", throws)
    F["f_omp_orphans"] = ("sites", orphans)
    F["_omp_regions"] = regions
    F["f_recursive"] = ("pairs", scan_recursive(repo, INC))
    # ---- routines/spe.hpp: the divisor of the annealing step is the bound of the loop it sits in
    div, bound = spe_anneal(repo, INC)
    F["f_spe_anneal_div_is_bound"] = (div == bound)
    # ---- routines/landmarks.hpp triangulate(): what is returned, and the scatter that restores sample order
    rets, scatter = triangulate_rows(repo, INC)
    F["f_tri_returns"] = ("strs", rets)
    F["f_tri_scatter"] = scatter
    return F


def triangulate_rows(repo, inc="include/tapkee"):
    """landmarks.hpp triangulate(): (1) the expression of every `return` statement (whitespace removed, in source order,
    duplicates kept out); (2) is there a loop `for (J = 0; J < n_landmarks; ..)` whose body copies landmark row J to
    row landmarks[J] of the matrix `embedding`: `embedding.row(landmarks[J]) = landmarks_embedding.first.row(J)`"""
    try:
        raw = open(os.path.join(repo, inc, "routines/landmarks.hpp")).read()
    except OSError as ex:
        fail("cannot read routines/landmarks.hpp: %s" % ex)
    s = blank_comments_strings(raw)
    body, _ = function_body(s, r"\bDenseMatrix\s+triangulate\s*\(", "triangulate")
    rets = []
    for m in re.finditer(r"\breturn\b([^;]*);", body):
        e = re.sub(r"\s+", "", m.group(1))
        if e not in rets:
            rets.append(e)
    if not rets:
        fail("landmarks.hpp triangulate(): no return statement found")
    scatter = False
    for f in re.finditer(r"\bfor\s*\(", body):
        q = match_close4(body, f.end() - 1, "(", ")")
        head = body[f.end():q].split(";")
        if len(head) != 3:
            continue
        mi = re.match(r"\s*(?:[\w:]+\s+)?(\w+)\s*=\s*0\s*$", head[0])
        if not mi:
            continue
        J = mi.group(1)
        if not re.match(r"\s*%s\s*<\s*n_landmarks\s*$" % J, head[1]):
            continue
        e = statement_end(body, q + 1)
        blk = body[q + 1:e]
        if re.search(r"\bembedding\s*\.\s*row\s*\(\s*landmarks\s*\[\s*%s\s*\]\s*\)\s*(?:\.\s*noalias\s*\(\s*\))?\s*=\s*"
                     r"landmarks_embedding\s*\.\s*first\s*\.\s*row\s*\(\s*%s\s*\)\s*;" % (J, J), blk):
            scatter = True
    return rets, scatter


ORDER = ["f_spe_clamp", "f_spe_ind2", "f_spe_sel", "f_spe_nbsize", "f_spe_nbwrite", "f_spe_rscale", "f_spe_roff",
         "f_spe_bufs", "f_spe_indices", "f_nb_clamp", "f_nb_retry_reclamps", "f_ltsa_cols", "f_hlle_dp",
         "f_hlle_cols", "f_hlle_ct", "f_tsne_kfactor", "f_tsne_rowp", "f_tsne_colp", "f_tsne_curp",
         "f_omp_throws", "f_omp_orphans", "f_recursive", "f_spe_anneal_div_is_bound", "f_tri_returns", "f_tri_scatter"]


def emit(F):
    L = ["(* GENERATED by translate/t_shapes.py from routines/spe.hpp, neighbors/neighbors.hpp,",
         "   routines/locally_linear.hpp, external/barnes_hut_sne/tsne.hpp, routines/landmarks.hpp and (OpenMP scan) every header -- do not edit.",
         "   Table of property C01: see Shapes_Src.v for the meaning of each field. *)",
         "From Coq Require Import ZArith List String.",
         "From TK Require Import Shapes_Src.",
         "Import ListNotations.",
         "Local Open Scope Z_scope.",
         "(* %d `omp parallel` regions scanned *)" % F.get("_omp_regions", 0),
         "",
         "Definition gen_facts : facts :=",
         "  {|"]
    rows = []
    for k in ORDER:
        v = F[k]
        if isinstance(v, bool):
            rows.append("     %s := %s" % (k, "true" if v else "false"))
        elif isinstance(v, tuple) and v and v[0] == "pairs":
            rows.append("     %s := [%s]" % (k, "; ".join('("%s"%%string, "%s"%%string)' % (f.replace('"', ""), n) for f, n in v[1])))
        elif isinstance(v, tuple) and v and v[0] == "strs":
            rows.append("     %s := [%s]" % (k, "; ".join('"%s"%%string' % x.replace('"', "") for x in v[1])))
        elif isinstance(v, tuple) and v and v[0] == "sites":
            rows.append("     %s := [%s]" % (k, "; ".join('("%s"%%string, %d)' % (f.replace('"', ""), ln) for f, ln in v[1])))
        elif isinstance(v, int):
            rows.append("     %s := (%d)" % (k, v))
        else:
            rows.append("     %s := %s   (* %s *)" % (k, coq_sx(v), show_sx(v)))
    body = []
    for i, r in enumerate(rows):
        if i < len(rows) - 1:
            # the separator goes before the comment
            if "   (*" in r:
                a, b = r.split("   (*", 1)
                body.append(a + ";   (*" + b)
            else:
                body.append(r + ";")
        else:
            body.append(r)
    L += body
    L.append("  |}.")
    return "\n".join(L) + "\n"


def translate(repo):
    try:
        F = read(repo)
        return emit(F), {k: (v if isinstance(v, (bool, int)) else [list(x) for x in v[1]] if v[0] in ("sites", "pairs") else list(v[1]) if v[0] == "strs" else show_sx(v))
                         for k, v in F.items()}
    except TranslateError:
        raise
    except (IndexError, KeyError, ValueError, AttributeError, TypeError) as ex:
        raise TranslateError("source shape not understood (%s: %s)" % (type(ex).__name__, ex))


def write_if_changed(path, text):
    os.makedirs(os.path.dirname(path), exist_ok=True)
    if os.path.exists(path) and open(path).read() == text:
        return False
    tmp = path + ".tmp%d" % os.getpid()
    open(tmp, "w").write(text)
    os.replace(tmp, path)
    return True


SELF_TEST = [
    ("routines/spe.hpp", "while (nupdates > N / 2)\n        nupdates = N / 2;", "nupdates = std::min(nupdates, (N + 1) / 2);", True),
    ("routines/spe.hpp", "while (nupdates > N / 2)\n        nupdates = N / 2;", "if (nupdates > N / 2)\n        nupdates = N / 2;", False),
    ("routines/spe.hpp", "indices[nupdates + j]", "indices[nupdates + j + 1]", True),
    ("routines/spe.hpp", "ind1Neighbors[kk + j * k]", "ind1Neighbors[kk + j * (k + 1)]", True),
    ("routines/locally_linear.hpp", "DenseMatrix::Zero(k, target_dimension + 1)", "DenseMatrix::Zero(k, target_dimension)", True),
    ("routines/locally_linear.hpp", "ct += target_dimension - j;", "ct += target_dimension - j + 1;", True),
    ("external/barnes_hut_sne/tsne.hpp", "(int)(3 * perplexity)", "(int)(4 * perplexity)", True),
    ("neighbors/neighbors.hpp", "k = static_cast<IndexType>(end - begin - 1);", "k = static_cast<IndexType>(end - begin);", None),
    # wave 3: a throw inside an OpenMP region; an orphaned omp for; the annealing divisor no longer the loop bound
    ("routines/locally_linear.hpp", "            solver.compute(gram_matrix);\n",
     "            solver.compute(gram_matrix);\n            if (solver.info() != Eigen::Success)\n                throw eigendecomposition_error(\"local\");\n", True),
    ("routines/locally_linear.hpp", "            solver.compute(gram_matrix);\n",
     "            solver.compute(gram_matrix); // would throw eigendecomposition_error here\n", False),
    ("routines/multidimensional_scaling.hpp", "#pragma omp parallel\n    {\n        IndexType i_index_iter, j_index_iter;\n#pragma omp for nowait",
     "    {\n        IndexType i_index_iter, j_index_iter;\n#pragma omp for nowait", True),
    ("routines/spe.hpp", "for (IndexType i = 0; i < max_iter; ++i)", "const IndexType iterations = max_iter;\n    for (IndexType i = 0; i < iterations; ++i)", True),
    ("neighbors/connected.hpp", "inline bool all_reachable_from_first(int N, const Neighbors& adjacency)\n{",
     "inline int count_from(int v, const Neighbors& a, std::vector<bool>& seen)\n{\n    int n = 1;\n    seen[v] = true;\n    for (const int w : a[v])\n        if (!seen[w])\n            n += count_from(w, a, seen);\n    return n;\n}\n\ninline bool all_reachable_from_first(int N, const Neighbors& adjacency)\n{", True),
    # wave 4: triangulate() returns something else than the scattered matrix; the scatter writes row J instead of
    # row landmarks[J]; the loop variable renamed / `.noalias()` dropped (harmless)
    ("routines/landmarks.hpp", "    std::vector<bool> to_process(n_vectors, true);\n",
     "    if (n_landmarks == n_vectors)\n        return landmarks_embedding.first;\n    std::vector<bool> to_process(n_vectors, true);\n", True),
    ("routines/landmarks.hpp", "embedding.row(landmarks[index_iter]).noalias() = landmarks_embedding.first.row(index_iter);",
     "embedding.row(index_iter).noalias() = landmarks_embedding.first.row(index_iter);", True),
    ("routines/landmarks.hpp", "    for (IndexType index_iter = 0; index_iter < n_landmarks; ++index_iter)\n    {\n        to_process[landmarks[index_iter]] = false;\n        embedding.row(landmarks[index_iter]).noalias() = landmarks_embedding.first.row(index_iter);",
     "    for (IndexType l = 0; l < n_landmarks; l++)\n    {\n        to_process[landmarks[l]] = false;\n        embedding.row(landmarks[l]) = landmarks_embedding.first.row(l);", False),
]


def self_test(repo, scratch):
    """every listed edit of a scratch copy must change the table (True), leave it unchanged (False) or be
    rejected loudly (None)"""
    import shutil
    base = translate(repo)[0]
    bad = []
    for rel, old, new, expect in SELF_TEST:
        shutil.rmtree(scratch, ignore_errors=True)
        shutil.copytree(os.path.join(repo, INC), os.path.join(scratch, INC))
        p = os.path.join(scratch, INC, rel)
        t = open(p).read()
        if old not in t:
            bad.append("%s: text to mutate not found (%s)" % (rel, old[:40]))
            continue
        open(p, "w").write(t.replace(old, new))
        try:
            out = translate(scratch)[0]
            got = out != base
        except TranslateError:
            got = None
        if got != expect:
            bad.append("%s: `%s` -> `%s`: expected %s, got %s" % (rel, old[:40], new[:40], expect, got))
    shutil.rmtree(scratch, ignore_errors=True)
    return len(SELF_TEST), bad


def main():
    here = os.path.dirname(os.path.dirname(os.path.abspath(__file__)))
    ap = argparse.ArgumentParser()
    ap.add_argument("--repo", default=os.environ.get("VERIF_REPO", "/repo"))
    ap.add_argument("--out", default=os.path.join(here, "coq", "gen", "ShapesSrc.v"))
    ap.add_argument("--print", action="store_true")
    ap.add_argument("--self-test", action="store_true")
    a = ap.parse_args()
    if a.self_test:
        n, bad = self_test(a.repo, "/tmp/c01d_t_shapes_selftest")
        print("t_shapes self-test: %d mutations, %d failures" % (n, len(bad)))
        for b in bad:
            print("  " + b)
        sys.exit(1 if bad else 0)
    text, js = translate(a.repo)
    if a.print:
        sys.stdout.write(text)
        return
    print("t_shapes: %s %s" % (a.out, "rewritten" if write_if_changed(a.out, text) else "unchanged"))


if __name__ == "__main__":
    main()
