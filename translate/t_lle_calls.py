#!/usr/bin/env python3
"""T-lle-calls: which parameter reaches which argument of the weight-matrix routines (C08).

    python3 translate/t_lle_calls.py [--repo /repo] [--out coq/gen/LleCalls.v]
    python3 translate/t_lle_calls.py --self-test

The differential streams of checks/c08.py call linear_/tangent_/hessian_weight_matrix POSITIONALLY
(argument 5 of linear_weight_matrix is what the model adds to the diagonal, argument 6 is the factor of
the trace regulariser).  What the method classes pass there is not observable from embed() (only the
embedding comes back), so it is read from the source:
  routines/locally_linear.hpp     parameter names of the three routines, in order
  methods/kernel_locally_linear_embedding.hpp, kernel_local_tangent_space_alignment.hpp,
  hessian_locally_linear_embedding.hpp   inside embed():
      Neighbors neighbors = find_neighbors_with(<distance>);
      ... = <routine>(<a1>, ..., <an>);            ai = identifier | parameters[<name>]
      eigendecomposition_via(<strategy>, <matrix>, parameters[<name>]).<member>
and written as string tables (coq/gen/LleCalls.v).  coq/Lle_Calls.v states what the model and the harness
assume (nullspace_shift -> shift, klle_shift -> trace_shift, target_dimension -> target_dimension,
SmallestEigenvalues of weight_matrix, .first) as an obligation over the generated tables; a method class
that passes the two shifts in the wrong order changes the table and re-opens the proof, and the search
phase of the check then looks for an input on which the embedding is not optimal.
Anything the small grammar does not understand raises TranslateError.
"""
import argparse
import os
import re
import sys

ROUTINES_FILE = "include/tapkee/routines/locally_linear.hpp"
METHODS = [
    ("klle", "include/tapkee/methods/kernel_locally_linear_embedding.hpp", "linear_weight_matrix"),
    ("kltsa", "include/tapkee/methods/kernel_local_tangent_space_alignment.hpp", "tangent_weight_matrix"),
    ("hlle", "include/tapkee/methods/hessian_locally_linear_embedding.hpp", "hessian_weight_matrix"),
]
SIG_NAMES = {"linear_weight_matrix": "lle_sig", "tangent_weight_matrix": "ltsa_sig",
             "hessian_weight_matrix": "hlle_sig"}
IDENT = r"[A-Za-z_]\w*"


class TranslateError(Exception):
    pass


def strip_comments(s):
    s = re.sub(r"/\*.*?\*/", lambda m: " " * len(m.group(0)), s, flags=re.S)
    return re.sub(r"//[^\n]*", "", s)


def balanced(src, i, open_ch, close_ch):
    """src[i] == open_ch: index of the matching close_ch"""
    depth = 0
    for j in range(i, len(src)):
        if src[j] == open_ch:
            depth += 1
        elif src[j] == close_ch:
            depth -= 1
            if depth == 0:
                return j
    raise TranslateError("unbalanced %s%s" % (open_ch, close_ch))


def split_args(s):
    out, depth, cur = [], 0, ""
    for ch in s:
        if ch in "([<{":
            depth += 1
        elif ch in ")]>}":
            depth -= 1
        if ch == "," and depth == 0:
            out.append(cur)
            cur = ""
        else:
            cur += ch
    if cur.strip():
        out.append(cur)
    return [a.strip() for a in out]


def signature(src, routine):
    ms = list(re.finditer(r"SparseWeightMatrix\s+%s\s*\(" % routine, src))
    if len(ms) != 1:
        raise TranslateError("%s: expected exactly one definition, found %d" % (routine, len(ms)))
    i = ms[0].end() - 1
    j = balanced(src, i, "(", ")")
    names = []
    for a in split_args(src[i + 1:j]):
        m = re.search(r"(%s)\s*$" % IDENT, a)
        if not m:
            raise TranslateError("%s: parameter %r not understood" % (routine, a))
        names.append(m.group(1))
    return names


def arg_name(a, what):
    a = re.sub(r"\s+", "", a)
    m = re.fullmatch(r"parameters\[(%s)\]" % IDENT, a)
    if m:
        return m.group(1)
    if re.fullmatch(IDENT, a):
        return a
    raise TranslateError("%s: argument %r is neither an identifier nor parameters[name]" % (what, a))


def embed_body(src, what):
    ms = list(re.finditer(r"TapkeeOutput\s+embed\s*\(\s*\)", src))
    if len(ms) != 1:
        raise TranslateError("%s: expected exactly one embed(), found %d" % (what, len(ms)))
    i = src.find("{", ms[0].end())
    if i < 0:
        raise TranslateError("%s: embed() has no body" % what)
    return src[i:balanced(src, i, "{", "}") + 1]


def one_call(body, name, what):
    ms = list(re.finditer(r"(?<![\w.])%s\s*\(" % name, body))
    if len(ms) != 1:
        raise TranslateError("%s: expected exactly one call of %s, found %d" % (what, name, len(ms)))
    i = ms[0].end() - 1
    j = balanced(body, i, "(", ")")
    return split_args(body[i + 1:j]), j


def parse(repo):
    tab = {}
    src = strip_comments(open(os.path.join(repo, ROUTINES_FILE)).read())
    for routine, key in SIG_NAMES.items():
        tab[key] = signature(src, routine)
    for key, path, routine in METHODS:
        body = embed_body(strip_comments(open(os.path.join(repo, path)).read()), key)
        nargs, _ = one_call(body, "find_neighbors_with", key)
        if len(nargs) != 1:
            raise TranslateError("%s: find_neighbors_with takes one argument" % key)
        m = re.search(r"Neighbors\s+(%s)\s*=\s*find_neighbors_with" % IDENT, body)
        if not m:
            raise TranslateError("%s: result of find_neighbors_with is not a named Neighbors object" % key)
        tab[key + "_neighbors"] = [m.group(1), arg_name(nargs[0], key)]
        cargs, _ = one_call(body, routine, key)
        tab[key + "_call"] = [arg_name(a, key + " " + routine) for a in cargs]
        m = re.search(r"SparseWeightMatrix\s+(%s)\s*=\s*%s\s*\(" % (IDENT, routine), body)
        if not m:
            raise TranslateError("%s: result of %s is not a named SparseWeightMatrix" % (key, routine))
        wm = m.group(1)
        eargs, j = one_call(body, "eigendecomposition_via", key)
        m = re.match(r"\s*\.\s*(%s)" % IDENT, body[j + 1:])
        if not m:
            raise TranslateError("%s: member of the eigendecomposition result not found" % key)
        tab[key + "_eig"] = [arg_name(a, key + " eigendecomposition_via") for a in eargs] + [m.group(1)]
        tab[key + "_matrix"] = [wm]
        for other in SIG_NAMES:
            if other != routine and re.search(r"(?<![\w.])%s\s*\(" % other, body):
                raise TranslateError("%s: embed() also calls %s" % (key, other))
    return tab


def coq_list(l):
    return "[" + "; ".join('"%s"' % x for x in l) + "]"


def emit(tab):
    lines = ["(* GENERATED by translate/t_lle_calls.py from include/tapkee/routines/locally_linear.hpp and the three "
             "method classes -- do not edit *)",
             "Require Import String List.", "Import ListNotations.", "Local Open Scope string_scope.", ""]
    for key in sorted(tab):
        lines.append("Definition mc_%s : list string := %s." % (key, coq_list(tab[key])))
    return "\n".join(lines) + "\n"


def write_if_changed(path, text):
    os.makedirs(os.path.dirname(path), exist_ok=True)
    if os.path.exists(path) and open(path).read() == text:
        return False
    tmp = path + ".tmp%d" % os.getpid()
    open(tmp, "w").write(text)
    os.replace(tmp, path)
    return True


def self_test(repo):
    """seeded edits of a scratch copy must change the table or be rejected"""
    import shutil
    import tempfile
    base = emit(parse(repo))
    muts = [(METHODS[0][1], "parameters[nullspace_shift], parameters[klle_shift]",
             "parameters[klle_shift], parameters[nullspace_shift]"),
            (METHODS[0][1], "parameters[nullspace_shift], parameters[klle_shift]",
             "parameters[nullspace_shift], parameters[nullspace_shift]"),
            (METHODS[1][1], "parameters[target_dimension], parameters[nullspace_shift]",
             "parameters[target_dimension], parameters[klle_shift]"),
            (METHODS[2][1], "eigendecomposition_via(SmallestEigenvalues,", "eigendecomposition_via(LargestEigenvalues,"),
            (METHODS[1][1], "find_neighbors_with(kernel_distance)", "find_neighbors_with(plain_distance)"),
            (ROUTINES_FILE, "PairwiseCallback callback, const ScalarType shift,\n"
                            "                                        const ScalarType trace_shift)",
             "PairwiseCallback callback, const ScalarType trace_shift,\n"
             "                                        const ScalarType shift)")]
    files = {ROUTINES_FILE} | {p for _, p, _ in METHODS}
    bad = []
    for path, old, new in muts:
        d = tempfile.mkdtemp(prefix="t_lle_calls_")
        try:
            for f in files:
                os.makedirs(os.path.join(d, os.path.dirname(f)), exist_ok=True)
                shutil.copy(os.path.join(repo, f), os.path.join(d, f))
            s = open(os.path.join(d, path)).read()
            if old not in s:
                continue      # the tree under test already differs here
            open(os.path.join(d, path), "w").write(s.replace(old, new, 1))
            try:
                if emit(parse(d)) == base:
                    bad.append(old)
            except TranslateError:
                pass
        finally:
            shutil.rmtree(d, ignore_errors=True)
    return bad


if __name__ == "__main__":
    ap = argparse.ArgumentParser()
    ap.add_argument("--repo", default=os.environ.get("VERIF_REPO", "/repo"))
    ap.add_argument("--out", default=None)
    ap.add_argument("--self-test", action="store_true")
    a = ap.parse_args()
    if a.self_test:
        b = self_test(a.repo)
        print("self-test:", "ok" if not b else "UNDETECTED: %s" % b)
        sys.exit(1 if b else 0)
    t = emit(parse(a.repo))
    if a.out:
        print("written" if write_if_changed(a.out, t) else "unchanged")
    else:
        sys.stdout.write(t)
