#!/usr/bin/env python3
"""T-omp cross-check — an INDEPENDENT reading of the OpenMP regions through clang's JSON AST, compared
with what the source-level parser translate/t_omp.py extracted.

For every function that contains a parallel region, `clang++-14 -fopenmp -fsyntax-only -Xclang
-ast-dump=json -Xclang -ast-dump-filter=<function>` is run over a small TU that includes the header (a few
seconds and about a megabyte per function; the full AST of a tapkee TU is gigabytes).  From each
OMPParallelDirective / OMPParallelForDirective:

  * the variables declared directly inside the region before the work-shared loop (+ private clauses)
    = thread-private, persistent;
  * every store whose root object is declared OUTSIDE the region: BinaryOperator '=' / compound
    assignment, overloaded operator= += -= *= /= ++ --, mutating member calls, back_inserter(X),
    centerMatrix(X); with the indexed form  X(a,b) | X[a] | X.row(a) | X.col(a) | whole | append  where an
    argument is a plain variable name or '?'; and whether it is inside an OMPCriticalDirective.

compare(repo) returns a list of discrepancies (empty = the two readings agree): number of regions per
function, private variable names, the set of (variable, in-critical, form) of the stores to shared
variables.

usage: t_omp_ast.py [--repo DIR]        exit code 0 = agree, 1 = discrepancies, 2 = clang unavailable
"""
import json
import os
import re
import shutil
import subprocess
import sys
import tempfile
from concurrent.futures import ThreadPoolExecutor

HERE = os.path.dirname(os.path.abspath(__file__))
sys.path.insert(0, HERE)
import t_omp  # noqa: E402

CLANG = "clang++-14"
ASSIGN_OPERATORS = {"operator=", "operator+=", "operator-=", "operator*=", "operator/=", "operator++", "operator--",
                    "operator%=", "operator|=", "operator&=", "operator^="}
PASS_THROUGH = {"ImplicitCastExpr", "MaterializeTemporaryExpr", "ExprWithCleanups", "ParenExpr",
                "CXXBindTemporaryExpr", "CXXFunctionalCastExpr", "CStyleCastExpr", "CXXStaticCastExpr",
                "ConstantExpr", "SubstNonTypeTemplateParmExpr"}


def docs_of(text):
    dec = json.JSONDecoder()
    pos, out = 0, []
    n = len(text)
    while pos < n:
        m = re.compile(r"[{\[]").search(text, pos)
        if not m:
            break
        try:
            obj, end = dec.raw_decode(text, m.start())
        except ValueError:
            pos = m.start() + 1
            continue
        out.append(obj)
        pos = end
    return out


def inner(n):
    return [c for c in n.get("inner", []) if isinstance(c, dict)]


def find_all(n, kinds, out, stop=()):
    if not isinstance(n, dict):
        return out
    if n.get("kind") in kinds:
        out.append(n)
        if n.get("kind") in stop:
            return out
    for c in inner(n):
        find_all(c, kinds, out, stop)
    return out


def strip(n):
    while isinstance(n, dict) and n.get("kind") in PASS_THROUGH and inner(n):
        n = inner(n)[0]
    return n


def argname(n):
    n = strip(n)
    if n.get("kind") == "DeclRefExpr":
        return n.get("referencedDecl", {}).get("name", "?")
    if n.get("kind") == "IntegerLiteral":
        return str(n.get("value", "?"))
    return "?"


def callee_name(n):
    """name of the function / operator / member a call node invokes"""
    ch = inner(n)
    if not ch:
        return None
    c = strip(ch[0])
    if c.get("kind") == "DeclRefExpr":
        return c.get("referencedDecl", {}).get("name")
    if c.get("kind") in ("MemberExpr",):
        return c.get("name")
    if c.get("kind") == "CXXDependentScopeMemberExpr":
        return c.get("member")
    if c.get("kind") in ("UnresolvedLookupExpr", "UnresolvedMemberExpr"):
        return c.get("name") or c.get("member")
    return None


ALIAS_TYPES = re.compile(r"&|\*|\bBlock<|\bRef<|\bMap<|\bNoAlias<|\bauto\b")


def root_and_form(n, decls=None):
    """follow an lvalue expression down to the variable it designates (through local reference / pointer /
    Eigen-view aliases when `decls` maps ids of local VarDecls to their nodes).
    returns (name, decl id, form) or (None, None, None)"""
    form = None
    hops = 0
    while True:
        n = strip(n)
        k = n.get("kind")
        ch = inner(n)
        if k == "DeclRefExpr":
            rd = n.get("referencedDecl", {})
            d = (decls or {}).get(rd.get("id"))
            if d is not None and hops < 4 and inner(d) and \
                    ALIAS_TYPES.search(d.get("type", {}).get("qualType", "") + " " +
                                       d.get("type", {}).get("desugaredQualType", "")) and form is None:
                hops += 1
                n = inner(d)[-1]
                continue
            return rd.get("name"), rd.get("id"), form or ["whole"]
        if k == "CXXOperatorCallExpr" and ch:
            op = callee_name(n)
            if op == "operator()" and len(ch) >= 2:
                form = ["()"] + [argname(a) for a in ch[2:]]
                n = ch[1]
                continue
            if op == "operator[]" and len(ch) >= 3:
                f = ["[]", argname(ch[2])]
                if form and form[0] == "[]":       # a[i][j]: the inner index comes first
                    f = ["[]", argname(ch[2]), form[1]]
                form = f
                n = ch[1]
                continue
            if len(ch) >= 2:
                n = ch[1]
                continue
            return None, None, None
        if k == "ArraySubscriptExpr" and len(ch) >= 2:
            f = ["[]", argname(ch[1])]
            if form and form[0] == "[]":
                f = ["[]", argname(ch[1]), form[1]]
            form = f
            n = ch[0]
            continue
        if k in ("CXXMemberCallExpr", "CallExpr") and ch:
            c = strip(ch[0])
            if c.get("kind") in ("MemberExpr", "CXXDependentScopeMemberExpr"):
                name = c.get("name") or c.get("member")
                if name in ("row", "col") and len(ch) >= 2:
                    form = [name, argname(ch[1])]
                else:
                    form = None if name in ("noalias", "array", "matrix") and form is None else form
                base = inner(c)
                if not base:
                    return None, None, None
                n = base[0]
                continue
            return None, None, None
        if k in ("MemberExpr", "CXXDependentScopeMemberExpr") and ch:
            if strip(ch[0]).get("kind") == "CXXThisExpr":      # a data member of the enclosing class
                return (n.get("name") or n.get("member")), (n.get("referencedMemberDecl") or "this"), form or ["whole"]
            n = ch[0]
            continue
        if k == "UnaryOperator" and n.get("opcode") in ("*", "&") and ch:
            n = ch[0]
            continue
        return None, None, None


def _calls_in(n):
    out = []
    for c in find_all(n, {"CallExpr"}, []):
        nm = callee_name(c)
        if nm and nm.startswith("omp_get_"):
            out.append(nm)
    return sorted(set(out))


def value_calls(expr, decls_inside, func_doc):
    """(omp_get_* calls the value of `expr` comes from, evaluated inside the region?) following one variable"""
    if expr is None:
        return [], True
    direct = _calls_in(expr)
    if direct:
        return direct, True
    refs = find_all(expr, {"DeclRefExpr"}, [])
    if len(refs) != 1:
        return [], True
    did = refs[0].get("referencedDecl", {}).get("id")
    if did in decls_inside:
        return _calls_in(decls_inside[did]), True
    if func_doc is not None:
        for d in find_all(func_doc, {"VarDecl"}, []):
            if d.get("id") == did and inner(d):
                return _calls_in(d), False
    return [], False


def region_info(par, func_doc=None):
    """(private names, set of (var, crit, form) of stores to variables declared outside the region, has critical)"""
    kind = par.get("kind")
    region_info.manual = None
    decls = {}
    for d in find_all(par, {"VarDecl"}, []):
        if d.get("id") not in decls or inner(d):
            decls[d.get("id")] = d
    inner_ids = set(decls)
    privs = []
    for cl in find_all(par, {"OMPPrivateClause"}, []):
        for d in find_all(cl, {"DeclRefExpr"}, []):
            privs.append(d.get("referencedDecl", {}).get("name"))
    body_roots = []
    if kind == "OMPParallelDirective":
        cs = find_all(par, {"CompoundStmt"}, [])
        if cs:
            top = cs[0]
            for st in inner(top):
                if st.get("kind") == "DeclStmt":
                    for d in inner(st):
                        if d.get("kind") == "VarDecl":
                            privs.append(d.get("name"))
                if st.get("kind") in ("OMPForDirective",):
                    break
        for fd in find_all(par, {"OMPForDirective"}, []):
            fs = find_all(fd, {"ForStmt"}, [])
            if fs:
                body_roots.append(fs[0])
        if not body_roots and cs:
            # no worksharing construct: a hand-made schedule  for (v = first; v < n; v += step)  at the top level
            for st in inner(cs[0]):
                if st.get("kind") == "ForStmt":
                    parts = inner(st)
                    inc = parts[3] if len(parts) >= 5 else None
                    if inc is not None and inc.get("kind") == "CompoundAssignOperator" and inc.get("opcode") == "+=" \
                            and len(inner(inc)) == 2:
                        body_roots.append(st)
                        init = parts[0]
                        first = inner(init)[1] if init.get("kind") == "BinaryOperator" and len(inner(init)) == 2 else (
                            inner(inner(init)[0])[0] if init.get("kind") == "DeclStmt" and inner(init) and inner(inner(init)[0]) else None)
                        region_info.manual = {"first": value_calls(first, decls, func_doc),
                                              "step": value_calls(inner(inc)[1], decls, func_doc)}
                        # everything declared at the top level of the region is thread-private
                        for st2 in inner(cs[0]):
                            if st2.get("kind") == "DeclStmt":
                                for d in inner(st2):
                                    if d.get("kind") == "VarDecl" and d.get("name") not in privs:
                                        privs.append(d.get("name"))
                        break
    else:
        fs = find_all(par, {"ForStmt"}, [])
        if fs:
            body_roots.append(fs[0])
    ivs = set()
    stores = set()

    def visit(n, crit):
        if not isinstance(n, dict):
            return
        k = n.get("kind")
        if k == "OMPCriticalDirective":
            crit = True
        target = None
        if k == "BinaryOperator" and n.get("opcode") == "=" and inner(n):
            target = inner(n)[0]
        elif k == "CompoundAssignOperator" and inner(n):
            target = inner(n)[0]
        elif k == "UnaryOperator" and n.get("opcode") in ("++", "--") and inner(n):
            target = inner(n)[0]
        elif k == "CXXOperatorCallExpr" and callee_name(n) in ASSIGN_OPERATORS and len(inner(n)) >= 2:
            target = inner(n)[1]
        elif k in ("CXXMemberCallExpr", "CallExpr") and inner(n):
            c = strip(inner(n)[0])
            name = callee_name(n)
            if c.get("kind") in ("MemberExpr", "CXXDependentScopeMemberExpr") and name in t_omp.MUTATING_METHODS:
                nm, did, form = root_and_form(inner(c)[0]) if inner(c) else (None, None, None)
                if nm is not None and did not in inner_ids:
                    stores.add(json.dumps([nm, crit, ["append"] if name in t_omp.APPEND_METHODS else ["call:" + name]]))
            elif name == "back_inserter" and len(inner(n)) >= 2:
                nm, did, form = root_and_form(inner(n)[1])
                if nm is not None and did not in inner_ids:
                    stores.add(json.dumps([nm, crit, ["append"]]))
            elif name in t_omp.MUTATES_ARGS and len(inner(n)) >= 2:
                target = inner(n)[1]
        if target is not None:
            nm, did, form = root_and_form(target, decls)
            if nm is not None and did not in inner_ids and nm not in ivs:
                stores.add(json.dumps([nm, crit, form]))
        for c in inner(n):
            visit(c, crit)

    for fs in body_roots:
        parts = inner(fs)
        # the induction variable: target of the init statement
        if parts:
            init = parts[0]
            if init.get("kind") == "BinaryOperator" and inner(init):
                nm, did, _ = root_and_form(inner(init)[0])
                if nm:
                    ivs.add(nm)
            elif init.get("kind") == "DeclStmt":          # for (int n = 0; ...)
                for d in inner(init):
                    if d.get("kind") == "VarDecl" and d.get("name"):
                        ivs.add(d.get("name"))
        if parts:
            visit(parts[-1], False)
    privs = [p for p in privs if p and p not in ivs]
    has_crit = bool(find_all(par, {"OMPCriticalDirective"}, []))
    # every access (read or write) to a variable that is stored to somewhere in the region
    written = {json.loads(w)[0] for w in stores}
    accesses = set(stores)

    def visit_acc(n, crit):
        if not isinstance(n, dict):
            return
        k = n.get("kind")
        if k == "OMPCriticalDirective":
            crit = True
        ch = inner(n)
        if k in ("CXXOperatorCallExpr", "ArraySubscriptExpr", "CXXMemberCallExpr", "MemberExpr", "DeclRefExpr",
                 "CXXDependentScopeMemberExpr"):
            op = callee_name(n) if k == "CXXOperatorCallExpr" else None
            if not (k == "CXXOperatorCallExpr" and op not in ("operator()", "operator[]")):
                nm, did, form = root_and_form(n, decls)
                if nm in written and did not in inner_ids:
                    name = callee_name(n) if k == "CXXMemberCallExpr" else None
                    if name in t_omp.APPEND_METHODS:
                        form = ["append"]
                    elif name in t_omp.MUTATING_METHODS:
                        form = ["call:" + name]
                    accesses.add(json.dumps([nm, crit, form]))
                    # only the index arguments can contain further accesses
                    args = ch[2:] if k == "CXXOperatorCallExpr" else ch[1:]
                    for a in args:
                        visit_acc(a, crit)
                    return
        for c in ch:
            visit_acc(c, crit)

    for fs in body_roots:
        parts = inner(fs)
        if parts:
            visit_acc(parts[-1], False)
    return privs, sorted(stores), has_crit, sorted(ivs), sorted(accesses)


HEADERS_OF = [
    ("compute_shortest_distances_matrix", "tapkee/routines/isomap.hpp"),
    ("compute_distance_matrix", "tapkee/routines/multidimensional_scaling.hpp"),
    ("compute_diffusion_matrix", "tapkee/routines/diffusion_maps.hpp"),
    ("tangent_weight_matrix", "tapkee/routines/locally_linear.hpp"),
    ("linear_weight_matrix", "tapkee/routines/locally_linear.hpp"),
    ("hessian_weight_matrix", "tapkee/routines/locally_linear.hpp"),
    ("triangulate", "tapkee/routines/landmarks.hpp"),
    ("matrix_from_callback", "cli/util.hpp"),
]


def private_clause_names(text_dump):
    """clang-14's JSON dump does not name the kind of a clause; the text dump does"""
    out, cur = [], None
    for line in text_dump.splitlines():
        m = re.search(r"OMP(\w+)Clause", line)
        if m:
            cur = m.group(1)
            continue
        if re.search(r"-(CapturedStmt|ForStmt|CompoundStmt)\b", line):
            cur = None
        if cur == "Private":
            v = re.search(r"DeclRefExpr.*\b(?:Var|ParmVar) 0x[0-9a-f]+ '(\w+)'", line)
            if v:
                out.append(v.group(1))
    return out


def directive_clauses(text_dump, fname):
    """per parallel directive of the definitions of `fname` in clang's TEXT dump (in order): {clause kind: atoms}
    where atoms = sorted identifiers / operators / integer literals of the clause's expression subtree"""
    out = []
    cur = None        # clause dict of the directive being read
    clause = None     # (kind, indentation) of the clause being read
    in_fn = False
    for line in text_dump.splitlines():
        if line.startswith("Dumping "):
            nm = line[len("Dumping "):].rstrip(":").strip()
            in_fn = nm.split("::")[-1] == fname
            cur = clause = None
            continue
        if not in_fn:
            continue
        m = re.search(r"[A-Za-z<]", line)
        ind = m.start() if m else 0
        if re.search(r"\bOMPParallel(For)?Directive\b", line):
            cur = {}
            out.append(cur)
            clause = None
            continue
        if cur is None:
            continue
        mc = re.search(r"\bOMP(\w+)Clause\b", line)
        if mc:
            clause = (mc.group(1), ind)
            cur.setdefault(clause[0], [])
            continue
        if clause is not None:
            if ind <= clause[1]:
                clause = None
                if re.search(r"\b(CapturedStmt|OMP\w+Directive)\b", line):
                    cur = None if "CapturedStmt" in line else cur
                continue
            atoms = cur[clause[0]]
            mo = re.search(r"\b(?:BinaryOperator|UnaryOperator)\b.*'([^']+)'\s*$", line)
            if mo:
                atoms.append(mo.group(1))
            mv = re.search(r"\bDeclRefExpr\b.*\b(?:Var|ParmVar|Field)\b 0x[0-9a-f]+ '(\w+)'", line)
            if mv:
                atoms.append(mv.group(1))
            mm = re.search(r"\bMemberExpr\b.*(?:->|\.)(\w+) 0x[0-9a-f]+", line)
            if mm:
                atoms.append(mm.group(1))
            ml = re.search(r"\bIntegerLiteral\b.*'[^']*'\s+(\d+)\s*$", line)
            if ml:
                atoms.append(ml.group(1))
    return [{k: sorted(v) for k, v in d.items()} for d in out]


def clang_regions(repo, fname, header, extra_defs=()):
    tmp = tempfile.mkdtemp(prefix="t_omp_ast_")
    try:
        tu = os.path.join(tmp, "tu.cpp")
        open(tu, "w").write("#include <tapkee/defines.hpp>\n#include <tapkee/utils/naming.hpp>\n#include <%s>\n" % header)
        cmd = [CLANG, "-std=gnu++20", "-fopenmp", "-fsyntax-only", "-DFMT_HEADER_ONLY=1", "-DTAPKEE_USE_LGPL_COVERTREE",
               "-DTAPKEE_VERIF", "-isystem", "/root/miniconda/include", "-isystem", "/usr/include/eigen3", "-w",
               "-I", os.path.join(repo, "include"), "-I", os.path.join(repo, "src")]
        cmd += ["-D" + d for d in extra_defs]
        cmd += ["-Xclang", "-ast-dump=json", "-Xclang", "-ast-dump-filter=" + fname, tu]
        p = subprocess.run(cmd, capture_output=True, text=True, timeout=600)
        if p.returncode != 0 and not p.stdout:
            return None, p.stderr[-400:]
        regs = []
        clause_priv = None
        dir_clauses = None
        for doc in docs_of(p.stdout):
            # only definitions of the function itself (the filter also matches callers' names); member functions
            # of classes / class templates are CXXMethodDecl
            if doc.get("kind") not in ("FunctionTemplateDecl", "FunctionDecl", "CXXMethodDecl") or doc.get("name") != fname:
                continue
            for par in find_all(doc, {"OMPParallelDirective", "OMPParallelForDirective", "OMPForDirective",
                                      "OMPSectionsDirective", "OMPSingleDirective"}, [],
                                stop=("OMPParallelDirective", "OMPParallelForDirective", "OMPForDirective",
                                      "OMPSectionsDirective", "OMPSingleDirective")):
                # a worksharing directive met here is NOT inside a parallel directive of this function: orphaned
                orphan = par.get("kind") in ("OMPForDirective", "OMPSectionsDirective", "OMPSingleDirective")
                privs, stores, has_crit, ivs, accesses = region_info(par, doc)
                manual = region_info.manual
                # clang-14's JSON dump does not name the kind of a clause: clauses with an expression (private, if,
                # reduction, num_threads ...) are read from the text dump
                unnamed = [c for c in inner(par) if c.get("kind") is None and
                           find_all(c, {"DeclRefExpr", "IntegerLiteral", "BinaryOperator"}, [])]
                if_atoms = []
                if unnamed:
                    if clause_priv is None:
                        cmd2 = [x for x in cmd]
                        cmd2[cmd2.index("-ast-dump=json")] = "-ast-dump"
                        p2 = subprocess.run(cmd2, capture_output=True, text=True, timeout=600)
                        clause_priv = private_clause_names(p2.stdout)
                        dir_clauses = directive_clauses(p2.stdout, fname)
                    privs = [x for x in privs + clause_priv if x not in ivs]
                    stores = [w for w in stores if json.loads(w)[0] not in clause_priv]
                    accesses = [w for w in accesses if json.loads(w)[0] not in clause_priv]
                    if dir_clauses is not None and len(regs) < len(dir_clauses):
                        if_atoms = dir_clauses[len(regs)].get("If", [])
                has_ws = bool(find_all(par, {"OMPForDirective"}, [])) or par.get("kind") == "OMPParallelForDirective"
                if orphan:
                    dist = ["DWorkshare", False]
                elif has_ws:
                    dist = ["DWorkshare", True]
                elif manual is not None:
                    fc, fin = manual["first"]
                    sc, sin = manual["step"]
                    dist = ["DCyclic", "FirstTid" if fc == ["omp_get_thread_num"] and fin else "FirstOther",
                            ["SrcTeam"] if sc == ["omp_get_num_threads"] and sin else
                            ["SrcOutside"] if sc == ["omp_get_num_threads"] else
                            ["SrcMaxThreads"] if sc == ["omp_get_max_threads"] else ["Src?"]]
                else:
                    dist = ["DUnknown"]
                regs.append((privs, stores, has_crit, ivs, accesses, if_atoms, dist))
        return regs, None
    finally:
        shutil.rmtree(tmp, ignore_errors=True)


def compare(repo, tr=None):
    """list of discrepancy strings; raises RuntimeError when clang is not usable"""
    if not shutil.which(CLANG):
        raise RuntimeError("clang++-14 not available")
    tr = tr or t_omp.translate(repo)
    by_func = {}
    for r in tr["regions"]:
        m = re.match(r"(.*):(\w+)#(\d+)(\[\w+\])?$", r["name"])
        if not m:
            continue
        by_func.setdefault((m.group(2), m.group(4) or ""), []).append(r)
    jobs = []
    for (fname, variant), regs in sorted(by_func.items()):
        header = dict(HEADERS_OF).get(fname)
        if header is None:
            # a region in a function this cross-check does not know: look the header up from the region name
            rel = regs[0]["name"].split(":")[0]
            header = rel.split("include/", 1)[1] if "include/" in rel else rel.split("src/", 1)[-1]
        defs = ["TAPKEE_USE_FIBONACCI_HEAP"] if variant == "[fib]" else []
        jobs.append((fname, variant, header, defs, regs))
    out = []
    with ThreadPoolExecutor(max_workers=4) as ex:
        futs = [(j, ex.submit(clang_regions, repo, j[0], j[2], j[3])) for j in jobs]
        for (fname, variant, header, defs, regs), fu in futs:
            cl, err = fu.result()
            tag = fname + variant
            if cl is None:
                out.append("%s: clang could not parse the header: %s" % (tag, err))
                continue
            if len(cl) != len(regs):
                out.append("%s: clang sees %d parallel region(s), the translator %d" % (tag, len(cl), len(regs)))
                continue
            for k, (r, (privs, stores, has_crit, ivs, accesses, if_atoms, cdist)) in enumerate(zip(regs, cl)):
                tdist = r.get("dist") or ["DUnknown"]
                same = (tdist == cdist) or (tdist[0] == "DCyclic" and cdist[0] == "DCyclic" and tdist[1] == cdist[1] and (
                    tdist[2][0] == cdist[2][0] or (cdist[2][0] == "Src?" and tdist[2][0] in ("SrcConst", "SrcUnknown"))))
                if not same:
                    out.append("%s#%d: who runs the iterations: clang %s, translator %s" % (tag, k + 1, cdist, tdist))
                if sorted(r.get("if_atoms") or []) != sorted(if_atoms):
                    out.append("%s#%d: `if` clause of the parallel directive: clang %s, translator %s" % (
                        tag, k + 1, sorted(if_atoms), sorted(r.get("if_atoms") or [])))
                tp = sorted(p["name"] for p in r["private"])
                if sorted(set(privs)) != tp:
                    out.append("%s#%d: thread-private variables: clang %s, translator %s" % (tag, k + 1, sorted(set(privs)), tp))
                # what the translator could not classify (form "opaque", pseudo-variables <directive> / <call> /
                # <region>) is its "do not know" and is rejected by the checker: nothing to compare there
                opaque_vars = {w[0] for w in r["write_forms"] if w[2] == ["opaque"] or w[0].startswith("<")}
                tw = sorted(json.dumps(w) for w in r["write_forms"] if w[0] not in opaque_vars)
                stores = [w for w in stores if json.loads(w)[0] not in opaque_vars]
                accesses = [w for w in accesses if json.loads(w)[0] not in opaque_vars]
                if tw != stores:
                    out.append("%s#%d: stores to shared variables: clang %s, translator %s" % (tag, k + 1, stores, tw))
                ta = sorted(json.dumps(w) for w in r.get("access_forms", []) if w[0] not in opaque_vars)
                # back_inserter(X) appears in the AST both as the append and as a plain mention of X
                ca = [w for w in accesses if not (json.loads(w)[2] == ["whole"] and json.dumps(
                    [json.loads(w)[0], json.loads(w)[1], ["append"]]) in accesses)]
                if tw == stores and ta != sorted(ca):
                    out.append("%s#%d: accesses (reads and writes) to the stored-to shared variables: clang %s, "
                               "translator %s" % (tag, k + 1, sorted(ca), ta))
                if has_crit != any(a["crit"] for a in r["shared"]):
                    out.append("%s#%d: critical section: clang %s, translator %s" % (
                        tag, k + 1, has_crit, any(a["crit"] for a in r["shared"])))
                if r["iv"] not in ivs:
                    out.append("%s#%d: induction variable: clang %s, translator %s" % (tag, k + 1, ivs, r["iv"]))
    return out


def main():
    import argparse
    ap = argparse.ArgumentParser()
    ap.add_argument("--repo", default=os.environ.get("VERIF_REPO", "/repo"))
    a = ap.parse_args()
    try:
        d = compare(a.repo)
    except RuntimeError as ex:
        print(ex)
        sys.exit(2)
    for x in d:
        print("DISCREPANCY " + x)
    print("clang AST and source-level translator %s" % ("agree" if not d else "DISAGREE (%d)" % len(d)))
    sys.exit(1 if d else 0)


if __name__ == "__main__":
    main()
