#!/usr/bin/env python3
"""T-proj: extract, from every method header, what embed() returns as its projecting function.

    python3 translate/t_proj.py [--repo /repo] [--out coq/gen/Proj.v]
    python3 translate/t_proj.py --self-test

Reads   include/tapkee/methods/*.hpp   (every __TAPKEE_IMPLEMENTATION(X) ... embed() body)
        include/tapkee/methods.hpp     (the tapkee_method_handle(X) dispatch list)
        include/tapkee/projection.hpp  (unimplementedProjectingFunction, default constructor)
and writes a Coq table (types from coq/Proj_Table.v) with one `proj_entry` per method:
  * how many `return` statements embed() has and, for the returned `TapkeeOutput(e, p)`,
  * whether `p` is `unimplementedProjectingFunction()` or a `ProjectingFunction` built from
    `new MatrixProjectionImplementation(A, B)` (argument texts A, B),
  * whether `e` is a call `project(A', B', begin, end, features, current_dimension)` (argument texts),
  * the initialiser of the identifier passed as B (expected: compute_mean(begin, end, features,
    current_dimension)).
Texts are compared after removing white space only; local identifiers may be renamed freely
(obligations in coq/Proj_Tie.v compare A with A' and B with B', not with fixed names).
Anything the small grammar does not understand raises TranslateError (the check reports
"no longer shown" and searches).
"""
import argparse
import glob
import os
import re
import shutil
import sys
import tempfile

METHODS_DIR = "include/tapkee/methods"
DISPATCH = "include/tapkee/methods.hpp"
PROJECTION = "include/tapkee/projection.hpp"


class TranslateError(Exception):
    pass


def strip_comments(s):
    s = re.sub(r"/\*.*?\*/", lambda m: " " * len(m.group(0)), s, flags=re.S)
    s = re.sub(r"//[^\n]*", "", s)
    return s


def match_close(s, i, open_c, close_c):
    depth = 0
    for j in range(i, len(s)):
        if s[j] == open_c:
            depth += 1
        elif s[j] == close_c:
            depth -= 1
            if depth == 0:
                return j
    raise TranslateError("unbalanced " + open_c)


def split_args(s):
    args, depth, cur = [], 0, ""
    for ch in s:
        if ch in "([{":
            depth += 1
        elif ch in ")]}":
            depth -= 1
        if ch == "," and depth == 0:
            args.append(cur)
            cur = ""
        else:
            cur += ch
    if cur.strip():
        args.append(cur)
    return [norm(a) for a in args]


def norm(s):
    return re.sub(r"\s+", "", s)


def call_args(expr, fname_re):
    """expr (white-space free) is exactly a call  <fname>(...)  -> list of args, else None"""
    m = re.match(r"(?:%s)\(" % fname_re, expr)
    if not m:
        return None
    close = match_close(expr, m.end() - 1, "(", ")")
    if close != len(expr) - 1:
        return None
    return split_args(expr[m.end():close])


def find_initialiser(body, ident):
    """initialiser text of a local `T ident = init;` or `T ident(init);` in body (normalised)"""
    m = re.search(r"[\w:<>&\s]+?\b%s\s*=\s*(.*?);" % re.escape(ident), body, re.S)
    if m:
        return norm(m.group(1))
    m = re.search(r"[\w:<>&]+\s+%s\s*\(" % re.escape(ident), body)
    if m:
        close = match_close(body, m.end() - 1, "(", ")")
        return norm(body[m.end():close])
    return None


def parse_method_file(path):
    src = strip_comments(open(path).read())
    entries = []
    for m in re.finditer(r"__TAPKEE_IMPLEMENTATION\s*\(\s*(\w+)\s*\)", src):
        name = m.group(1)
        endm = re.compile(r"__TAPKEE_END_IMPLEMENTATION\s*\(\s*\)").search(src, m.end())
        if not endm:
            raise TranslateError("%s: no __TAPKEE_END_IMPLEMENTATION after %s" % (path, name))
        cls = src[m.end():endm.start()]
        em = re.search(r"TapkeeOutput\s+embed\s*\(\s*\)\s*(?:const\s*)?\{", cls)
        if not em:
            raise TranslateError("%s: %s has no embed()" % (path, name))
        k = em.end() - 1
        body = cls[k:match_close(cls, k, "{", "}") + 1]
        rets = list(re.finditer(r"\breturn\b\s*(.*?);", body, re.S))
        e = {"file": os.path.basename(path), "method": name, "nreturns": len(rets), "kind": "KOther",
             "emb_is_project": False, "mpi_args": [], "project_args": [], "mean_init": "", "other": ""}
        if len(rets) != 1:
            e["other"] = "%d return statements" % len(rets)
            entries.append(e)
            continue
        rexpr = norm(rets[0].group(1))
        args = call_args(rexpr, r"TapkeeOutput")
        if args is None or len(args) != 2:
            e["other"] = "return value is not TapkeeOutput(e, p): " + rexpr[:120]
            entries.append(e)
            continue
        emb, pf = args
        # ---- the projecting function
        if re.fullmatch(r"(?:tapkee::)?unimplementedProjectingFunction\(\)", pf):
            e["kind"] = "KUnimplemented"
        else:
            ctor = pf
            if re.fullmatch(r"\w+", pf):
                init = find_initialiser(body, pf)
                if init is None:
                    e["other"] = "definition of %s not found" % pf
                    entries.append(e)
                    continue
                ctor = init
            else:
                a = call_args(ctor, r"(?:tapkee::)?ProjectingFunction")
                if a is not None and len(a) == 1:
                    ctor = a[0]
            mm = re.fullmatch(r"new(?:tapkee::)?MatrixProjectionImplementation\((.*)\)", ctor)
            if mm:
                e["kind"] = "KMatrix"
                e["mpi_args"] = split_args(mm.group(1))
            else:
                e["other"] = "projecting function not understood: " + ctor[:120]
        # ---- the embedding
        pe = emb
        if re.fullmatch(r"\w+", emb):
            init = find_initialiser(body, emb)
            if init is not None and call_args(init, r"project") is not None:
                pe = init
        pa = call_args(pe, r"(?:tapkee_internal::)?project")
        if pa is not None:
            e["emb_is_project"] = True
            e["project_args"] = pa
        # ---- where the mean comes from
        if e["kind"] == "KMatrix" and len(e["mpi_args"]) == 2:
            b = e["mpi_args"][1]
            if re.fullmatch(r"\w+", b):
                init = find_initialiser(body, b)
                e["mean_init"] = init if init is not None else ""
            else:
                e["mean_init"] = b
        entries.append(e)
    return entries


def parse_dispatch(path):
    src = strip_comments(open(path).read())
    names = re.findall(r"^\s*tapkee_method_handle\s*\(\s*(\w+)\s*\)\s*;", src, re.M)
    if not names:
        raise TranslateError("no tapkee_method_handle(...) lines in " + path)
    dm = re.search(r"#define\s+tapkee_method_handle\(X\)(.*?)#undef|#define\s+tapkee_method_handle\(X\)((?:.*\\\n)+.*)", src, re.S)
    macro = norm((dm.group(1) or dm.group(2) or "").replace("\\", "")) if dm else ""
    # the macro must instantiate X##Implementation and return its embed()
    shape_ok = ("X##Implementation<" in macro) and ("returnimplementation.embed();" in macro)
    return names, shape_ok


def parse_projection(path):
    src = strip_comments(open(path).read())
    m = re.search(r"ProjectingFunction\s+unimplementedProjectingFunction\s*\(\s*\)\s*\{(.*?)\}", src, re.S)
    if not m:
        raise TranslateError("unimplementedProjectingFunction not found")
    r = re.search(r"return\s+(.*?);", m.group(1), re.S)
    unimpl = norm(r.group(1)) if r else norm(m.group(1))
    c = re.search(r"ProjectingFunction\s*\(\s*\)\s*:\s*([^{]*)\{\s*\}", src)
    ctor = norm(c.group(1)) if c else ""
    return unimpl, ctor


MUTATING_METHODS = ("noalias", "resize", "conservativeResize", "setZero", "setOnes", "setConstant", "setRandom", "fill",
                    "swap", "setIdentity", "resizeLike", "reset", "push_back", "clear", "assign", "emplace_back")
TYPE_START = r"(?:const\s+)?(?:[A-Za-z_][\w:]*)(?:\s*<[^;=()]*>)?(?:\s*[&*])?"


def parse_mpi(path):
    """wave 4: is MatrixProjectionImplementation::project a FUNCTION of its argument?  From the struct in projection.hpp:
    the data members, the `mutable` / `static` / `thread_local` declarations of the struct and of the whole file, and
    for the body of project(): its parameter text, the number of return statements, the identifiers it declares
    locally, and the NON-LOCAL identifiers it writes (left-hand side of an assignment / compound assignment /
    increment, or receiver of a mutating Eigen / container member call such as noalias(), resize(), setZero())."""
    src = strip_comments(open(path).read())
    m = re.search(r"struct\s+MatrixProjectionImplementation\b[^{;]*\{", src)
    if not m:
        raise TranslateError("struct MatrixProjectionImplementation not found")
    end = match_close(src, m.end() - 1, "{", "}")
    body = src[m.end():end]
    pm = re.search(r"\bDenseVector\s+project\s*\(([^)]*)\)\s*(const)?\s*(?:override)?\s*\{", body)
    if not pm:
        raise TranslateError("MatrixProjectionImplementation::project not found")
    pend = match_close(body, pm.end() - 1, "{", "}")
    fbody = body[pm.end():pend]
    param = norm(pm.group(1))
    pnames = re.findall(r"(\w+)\s*(?:,|$)", pm.group(1).strip())
    # the struct with every function body blanked: what remains at depth 0 are the member declarations
    flat, depth = "", 0
    for ch in body:
        if ch == "{":
            depth += 1
            continue
        if ch == "}":
            depth -= 1
            flat += ";"
            continue
        if depth == 0:
            flat += ch
    members, mutables = [], 0
    for stmt in flat.split(";"):
        st = stmt.strip()
        if not st or "(" in st or st.startswith(("typedef", "using", "friend", "public", "private", "protected")):
            continue
        mm = re.fullmatch(r"((?:mutable\s+|static\s+|thread_local\s+|const\s+)*)" + TYPE_START + r"\s+(\w+)(?:\s*=.*)?", st, re.S)
        if mm:
            members.append(mm.group(2))
            if re.search(r"\b(mutable|static|thread_local)\b", mm.group(1)):
                mutables += 1
    # statements of project()
    stmts = []
    for raw in re.split(r"[;{}]", fbody):
        st = raw.strip()
        # control-flow headers: `for (T i = 0`, `i < n`, `++i) body`, `if (c) body`, `else body`
        while True:
            m2 = re.match(r"(?:else\b\s*)?(?:for|while|if|switch)\s*\(", st)
            if m2:
                st = st[m2.end():].strip()
                continue
            if st.startswith("else"):
                st = st[4:].strip()
                continue
            break
        # split at a closing parenthesis that closes a header opened in an earlier piece
        depth, cut = 0, None
        for pos, ch in enumerate(st):
            if ch == "(":
                depth += 1
            elif ch == ")":
                depth -= 1
                if depth < 0:
                    cut = pos
                    break
        pieces = [st] if cut is None else [st[:cut].strip(), st[cut + 1:].strip()]
        stmts += [x for x in pieces if x]
    locals_, writes, statics = list(pnames), [], 0
    nreturns = len(re.findall(r"\breturn\b", fbody))
    statics += len(re.findall(r"\b(?:static|thread_local)\b", fbody))
    for st in stmts:
        if st.startswith("return"):
            continue
        dm_ = re.match(r"(?:static\s+|thread_local\s+)*" + TYPE_START + r"\s+(\w+)\s*(?:=|\(|$|\[)", st)
        if dm_ and not re.match(r"(\w+)\s*(?:=|\+=|-=|\*=|/=)", st):
            locals_.append(dm_.group(1))
            continue
        wm = re.match(r"(?:this\s*->\s*)?(\w+)(?:\s*\[[^\]]*\]|\s*\([^)]*\))?(?:\.\w+\(\))*\s*(?:=(?!=)|\+=|-=|\*=|/=|<<=?|\+\+|--)", st)
        if wm:
            writes.append(wm.group(1))
            continue
        wm = re.match(r"(?:\+\+|--)\s*(\w+)", st)
        if wm:
            writes.append(wm.group(1))
            continue
        wm = re.match(r"(?:this\s*->\s*)?(\w+)\s*(?:\.|->)\s*(\w+)\s*\(", st)
        if wm and wm.group(2) in MUTATING_METHODS:
            writes.append(wm.group(1))
            continue
    nonlocal_writes = sorted({w for w in writes if w not in locals_})
    # file scope: static / thread_local OBJECTS (not functions) anywhere in projection.hpp
    file_statics = 0
    for mm in re.finditer(r"\b(?:static|thread_local)\b([^;{(]*)([;{(=])", src):
        if mm.group(2) in (";", "="):
            file_statics += 1
    return {"members": members, "mutable_members": mutables, "param": param, "nreturns": nreturns,
            "nonlocal_writes": nonlocal_writes, "static_decls": statics, "file_statics": file_statics,
            "is_const_method": bool(pm.group(2))}


def parse(repo):
    files = sorted(glob.glob(os.path.join(repo, METHODS_DIR, "*.hpp")))
    entries = []
    for f in files:
        if os.path.basename(f) == "base.hpp":
            continue
        entries += parse_method_file(f)
    if not entries:
        raise TranslateError("no method implementations found")
    names, shape_ok = parse_dispatch(os.path.join(repo, DISPATCH))
    unimpl, ctor = parse_projection(os.path.join(repo, PROJECTION))
    return {"entries": entries, "dispatch": names, "dispatch_shape_ok": shape_ok,
            "unimplemented_returns": unimpl, "default_ctor_init": ctor,
            "mpi": parse_mpi(os.path.join(repo, PROJECTION))}


def cstr(s):
    return '"%s"' % s.replace('"', '""')


def clist(l):
    return "[" + "; ".join(cstr(x) for x in l) + "]"


def emit(tab):
    L = ["(* GENERATED by translate/t_proj.py from include/tapkee/methods/*.hpp, methods.hpp and",
         "   projection.hpp. DO NOT EDIT. *)",
         "Require Import List String.",
         "From TK Require Import Proj_Table.",
         "Import ListNotations.",
         "Open Scope string_scope.",
         "",
         "Definition proj_table : list proj_entry := ["]
    rows = []
    for e in tab["entries"]:
        rows.append("  {| pe_file := %s; pe_method := %s; pe_kind := %s; pe_nreturns := %d;\n"
                    "     pe_emb_is_project := %s;\n     pe_mpi_args := %s;\n     pe_project_args := %s;\n"
                    "     pe_mean_init := %s |}" % (
                        cstr(e["file"]), cstr(e["method"]), e["kind"], e["nreturns"],
                        "true" if e["emb_is_project"] else "false", clist(e["mpi_args"]),
                        clist(e["project_args"]), cstr(e["mean_init"])))
    L.append(";\n".join(rows))
    L.append("].")
    L.append("")
    L.append("Definition dispatch_table : list string := %s." % clist(tab["dispatch"]))
    L.append("Definition dispatch_shape_ok : bool := %s." % ("true" if tab["dispatch_shape_ok"] else "false"))
    L.append("Definition unimplemented_returns : string := %s." % cstr(tab["unimplemented_returns"]))
    L.append("Definition default_ctor_init : string := %s." % cstr(tab["default_ctor_init"]))
    mpi = tab["mpi"]
    L.append("")
    L.append("(* MatrixProjectionImplementation::project — is it a function of its argument? (wave 4) *)")
    L.append("Definition mpi_purity : mpi_purity_table :=")
    L.append("  {| mp_members := %s;\n     mp_param := %s;\n     mp_nreturns := %d;\n     mp_nonlocal_writes := %s;\n"
             "     mp_static_decls := %d;\n     mp_mutable_members := %d;\n     mp_file_statics := %d |}." % (
                 clist(mpi["members"]), cstr(mpi["param"]), mpi["nreturns"], clist(mpi["nonlocal_writes"]),
                 mpi["static_decls"], mpi["mutable_members"], mpi["file_statics"]))
    return "\n".join(L) + "\n"


def write_if_changed(path, text):
    os.makedirs(os.path.dirname(path), exist_ok=True)
    if os.path.exists(path) and open(path).read() == text:
        return False
    tmp = path + ".tmp%d" % os.getpid()
    open(tmp, "w").write(text)
    os.replace(tmp, path)
    return True


SELF_TEST_MUTATIONS = [
    ("include/tapkee/methods/pca.hpp",
     "new tapkee::MatrixProjectionImplementation(projection_result.first, mean_vector)",
     "new tapkee::MatrixProjectionImplementation(projection_result.first, DenseVector::Zero(current_dimension))"),
    ("include/tapkee/methods/random_projection.hpp",
     "project(projection_matrix, mean_vector, begin, end, features, current_dimension)",
     "project(projection_matrix, DenseVector::Zero(current_dimension), begin, end, features, current_dimension)"),
    ("include/tapkee/methods/neighborhood_preserving_embedding.hpp",
     "DenseVector mean_vector = compute_mean(begin, end, features, current_dimension);",
     "DenseVector mean_vector = DenseVector::Zero(current_dimension);"),
    ("include/tapkee/methods/locality_preserving_projections.hpp",
     "projecting_function);", "unimplementedProjectingFunction());"),
    ("include/tapkee/methods/kernel_pca.hpp",
     "unimplementedProjectingFunction()",
     "tapkee::ProjectingFunction(new tapkee::MatrixProjectionImplementation(embedding.first, DenseVector::Zero(1)))"),
    ("include/tapkee/methods/linear_local_tangent_space_alignment.hpp",
     "new tapkee::MatrixProjectionImplementation(projection_result.first, mean_vector)",
     "new tapkee::MatrixProjectionImplementation(eig_matrices.first, mean_vector)"),
    ("include/tapkee/projection.hpp", "return tapkee::ProjectingFunction();",
     "return tapkee::ProjectingFunction(new MatrixProjectionImplementation(DenseMatrix(), DenseVector()));"),
    ("include/tapkee/methods.hpp", "tapkee_method_handle(RandomProjection);", ""),
    # wave 4: hidden state in MatrixProjectionImplementation::project (member scratch buffer; static scratch buffer;
    # noalias() into a member)
    ("include/tapkee/projection.hpp", "return proj_mat.transpose() * (vec - mean_vec);",
     "mean_vec = vec - mean_vec; return proj_mat.transpose() * mean_vec;"),
    ("include/tapkee/projection.hpp", "return proj_mat.transpose() * (vec - mean_vec);",
     "static DenseVector scratch; scratch = vec - mean_vec; return proj_mat.transpose() * scratch;"),
    ("include/tapkee/projection.hpp", "return proj_mat.transpose() * (vec - mean_vec);",
     "mean_vec.noalias() = vec - mean_vec; return proj_mat.transpose() * mean_vec;"),
]

# rewrites that must leave the table UNCHANGED (a local temporary is not state)
SELF_TEST_HARMLESS = [
    ("include/tapkee/projection.hpp", "return proj_mat.transpose() * (vec - mean_vec);",
     "DenseVector centered = vec - mean_vec; DenseVector result = proj_mat.transpose() * centered; return result;"),
]


def self_test(repo):
    base = emit(parse(repo))
    ok = True
    for rel, old, new in SELF_TEST_MUTATIONS:
        d = tempfile.mkdtemp(prefix="t_proj_selftest_")
        try:
            for sub in ("include/tapkee/methods", ):
                shutil.copytree(os.path.join(repo, sub), os.path.join(d, sub))
            for r in (DISPATCH, PROJECTION):
                shutil.copy(os.path.join(repo, r), os.path.join(d, r))
            p = os.path.join(d, rel)
            s = open(p).read()
            if old not in s:
                print("self-test: pattern not present (source drifted?): %r" % old[:70])
                ok = False
                continue
            open(p, "w").write(s.replace(old, new, 1))
            try:
                changed = emit(parse(d)) != base
            except TranslateError:
                changed = True
            print("self-test: %-44s %-60s -> %s" % (os.path.basename(rel), old[:60],
                                                   "table changed" if changed else "NOT DETECTED"))
            ok = ok and changed
        finally:
            shutil.rmtree(d, ignore_errors=True)
    for rel, old, new in SELF_TEST_HARMLESS:
        d = tempfile.mkdtemp(prefix="t_proj_selftest_")
        try:
            shutil.copytree(os.path.join(repo, "include/tapkee/methods"), os.path.join(d, "include/tapkee/methods"))
            for r in (DISPATCH, PROJECTION):
                shutil.copy(os.path.join(repo, r), os.path.join(d, r))
            p = os.path.join(d, rel)
            s = open(p).read()
            if old not in s:
                print("self-test: pattern not present (source drifted?): %r" % old[:70])
                ok = False
                continue
            open(p, "w").write(s.replace(old, new, 1))
            try:
                same = emit(parse(d)) == base
            except TranslateError:
                same = False
            print("self-test (harmless): %-33s %-60s -> %s" % (os.path.basename(rel), old[:60],
                                                              "table unchanged" if same else "table CHANGED"))
            ok = ok and same
        finally:
            shutil.rmtree(d, ignore_errors=True)
    return ok


def main():
    here = os.path.dirname(os.path.dirname(os.path.abspath(__file__)))
    ap = argparse.ArgumentParser()
    ap.add_argument("--repo", default=os.environ.get("VERIF_REPO", "/repo"))
    ap.add_argument("--out", default=os.path.join(here, "coq", "gen", "Proj.v"))
    ap.add_argument("--self-test", action="store_true")
    ap.add_argument("--print", action="store_true")
    a = ap.parse_args()
    if a.self_test:
        sys.exit(0 if self_test(a.repo) else 1)
    text = emit(parse(a.repo))
    if a.print:
        sys.stdout.write(text)
        return
    changed = write_if_changed(a.out, text)
    print("t_proj: %s %s" % (a.out, "rewritten" if changed else "unchanged"))


if __name__ == "__main__":
    main()
