#!/usr/bin/env python3
"""T-chain: regenerate coq/gen/Chain.v (a value of Chain_Model.chain_tables) from the working tree.

    python3 translate/t_chain.py [--repo /repo] [--out coq/gen/Chain.v | --stdout]
    python3 translate/t_chain.py --self-test

Reads   include/tapkee/chain_interface.hpp   every class (chain state): fields in declaration order,
                                             constructor parameters, constructor-initialiser list, and for
                                             every member function its parameters, the local objects it
                                             declares and the ONE return statement (constructor call,
                                             tapkee::embed call, chain of member calls on ( *this ), or a
                                             call of another member); plus the free function tapkee::with
        include/tapkee/embed.hpp             tapkee::embed: the argument list of tapkee_internal::initialize
        include/tapkee/methods.hpp           initialize(): the class constructed and the argument list;
                                             DynamicImplementation: its base class, the inherited
                                             constructor, the by-value static_cast copy
        include/tapkee/methods/base.hpp      ImplementationBase: fields, constructor, copy constructor;
                                             the delegating constructor of __TAPKEE_IMPLEMENTATION
The translator only REPORTS what the text says, in the table language of coq/Chain_Model.v; the
meaning (which object ends in which slot) is computed by the Coq interpreter and the theorems of
Properties_C13.v are stated over the generated table.  Anything outside the small grammar raises
TranslateError (the check then reports "no longer shown" and searches with the C++ harness).
"""
import argparse
import os
import re
import shutil
import sys
import tempfile

CHAIN = "include/tapkee/chain_interface.hpp"
EMBED = "include/tapkee/embed.hpp"
METHODS = "include/tapkee/methods.hpp"
BASE = "include/tapkee/methods/base.hpp"

KINDS = {"kernel": "Kern", "distance": "Dist", "features": "Feat"}
WRAPPERS = ("PlainDistance", "KernelDistance")
NAMESPACES = ("tapkee", "tapkee_internal", "stichwort", "std")


class TranslateError(Exception):
    pass


# ----------------------------------------------------------------------------- lexing
def strip_comments(s):
    s = re.sub(r"/\*.*?\*/", lambda m: re.sub(r"[^\n]", " ", m.group(0)), s, flags=re.S)
    s = re.sub(r"//[^\n]*", "", s)
    return s


TOKEN = re.compile(r"""\s*(?:
      (?P<id>[A-Za-z_]\w*)
    | (?P<num>\d[\w.]*)
    | (?P<str>"(?:[^"\\]|\\.)*")
    | (?P<op>::|->|\#\#|<<|>>|<=|>=|==|!=|&&|\|\||\+\+|--|[-+*/%<>=!&|^~?:;,.(){}\[\]\#\\])
    )""", re.X)


def lex(s):
    toks, i = [], 0
    s = s.rstrip()
    while i < len(s):
        m = TOKEN.match(s, i)
        if not m or m.end() == i:
            if s[i:].strip() == "":
                break
            raise TranslateError("cannot tokenise near %r" % s[i:i + 30])
        t = m.group("id") or m.group("num") or m.group("str") or m.group("op")
        if t == ">>":
            toks += [">", ">"]      # template closers; shifts do not occur in the files read
        else:
            toks.append(t)
        i = m.end()
    return toks


def match(toks, i, open_c, close_c):
    """toks[i] == open_c: index of the matching closer"""
    if toks[i] != open_c:
        raise TranslateError("expected %s, found %s" % (open_c, toks[i]))
    depth = 0
    for j in range(i, len(toks)):
        if toks[j] == open_c:
            depth += 1
        elif toks[j] == close_c:
            depth -= 1
            if depth == 0:
                return j
    raise TranslateError("unbalanced " + open_c)


def split_commas(toks):
    """split at commas that are outside (), <>, {} and []"""
    out, cur, depth = [], [], 0
    for t in toks:
        if t in "(<{[":
            depth += 1
        elif t in ")>}]":
            depth -= 1
        if t == "," and depth == 0:
            out.append(cur)
            cur = []
        else:
            cur.append(t)
    if cur or out:
        out.append(cur)
    return out


def is_ident(t):
    return re.match(r"[A-Za-z_]\w*$", t) is not None


def drop_namespaces(toks):
    out, i = [], 0
    while i < len(toks):
        if i + 1 < len(toks) and toks[i] in NAMESPACES and toks[i + 1] == "::":
            i += 2
            continue
        if toks[i] == "typename":
            i += 1
            continue
        out.append(toks[i])
        i += 1
    return out


# ----------------------------------------------------------------------------- expressions
def parse_expr(toks, ctx):
    """expression of the table language; returns a python tuple tree"""
    toks = drop_namespaces(toks)
    if not toks:
        raise TranslateError("empty expression in " + ctx)
    if len(toks) == 1:
        if is_ident(toks[0]):
            return ("EId", toks[0])
        if re.match(r"\d", toks[0]):
            return ("EOpaque", toks[0])
        raise TranslateError("expression %r in %s" % (toks, ctx))
    # x.begin() / x.end()
    if len(toks) == 5 and is_ident(toks[0]) and toks[1] == "." and toks[2] in ("begin", "end") \
            and toks[3] == "(" and toks[4] == ")":
        return ("EBeginOf" if toks[2] == "begin" else "EEndOf", toks[0])
    # Name<...>(args)
    if is_ident(toks[0]):
        name, i = toks[0], 1
        if i < len(toks) and toks[i] == "<":
            i = match(toks, i, "<", ">") + 1
        if i < len(toks) and toks[i] == "(" and match(toks, i, "(", ")") == len(toks) - 1:
            args = split_commas(toks[i + 1:-1])
            m = re.match(r"dummy_(kernel|distance|features)_callback$", name)
            if m:
                if args:
                    raise TranslateError("dummy callback constructed with arguments in " + ctx)
                return ("EDummyCb", KINDS[m.group(1)])
            m = re.match(r"eigen_(kernel|distance|features)_callback$", name)
            if m and len(args) == 1:
                return ("EEigenCb", KINDS[m.group(1)], parse_expr(args[0], ctx))
            if name in WRAPPERS and len(args) == 1:
                return ("EWrap", name, parse_expr(args[0], ctx))
    raise TranslateError("expression %r outside the table language in %s" % (" ".join(toks), ctx))


def parse_call_tail(toks, i, ctx):
    """toks[i] == '(' ; returns (args as expr list, index after ')')"""
    j = match(toks, i, "(", ")")
    return [parse_expr(a, ctx) for a in split_commas(toks[i + 1:j])], j + 1


def parse_return(toks, class_names, member_names, ctx):
    """the tokens between `return` and `;`"""
    toks = list(toks)
    # ( *this ).m1(a).m2(b)...
    if toks[:4] == ["(", "*", "this", ")"]:
        calls, i = [], 4
        while i < len(toks):
            if toks[i] != "." or not is_ident(toks[i + 1]):
                raise TranslateError("member chain in " + ctx)
            name = toks[i + 1]
            args, i = parse_call_tail(toks, i + 2, ctx)
            calls.append((name, args))
        if not calls:
            raise TranslateError("empty member chain in " + ctx)
        return ("BSelfChain", calls)
    qualified = toks[:]
    embed_call = qualified[:3] == ["tapkee", "::", "embed"]
    toks = drop_namespaces(toks)
    if not is_ident(toks[0]):
        raise TranslateError("return statement in " + ctx)
    name, i = toks[0], 1
    templ = False
    if toks[i] == "<":
        i = match(toks, i, "<", ">") + 1
        templ = True
    if toks[i] != "(" or match(toks, i, "(", ")") != len(toks) - 1:
        # initialize(...).embedUsing(selected_method) is handled by the caller
        raise TranslateError("return statement %r in %s" % (" ".join(toks), ctx))
    args, _ = parse_call_tail(toks, i, ctx)
    if embed_call:
        return ("BEmbed", args)
    if name in class_names:
        return ("BConstruct", name, args)
    if not templ and name in member_names:
        return ("BDelegate", name, args)
    raise TranslateError("return statement calls unknown %r in %s" % (name, ctx))


# ----------------------------------------------------------------------------- declarations
def split_decls(toks):
    """split the token list of a class body into declarations: each ends with ';' or with a '{...}' block"""
    out, cur, i = [], [], 0
    while i < len(toks):
        t = toks[i]
        if t in ("public", "private", "protected") and i + 1 < len(toks) and toks[i + 1] == ":" and not cur:
            out.append(["@access", t])
            i += 2
            continue
        if t == "{":
            j = match(toks, i, "{", "}")
            cur += toks[i:j + 1]
            i = j + 1
            if i < len(toks) and toks[i] == ";":
                i += 1
            out.append(cur)
            cur = []
            continue
        if t == "(":
            j = match(toks, i, "(", ")")
            cur += toks[i:j + 1]
            i = j + 1
            continue
        if t == ";":
            if cur:
                out.append(cur + [";"])
            cur = []
            i += 1
            continue
        cur.append(t)
        i += 1
    if cur:
        raise TranslateError("trailing tokens in class body: %r" % cur[:8])
    return out


def skip_template_header(toks):
    i = 0
    while i < len(toks) and toks[i] == "template":
        i = match(toks, i + 1, "<", ">") + 1
    return toks[i:]


def param_names(toks, ctx):
    names = []
    for p in split_commas(toks):
        if not p:
            continue
        # drop a default argument
        if "=" in p:
            p = p[:p.index("=")]
        if not is_ident(p[-1]) or len(p) < 2:
            raise TranslateError("unnamed parameter %r in %s" % (" ".join(p), ctx))
        names.append(p[-1])
    return names


def parse_locals(stmts, ctx):
    """statements before the return statement of a member; list of token lists (for-loops kept whole)"""
    locs = []
    i = 0
    while i < len(stmts):
        s = drop_namespaces(stmts[i])
        # eigen_<k>_callback name(matrix);
        m = re.match(r"eigen_(kernel|distance|features)_callback$", s[0]) if s else None
        if m and len(s) == 5 and is_ident(s[1]) and s[2] == "(" and is_ident(s[3]) and s[4] == ")":
            locs.append((s[1], ("EEigenCb", KINDS[m.group(1)], ("EId", s[3]))))
            i += 1
            continue
        # std::vector<IndexType> name(M.cols());  for (IndexType i = 0; i < M.cols(); i++) name[i] = i;
        if s[:4] == ["vector", "<", "IndexType", ">"] and len(s) == 12 and s[5] == "(" and s[7:] == [".", "cols", "(", ")", ")"]:
            name, mat = s[4], s[6]
            if i + 1 >= len(stmts):
                raise TranslateError("index vector is not filled in " + ctx)
            f = drop_namespaces(stmts[i + 1])
            # the loop variable is free to be named anything, to be incremented before or after, to be compared with
            # `<` or `!=`; std::iota(name.begin(), name.end(), 0) says the same
            v = f[3] if len(f) > 3 and is_ident(f[3]) else "i"
            head = ["for", "(", "IndexType", v, "=", "0", ";", v]
            tail = [mat, ".", "cols", "(", ")", ";"]
            fill = [")", name, "[", v, "]", "=", v]
            wants = [head + [cmp] + tail + inc + fill for cmp in ("<", "!=") for inc in ([v, "++"], ["++", v])]
            wants.append(["iota", "(", name, ".", "begin", "(", ")", ",", name, ".", "end", "(", ")", ",", "0", ")"])
            if f not in wants:
                raise TranslateError("index vector %s is not filled with 0..cols-1 in %s: %s" % (name, ctx, " ".join(f)))
            locs.append((name, ("EIndexSeq", ("EId", mat))))
            i += 2
            continue
        raise TranslateError("statement %r outside the table language in %s" % (" ".join(s), ctx))
    return locs


def split_statements(toks):
    """body tokens (without the outer braces) -> list of statements (token lists without the final ';').
    A for(...) header is kept together with its single statement."""
    out, cur, depth, i = [], [], 0, 0
    while i < len(toks):
        t = toks[i]
        if t == "for" and not cur:
            j = match(toks, i + 1, "(", ")")
            cur = toks[i:j + 1]
            i = j + 1
            continue
        if t in "({[":
            depth += 1
        elif t in ")}]":
            depth -= 1
        if t == ";" and depth == 0:
            out.append(cur)
            cur = []
        else:
            cur.append(t)
        i += 1
    if cur:
        raise TranslateError("statement without ';': %r" % cur[:10])
    return out


def parse_function(decl, class_names, member_names, ctx, cls=None):
    """decl = tokens of a function definition ending with a {...} block.
    returns dict(name, params, inits (ctor only), locals, body)"""
    toks = skip_template_header(decl)
    # first '(' outside <>
    depth, k = 0, None
    for i, t in enumerate(toks):
        if t == "<":
            depth += 1
        elif t == ">":
            depth -= 1
        elif t == "(" and depth == 0:
            k = i
            break
    if k is None or k == 0 or not is_ident(toks[k - 1]):
        raise TranslateError("cannot find the function name in " + ctx)
    name = toks[k - 1]
    if name == "operator":
        return None
    close = match(toks, k, "(", ")")
    params = param_names(toks[k + 1:close], ctx + "::" + name)
    i = close + 1
    while toks[i] in ("const", "noexcept"):
        i += 1
    inits = []
    if toks[i] == ":":
        i += 1
        while toks[i] != "{":
            # field ( expr )    possibly Base<...>(other)
            j = i
            fld = toks[j]
            j += 1
            if toks[j] == "<":
                j = match(toks, j, "<", ">") + 1
            if toks[j] not in ("(", "{"):
                raise TranslateError("initialiser list of %s::%s" % (ctx, name))
            e = match(toks, j, toks[j], ")" if toks[j] == "(" else "}")
            inits.append((fld, toks[j + 1:e]))
            i = e + 1
            if toks[i] == ",":
                i += 1
    if toks[i] != "{":
        raise TranslateError("body of %s::%s" % (ctx, name))
    end = match(toks, i, "{", "}")
    body = toks[i + 1:end]
    return {"name": name, "params": params, "inits": inits, "body": body}


def parse_member(fn, class_names, member_names, ctx):
    stmts = split_statements(fn["body"])
    if not stmts or stmts[-1][0] != "return":
        raise TranslateError("member %s::%s does not end in a return statement" % (ctx, fn["name"]))
    where = ctx + "::" + fn["name"]
    locs = parse_locals(stmts[:-1], where)
    body = parse_return(stmts[-1][1:], class_names, member_names, where)
    return {"name": fn["name"], "params": fn["params"], "locals": locs, "body": body}


def find_classes(text):
    """(name, body tokens) for every class/struct definition at any namespace depth"""
    toks = lex(strip_comments(text))
    out, i = [], 0
    while i < len(toks):
        if toks[i] in ("class", "struct") and i + 1 < len(toks) and is_ident(toks[i + 1]):
            # skip `template <class T>` parameters: there the next token after the name is , or >
            j = i + 2
            if j < len(toks) and toks[j] == ":":      # base-class list
                while j < len(toks) and toks[j] not in ("{", ";"):
                    j = match(toks, j, "<", ">") + 1 if toks[j] == "<" else j + 1
            if j < len(toks) and toks[j] == "{":
                e = match(toks, j, "{", "}")
                out.append((toks[i + 1], toks[i + 2:j], toks[j + 1:e]))
                i = e + 1
                continue
        i += 1
    return out, toks


def parse_class(name, body, class_names, with_members=True):
    decls = split_decls(body)
    fields, ctor, copy_ctor, members = [], None, None, []
    fn_decls = []
    for d in decls:
        if d[0] == "@access":
            continue
        if d[-1] == "}":
            fn_decls.append(d)
        elif d[-1] == ";":
            core = d[:-1]
            if "(" in core or core[0] in ("using", "typedef", "friend", "static"):
                continue          # defaulted / deleted special members, using-declarations
            if not is_ident(core[-1]):
                raise TranslateError("field declaration %r in %s" % (" ".join(core), name))
            fields.append(core[-1])
    member_names = set()
    parsed = []
    for d in fn_decls:
        fn = parse_function(d, class_names, member_names, name)
        if fn is None:
            continue
        parsed.append(fn)
        member_names.add(fn["name"])
    for fn in parsed:
        if fn["name"] == name:
            raw = " ".join(d for d in fn["params"])
            if len(fn["params"]) == 1 and fn["params"][0] == "other":
                copy_ctor = fn
            elif ctor is None:
                ctor = fn
            else:
                raise TranslateError("class %s has more than one converting constructor" % name)
        elif with_members:
            members.append(parse_member(fn, class_names, member_names, name))
    if ctor is None:
        raise TranslateError("class %s has no constructor" % name)
    inits = [(f, parse_expr(e, name + " initialiser of " + f)) for f, e in ctor["inits"]]
    return {"name": name, "fields": fields, "ctor_params": ctor["params"], "inits": inits,
            "members": members, "copy_ctor": copy_ctor}


# ----------------------------------------------------------------------------- free functions
def find_function(toks, name, qualifier_ok=True):
    """tokens of the definition `... name ( params ) { body }` at namespace scope: (params, body)"""
    for i, t in enumerate(toks):
        if t == name and i + 1 < len(toks) and toks[i + 1] == "(" and (i == 0 or toks[i - 1] not in (".", "::", "return", "=")):
            close = match(toks, i + 1, "(", ")")
            if close + 1 < len(toks) and toks[close + 1] == "{":
                end = match(toks, close + 1, "{", "}")
                return toks[i + 2:close], toks[close + 2:end]
    raise TranslateError("definition of %s not found" % name)


def find_call(body, callee):
    """argument token lists of the first call `callee(...)` in body"""
    for i, t in enumerate(body):
        if t == callee and i + 1 < len(body) and body[i + 1] == "(":
            j = match(body, i + 1, "(", ")")
            return split_commas(body[i + 2:j]), j
    raise TranslateError("call of %s not found" % callee)


# ----------------------------------------------------------------------------- translate
def read(repo, rel):
    p = os.path.join(repo, rel)
    try:
        return open(p).read()
    except OSError as ex:
        raise TranslateError("cannot read %s: %s" % (rel, ex))


def translate(repo):
    # ---- chain states
    classes, toks = find_classes(read(repo, CHAIN))
    class_names = {n for n, _, _ in classes}
    states = [parse_class(n, b, class_names) for n, _, b in classes]
    if not states:
        raise TranslateError("no chain state classes found")
    wp, wb = find_function(toks, "with")
    stm = split_statements(wb)
    if len(stm) != 1 or stm[0][0] != "return":
        raise TranslateError("tapkee::with is not a single return statement")
    t_with = {"name": "with", "params": param_names(wp, "with"), "locals": [],
              "body": parse_return(stm[0][1:], class_names, set(), "with")}

    # ---- tapkee::embed -> initialize(...)
    etoks = lex(strip_comments(read(repo, EMBED)))
    ep, eb = find_function(etoks, "embed")
    eparams = param_names(ep, "embed")
    args, after = find_call(eb, "initialize")
    if eb[after + 1:after + 4] != [".", "embedUsing", "("]:
        raise TranslateError("tapkee::embed does not call initialize(...).embedUsing(...)")
    if eb.count("initialize") != 1:
        raise TranslateError("tapkee::embed calls initialize more than once")
    elocals = []
    for a in args:
        a = drop_namespaces(a)
        if len(a) == 1 and is_ident(a[0]) and a[0] not in eparams:
            # a local object: must be declared in the body as `Type name(...)`
            if not re.search(r"\b%s\s*\(" % re.escape(a[0]), " ".join(eb)):
                raise TranslateError("tapkee::embed passes undeclared %s" % a[0])
            elocals.append(a[0])
    # every callback parameter must not be re-assigned inside embed
    for p in eparams:
        for i, t in enumerate(eb):
            if t == p and i + 1 < len(eb) and eb[i + 1] == "=" :
                raise TranslateError("tapkee::embed assigns to its parameter " + p)
    t_embed = {"name": "embed", "params": eparams, "locals": elocals,
               "body": ("BDelegate", "initialize", [parse_expr(a, "embed") for a in args])}

    # ---- initialize -> DynamicImplementation(...) : ImplementationBase
    mtext = strip_comments(read(repo, METHODS))
    mclasses, mtoks = find_classes(mtext)
    dyn = [c for c in mclasses if c[0] == "DynamicImplementation"]
    if len(dyn) != 1:
        raise TranslateError("DynamicImplementation not found")
    head = dyn[0][1]
    if head[:3] != [":", "public", "ImplementationBase"]:
        raise TranslateError("DynamicImplementation does not derive publicly from ImplementationBase")
    dbody = dyn[0][2]
    sig = " ".join(dbody)
    if not re.search(r"using ImplementationBase < [^;]* > :: ImplementationBase ;", sig):
        raise TranslateError("DynamicImplementation does not inherit the constructors of ImplementationBase")
    ddecls = [d for d in split_decls(dbody) if d[0] != "@access"]
    for d in ddecls:
        if d[-1] == ";" and d[0] != "using":
            raise TranslateError("DynamicImplementation declares data members / other declarations: " + " ".join(d[:8]))
    ip, ib = find_function(mtoks, "initialize")
    iparams = param_names(ip, "initialize")
    istm = split_statements(ib)
    if len(istm) != 1 or istm[0][0] != "return":
        raise TranslateError("initialize is not a single return statement")
    ibody = parse_return(istm[0][1:], {"DynamicImplementation"}, set(), "initialize")
    if ibody[0] != "BConstruct":
        raise TranslateError("initialize does not construct DynamicImplementation")
    t_init = {"name": "initialize", "params": iparams, "locals": [],
              "body": ("BConstruct", "ImplementationBase", ibody[2])}
    # copies: static_cast<ImplementationBase<...>>( *this ) by value, then X##Implementation<...>(self)
    copies = 0
    m = re.search(r"static_cast < ImplementationBase < [^;]*? > > \( \* this \)", sig)
    if m:
        copies += 1
        if re.search(r"static_cast < ImplementationBase < [^;()]*? > & >", sig):
            raise TranslateError("unexpected reference cast")
    elif re.search(r"static_cast < (const )?ImplementationBase < [^;]*? > (const )?& > \( \* this \)", sig):
        copies += 0
    else:
        raise TranslateError("embedUsing does not cast *this to ImplementationBase")
    # the macro: X ## Implementation<...>(self)
    if not re.search(r"X \#\# Implementation < [^;]*? > \( self \)", " ".join(mtoks)):
        raise TranslateError("tapkee_method_handle does not construct X##Implementation from self")

    # ---- ImplementationBase
    btext = strip_comments(read(repo, BASE))
    bclasses, btoks = find_classes(btext)
    base = [c for c in bclasses if c[0] == "ImplementationBase"]
    if len(base) != 1:
        raise TranslateError("ImplementationBase not found")
    # members of ImplementationBase are ordinary code (find_neighbors_with ...): not part of the table
    bcls = parse_class("ImplementationBase", base[0][2], {"ImplementationBase"}, with_members=False)
    if bcls["copy_ctor"] is None:
        # implicit copy constructor: memberwise
        copy_inits = [(f, f) for f in bcls["fields"]]
    else:
        copy_inits = []
        for f, e in bcls["copy_ctor"]["inits"]:
            e = drop_namespaces(e)
            if len(e) == 3 and e[0] == "other" and e[1] == "." and is_ident(e[2]):
                copy_inits.append((f, e[2]))
            else:
                raise TranslateError("copy constructor initialiser of %s: %s" % (f, " ".join(e)))
        missing = [f for f in bcls["fields"] if f not in [x for x, _ in copy_inits]]
        if missing:
            raise TranslateError("copy constructor leaves %s default-initialised" % missing)
    # the macro's delegating constructor
    bjoined = " ".join(btoks)
    if re.search(r"Method \#\# Implementation \( const ImplementationBase < [^()]*? > & other \) \\? ?: \\? ?"
                 r"ImplementationBase < [^()]*? > \( other \)", bjoined):
        copies += 1
    else:
        raise TranslateError("__TAPKEE_IMPLEMENTATION constructor does not copy-construct its base from `other`")
    return {"classes": states + [bcls], "with": t_with, "embed": t_embed, "initialize": t_init,
            "impl_class": "ImplementationBase", "copy_inits": copy_inits, "copies": copies}


# ----------------------------------------------------------------------------- Coq output
def q(s):
    return '"' + s.replace('"', '""') + '"'


def coq_list(items, indent="  "):
    if not items:
        return "[]"
    return "[" + ("; ").join(items) + "]"


def coq_expr(e):
    k = e[0]
    if k == "EId":
        return "EId " + q(e[1])
    if k == "EDummyCb":
        return "EDummyCb " + e[1]
    if k == "EEigenCb":
        return "EEigenCb %s (%s)" % (e[1], coq_expr(e[2]))
    if k == "EIndexSeq":
        return "EIndexSeq (%s)" % coq_expr(e[1])
    if k in ("EBeginOf", "EEndOf"):
        return "%s %s" % (k, q(e[1]))
    if k == "EWrap":
        return "EWrap %s (%s)" % (q(e[1]), coq_expr(e[2]))
    if k == "EOpaque":
        return "EOpaque " + q(e[1])
    raise TranslateError("internal: expr " + k)


def coq_exprs(es):
    return coq_list([coq_expr(e) for e in es])


def coq_body(b):
    if b[0] == "BConstruct":
        return "BConstruct %s %s" % (q(b[1]), coq_exprs(b[2]))
    if b[0] == "BEmbed":
        return "BEmbed %s" % coq_exprs(b[1])
    if b[0] == "BDelegate":
        return "BDelegate %s %s" % (q(b[1]), coq_exprs(b[2]))
    if b[0] == "BSelfChain":
        return "BSelfChain " + coq_list(["(%s, %s)" % (q(n), coq_exprs(a)) for n, a in b[1]])
    raise TranslateError("internal: body " + b[0])


def coq_strs(xs):
    return coq_list([q(x) for x in xs])


def coq_member(m):
    return ("{| m_name := %s; m_params := %s;\n         m_locals := %s;\n         m_body := %s |}"
            % (q(m["name"]), coq_strs(m["params"]),
               coq_list(["(%s, %s)" % (q(n), coq_expr(e)) for n, e in m["locals"]]), coq_body(m["body"])))


def coq_class(c):
    return ("  {| c_name := %s;\n     c_fields := %s;\n     c_ctor_params := %s;\n     c_inits := %s;\n     c_members := %s |}"
            % (q(c["name"]), coq_strs(c["fields"]), coq_strs(c["ctor_params"]),
               coq_list(["(%s, %s)" % (q(f), coq_expr(e)) for f, e in c["inits"]]),
               "[" + ";\n      ".join(coq_member(m) for m in c["members"]) + "]"))


def coq_fun(f):
    return ("{| f_name := %s; f_params := %s; f_locals := %s;\n     f_body := %s |}"
            % (q(f["name"]), coq_strs(f["params"]), coq_strs(f["locals"]), coq_body(f["body"])))


def render(t):
    out = []
    out.append("(* GENERATED by translate/t_chain.py from include/tapkee/chain_interface.hpp, embed.hpp, methods.hpp,")
    out.append("   methods/base.hpp -- do not edit; regenerated and compared on every run of checks/c13.py. *)")
    out.append("From Coq Require Import List String.")
    out.append("From TK Require Import Chain_Model.")
    out.append("Import ListNotations.")
    out.append("Local Open Scope string_scope.")
    out.append("")
    out.append("Definition chain_gen : chain_tables := {|")
    out.append("  t_classes := [\n" + ";\n".join(coq_class(c) for c in t["classes"]) + "];")
    out.append("  t_with := " + coq_fun(t["with"]) + ";")
    out.append("  t_embed := " + coq_fun(t["embed"]) + ";")
    out.append("  t_initialize := " + coq_fun(t["initialize"]) + ";")
    out.append("  t_impl_class := " + q(t["impl_class"]) + ";")
    out.append("  t_copy_inits := " + coq_list(["(%s, %s)" % (q(a), q(b)) for a, b in t["copy_inits"]]) + ";")
    out.append("  t_copies := %d |}." % t["copies"])
    out.append("")
    return "\n".join(out)


# ----------------------------------------------------------------------------- self test
MUTATIONS = [
    # (file, pattern, replacement, description) -- each must CHANGE the rendered table (or raise)
    (CHAIN, r"KernelAndDistanceInitializedState<KernelCallback, DistanceCallback>\(parameters, callback, distance\)",
     "KernelAndDistanceInitializedState<KernelCallback, DistanceCallback>(parameters, callback, callback)",
     "DistanceFirst::withKernel drops the stored distance callback"),
    (CHAIN, r": parameters\(params\), kernel\(k\), distance\(d\), features\(f\)",
     ": parameters(params), kernel(k), distance(d), features(features)",
     "CallbacksInitializedState initialises features from itself"),
    (CHAIN, r"\.withDistance\(dummy_distance_callback<typename RandomAccessIterator::value_type>\(\)\)\s*\.withFeatures",
     ".withDistance(dummy_distance_callback<typename RandomAccessIterator::value_type>()).withDistance",
     "KernelFirst::embedRange attaches the wrong member"),
    (CHAIN, r"return tapkee::embed\(begin, end, kernel, distance, features, parameters\);",
     "return tapkee::embed(begin, end, kernel, distance, features, ParametersSet());",
     "embedRange passes fresh parameters (outside the grammar: must raise)"),
    (CHAIN, r"eigen_distance_callback dcb\(matrix\);", "eigen_kernel_callback dcb(matrix);",
     "matrix form builds a kernel callback for the distance slot"),
    (EMBED, r"initialize\(begin, end, kernel_callback, distance_callback, features_callback,",
     "initialize(begin, end, kernel_callback, distance_callback, features_callback, /*x*/ ",
     None),   # harmless: comment only -> table must NOT change
    (EMBED, r"initialize\(begin, end, kernel_callback, distance_callback, features_callback,",
     "initialize(end, begin, kernel_callback, distance_callback, features_callback,",
     "tapkee::embed swaps begin and end"),
    (BASE, r"plain_distance\(PlainDistance<RandomAccessIterator, DistanceCallback>\(distance\)\)",
     "plain_distance(PlainDistance<RandomAccessIterator, DistanceCallback>(d))",
     "plain_distance wraps the constructor parameter instead of the field"),
    (BASE, r", distance\(other\.distance\)", ", distance(other.distance), /*dup*/ features(other.features)",
     "copy constructor lists a field twice"),
    (BASE, r", begin\(other\.begin\)", ", begin(other.end)", "copy constructor copies end into begin"),
    (CHAIN, r"for \(IndexType i = 0; i < matrix\.cols\(\); i\+\+\)\s*indices\[i\] = i;",
     "for (IndexType column = 0; column != matrix.cols(); ++column)\n            indices[column] = column;", None),
    (CHAIN, r"for \(IndexType i = 0; i < matrix\.cols\(\); i\+\+\)\s*indices\[i\] = i;",
     "for (IndexType i = 0; i < matrix.cols(); i++)\n            indices[i] = matrix.cols() - 1 - i;",
     "the matrix form numbers the samples backwards"),
    (CHAIN, r"(std::vector<IndexType> indices\(matrix\.cols\(\)\);)",
     "if (matrix.rows() > matrix.cols())\n            return embedUsing(DenseMatrix(matrix.transpose()));\n        \\1",
     "the matrix form transposes a tall feature matrix"),
    (CHAIN, r"eigen_features_callback fcb\(matrix\);", "const DenseMatrix centred = matrix.colwise() - matrix.rowwise().mean();\n        eigen_features_callback fcb(centred);",
     "the matrix form hands another matrix to the features callback"),
    (METHODS, r"begin, end, kernel, distance, features, pmap, ctx\);", "begin, end, kernel, distance, features, pmap, ctx );", None),
    (METHODS, r"begin, end, kernel, distance, features, pmap, ctx\);", "end, begin, kernel, distance, features, pmap, ctx);",
     "initialize swaps begin and end"),
]


def self_test(repo):
    base = render(translate(repo))
    ok = True
    n_changed = 0
    for rel, pat, rep, desc in MUTATIONS:
        tmp = tempfile.mkdtemp(prefix="t_chain_selftest_")
        try:
            for r in (CHAIN, EMBED, METHODS, BASE):
                os.makedirs(os.path.dirname(os.path.join(tmp, r)), exist_ok=True)
                shutil.copy(os.path.join(repo, r), os.path.join(tmp, r))
            p = os.path.join(tmp, rel)
            src = open(p).read()
            new, n = re.subn(pat, rep, src, count=1)
            if n != 1:
                print("SELF-TEST: pattern not found (source moved on?): %s" % pat)
                ok = False
                continue
            open(p, "w").write(new)
            try:
                out = render(translate(tmp))
                changed = out != base
                how = "table changed" if changed else "table unchanged"
            except TranslateError as ex:
                changed = True
                how = "TranslateError: " + str(ex)[:90]
            if desc is None:
                if changed:
                    print("SELF-TEST FAIL: harmless edit of %s changed the output (%s)" % (rel, how))
                    ok = False
                else:
                    print("self-test ok : harmless edit of %s -> %s" % (rel, how))
            else:
                if not changed:
                    print("SELF-TEST FAIL: %s -> output unchanged" % desc)
                    ok = False
                else:
                    n_changed += 1
                    print("self-test ok : %s -> %s" % (desc, how))
        finally:
            shutil.rmtree(tmp, ignore_errors=True)
    print("t_chain self-test: %s (%d mutations seen)" % ("PASS" if ok else "FAIL", n_changed))
    return ok


def main():
    ap = argparse.ArgumentParser()
    ap.add_argument("--repo", default=os.environ.get("VERIF_REPO", "/repo"))
    ap.add_argument("--out", default=None)
    ap.add_argument("--stdout", action="store_true")
    ap.add_argument("--self-test", action="store_true")
    a = ap.parse_args()
    if a.self_test:
        sys.exit(0 if self_test(a.repo) else 1)
    try:
        text = render(translate(a.repo))
    except TranslateError as ex:
        print("TranslateError: %s" % ex, file=sys.stderr)
        sys.exit(2)
    if a.stdout:
        sys.stdout.write(text)
        return
    out = a.out or os.path.join(os.path.dirname(os.path.dirname(os.path.abspath(__file__))), "coq", "gen", "Chain.v")
    old = open(out).read() if os.path.exists(out) else None
    if old != text:
        open(out, "w").write(text)
        print("wrote " + out)
    else:
        print("unchanged " + out)


if __name__ == "__main__":
    main()
