#!/usr/bin/env python3
"""T-val — regenerate coq/gen/Validate.v (the validation tables of property C14) from the C++ tree.

Reads the PREPROCESSED text of <repo>/include (g++ -E with the flags of vlib, so comments, #ifdef
branches and macros such as __TAPKEE_IMPLEMENTATION / tapkee_method_handle are what the compiler
sees) and extracts

  keywords.hpp            every ParameterKeyword<T> ident("name", default): type, default value
  parameters/defaults.hpp the default set
  defines/methods.hpp     traits of every DimensionReductionMethod, the enum-like constants
  predicates.hpp          the comparison operators of each predicate object
  embed.hpp               order of the statements of embed(), the catch / rethrow table
  methods/base.hpp        the base constructor, find_neighbors_with, eigendecomposition_via
  parameters/context.hpp  is_cancelled
  methods.hpp             embedUsing: cancel, dummy-callback tests, handler chain
  methods/*.hpp           validate() and embed() of every method, statement by statement

Every statement of those bodies must match a shape the translator understands, or be provably
irrelevant (mentions no parameter, callback, throw, context).  Anything else raises
TranslateError: the check then reports "no longer shown" and goes to its search phase.  Nothing is
dropped silently.

Numbering of keywords / methods / enum constants is FIXED here (by C++ identifier) so that
reordering declarations does not change the tables.

usage:  t_val.py [--repo DIR] [--out FILE] [--json FILE] [--print]
"""
import json
import os
import re
import subprocess
import sys
from fractions import Fraction

HERE = os.path.dirname(os.path.abspath(__file__))
VERIF = os.path.dirname(HERE)


class TranslateError(Exception):
    pass


def fail(msg):
    raise TranslateError(msg)


# ----------------------------------------------------------------------------- fixed numbering
KW_IDS = {k: i for i, k in enumerate([
    "computation_strategy", "method", "eigen_method", "neighbors_method", "num_neighbors",
    "target_dimension", "diffusion_map_timesteps", "gaussian_kernel_width", "max_iteration",
    "spe_global_strategy", "spe_num_updates", "spe_tolerance", "landmark_ratio", "nullspace_shift",
    "klle_shift", "check_connectivity", "fa_epsilon", "progress_function", "cancel_function",
    "sne_perplexity", "sne_theta", "squishing_rate"])}
METHOD_IDS = {k: i for i, k in enumerate([
    "KernelLocallyLinearEmbedding", "KernelLocalTangentSpaceAlignment", "DiffusionMap",
    "MultidimensionalScaling", "LandmarkMultidimensionalScaling", "Isomap", "LandmarkIsomap",
    "NeighborhoodPreservingEmbedding", "LinearLocalTangentSpaceAlignment",
    "HessianLocallyLinearEmbedding", "LaplacianEigenmaps", "LocalityPreservingProjections",
    "PrincipalComponentAnalysis", "KernelPrincipalComponentAnalysis", "RandomProjection",
    "StochasticProximityEmbedding", "PassThru", "FactorAnalysis",
    "tDistributedStochasticNeighborEmbedding", "ManifoldSculpting"])}
ENUM_IDS = {
    "NeighborsMethod": {"Brute": 0, "VpTree": 1, "CoverTree": 2},
    "EigenMethod": {"Arpack": 0, "Randomized": 1, "Dense": 2},
    "ComputationStrategy": {"HomogeneousCPUStrategy": 0, "HeterogeneousOpenCLStrategy": 1},
}
ENUM_CTOR = {"NeighborsMethod": "VNeighbors", "EigenMethod": "VEigen", "ComputationStrategy": "VStrategy"}
TYPE_MAP = {
    "IndexType": "TIndex", "ScalarType": "TScalar", "bool": "TBool",
    "DimensionReductionMethod": "TMethod", "NeighborsMethod": "TNeighbors", "EigenMethod": "TEigen",
    "ComputationStrategy": "TStrategy", "void ( * ) ( double )": "TProgress", "bool ( * ) ( )": "TCancel",
    "int": "TIndex", "double": "TScalar",
}
SW_EXC = {"missed_parameter_error": "SwMissed", "wrong_parameter_error": "SwWrongValue",
          "wrong_parameter_type_error": "SwWrongType", "multiple_parameter_error": "SwMultiple"}
TK_EXC = {"missed_parameter_error": "Missed", "wrong_parameter_error": "WrongValue",
          "wrong_parameter_type_error": "WrongType", "multiple_parameter_error": "Multiple",
          "no_data_error": "NoData", "unsupported_method_error": "Unsupported",
          "not_enough_memory_error": "NotEnoughMemory", "cancelled_exception": "Cancelled",
          "eigendecomposition_error": "EigenFail"}
PRED_IDS = {"Positivity": 0, "NonNegativity": 1, "InRange": 2, "InClosedRange": 3}
CB_OF_TRAIT = {"needs_kernel": "CbKernel", "needs_distance": "CbDistance", "needs_features": "CbFeatures"}
CB_OF_TPARAM = {"KernelCallback": "CbKernel", "DistanceCallback": "CbDistance", "FeaturesCallback": "CbFeatures"}
# members of ImplementationBase that hold / wrap a user callback (checked against the constructor)
CB_MEMBERS = {"kernel": "CbKernel", "distance": "CbDistance", "features": "CbFeatures",
              "plain_distance": "CbDistance", "kernel_distance": "CbKernel"}


# ----------------------------------------------------------------------------- preprocessing
def compiler_flags():
    try:
        sys.path.insert(0, VERIF)
        import vlib
        base = [f for f in vlib.BASE_FLAGS if f != "-w"]
        cxx = vlib.CXX
    except Exception:
        base = ["-std=gnu++23", "-fopenmp", "-DFMT_HEADER_ONLY=1", "-DTAPKEE_USE_LGPL_COVERTREE",
                "-DTAPKEE_VERIF", "-isystem", "/root/miniconda/include", "-isystem", "/usr/include/eigen3"]
        cxx = "g++"
    return cxx, base


def preprocess(repo):
    """-> {relative path under include/: preprocessed text of the lines that come from that file}"""
    cxx, flags = compiler_flags()
    inc = os.path.join(repo, "include")
    try:
        p = subprocess.run([cxx] + flags + ["-I", inc, "-E", "-x", "c++", "-"],
                           input="#include <tapkee/tapkee.hpp>\n", capture_output=True, text=True,
                           timeout=120)
    except subprocess.TimeoutExpired:
        fail("preprocessing timed out")
    if p.returncode != 0:
        fail("the tree does not preprocess: " + p.stderr[-1500:])
    files = {}
    cur = None
    inc_real = os.path.realpath(inc)
    for line in p.stdout.split("\n"):
        m = re.match(r'# \d+ "([^"]*)"', line)
        if m:
            path = os.path.realpath(m.group(1)) if not m.group(1).startswith("<") else None
            cur = os.path.relpath(path, inc_real) if path and path.startswith(inc_real + os.sep) else None
            continue
        if cur is not None:
            files.setdefault(cur, []).append(line)
    return {k: "\n".join(v) for k, v in files.items()}


# ----------------------------------------------------------------------------- tokens
TOKEN_RE = re.compile(r"""
    (?P<str>"(?:\\.|[^"\\])*")
  | (?P<chr>'(?:\\.|[^'\\])*')
  | (?P<num>(?:\d+\.\d*|\.\d+|\d+)(?:[eE][+-]?\d+)?[fFuUlL]*)
  | (?P<id>[A-Za-z_]\w*)
  | (?P<op>::|->|\+\+|--|<<=|>>=|<=|>=|==|!=|&&|\|\||\+=|-=|\*=|/=|%=|&=|\|=|\^=|<<|\.\.\.|[{}()\[\];,.<>+\-*/%&|^!~?:=\#])
  | (?P<ws>\s+)
""", re.X)


def tokenize(text):
    toks, i = [], 0
    while i < len(text):
        m = TOKEN_RE.match(text, i)
        if not m:
            fail("cannot tokenize near: %r" % text[i:i + 40])
        if m.lastgroup != "ws":
            toks.append(m.group(0))
        i = m.end()
    return toks


def J(toks):
    return " ".join(toks)


OPEN = {"(": ")", "[": "]", "{": "}"}
CLOSE = {")", "]", "}"}


def match_close(toks, i):
    """toks[i] is an opening bracket; -> index of its partner"""
    depth = 0
    want = []
    for j in range(i, len(toks)):
        t = toks[j]
        if t in OPEN:
            want.append(OPEN[t])
        elif t in CLOSE:
            if not want or want[-1] != t:
                fail("unbalanced brackets near: " + J(toks[max(0, j - 10):j + 3]))
            want.pop()
            if not want:
                return j
    fail("unbalanced brackets from: " + J(toks[i:i + 12]))


def find_seq(toks, seq, start=0):
    n = len(seq)
    for i in range(start, len(toks) - n + 1):
        if toks[i:i + n] == seq:
            return i
    return -1


def split_top(toks, sep=","):
    out, cur, depth, adepth = [], [], 0, 0
    for t in toks:
        if t in OPEN:
            depth += 1
        elif t in CLOSE:
            depth -= 1
        if t == sep and depth == 0:
            out.append(cur)
            cur = []
        else:
            cur.append(t)
    if cur or out:
        out.append(cur)
    return out


# ----------------------------------------------------------------------------- statements
def parse_block(toks):
    """toks: the tokens BETWEEN the braces of a compound statement -> list of statements"""
    stmts, i = [], 0
    while i < len(toks):
        st, i = parse_stmt(toks, i)
        if st is not None:
            stmts.append(st)
    return stmts


def parse_stmt(toks, i):
    t = toks[i]
    if t == ";":
        return None, i + 1
    if t == "{":
        j = match_close(toks, i)
        return ("block", parse_block(toks[i + 1:j])), j + 1
    if t == "if":
        if toks[i + 1] != "(":
            fail("if without ( : " + J(toks[i:i + 8]))
        j = match_close(toks, i + 1)
        cond = toks[i + 2:j]
        then, k = parse_stmt(toks, j + 1)
        els = None
        if k < len(toks) and toks[k] == "else":
            els, k = parse_stmt(toks, k + 1)
        return ("if", cond, then, els), k
    if t in ("for", "while"):
        j = match_close(toks, i + 1)
        head = toks[i + 2:j]
        body, k = parse_stmt(toks, j + 1)
        return ("loop", head, body), k
    if t == "try":
        j = match_close(toks, i + 1)
        body = parse_block(toks[i + 2:j])
        k = j + 1
        handlers = []
        while k < len(toks) and toks[k] == "catch":
            a = match_close(toks, k + 1)
            decl = toks[k + 2:a]
            b = match_close(toks, a + 1)
            handlers.append((decl, parse_block(toks[a + 2:b])))
            k = b + 1
        return ("try", body, handlers), k
    if t in ("do", "switch", "goto", "case", "default"):
        fail("statement kind not understood: " + J(toks[i:i + 10]))
    # simple statement: up to ';' at bracket depth 0
    depth = 0
    for j in range(i, len(toks)):
        u = toks[j]
        if u in OPEN:
            depth += 1
        elif u in CLOSE:
            depth -= 1
        elif u == ";" and depth == 0:
            return ("simple", toks[i:j]), j + 1
    fail("statement without ';': " + J(toks[i:i + 12]))


def function_body(toks, head_seq, what, nth=0):
    """tokens between the braces of the function whose header contains head_seq (token list)."""
    pos = -1
    start = 0
    for _ in range(nth + 1):
        pos = find_seq(toks, head_seq, start)
        if pos < 0:
            fail("cannot find %s" % what)
        start = pos + 1
    # parameter list
    i = pos + len(head_seq) - 1
    if toks[i] != "(":
        fail("internal: head_seq must end with ( for " + what)
    j = match_close(toks, i)
    params = toks[i + 1:j]
    k = j + 1
    # skip const / noexcept / member initialiser list up to the body
    init = []
    while k < len(toks) and toks[k] != "{":
        if toks[k] == ";":
            fail("%s has no body" % what)
        if toks[k] == "(":                 # member initialiser argument
            e = match_close(toks, k)
            init += toks[k:e + 1]
            k = e + 1
            continue
        init.append(toks[k])
        k += 1
    e = match_close(toks, k)
    return params, init, toks[k + 1:e]


# ----------------------------------------------------------------------------- numbers / expressions
def parse_number(tok):
    """C++ literal -> ('int', int) or ('real', Fraction = the exact value of the double)"""
    t = tok.rstrip("uUlL")
    if re.fullmatch(r"\d+", t):
        return ("int", int(t))
    t2 = tok.rstrip("fFlL")
    try:
        return ("real", Fraction(float(t2)))
    except ValueError:
        fail("number literal not understood: " + tok)


class Expr:
    """bound expressions: + - * / ( ) literals n_vectors"""

    def __init__(self, toks, n_name="n_vectors", kws=None, local_vars=None):
        self.toks, self.i, self.n_name = toks, 0, n_name
        self.kws = kws or {}
        self.local_vars = local_vars or {}
        self.convs = []          # (keyword, type): conversions of parameters inside the expression

    def peek(self):
        return self.toks[self.i] if self.i < len(self.toks) else None

    def parse(self):
        e = self.sum()
        if self.i != len(self.toks):
            fail("bound expression not understood: " + J(self.toks))
        return e

    def sum(self):
        e = self.prod()
        while self.peek() in ("+", "-"):
            op = self.toks[self.i]
            self.i += 1
            r = self.prod()
            e = ("BAdd" if op == "+" else "BSub", e, r)
        return e

    def prod(self):
        e = self.atom()
        while self.peek() in ("*", "/"):
            op = self.toks[self.i]
            self.i += 1
            r = self.atom()
            e = ("BMul" if op == "*" else "BDiv", e, r)
        return e

    def atom(self):
        t = self.peek()
        if t is None:
            fail("bound expression ends early: " + J(self.toks))
        self.i += 1
        if t == "(":
            e = self.sum()
            if self.peek() != ")":
                fail("bound expression: missing ) in " + J(self.toks))
            self.i += 1
            return e
        if t == "-":
            a = self.atom()
            if a[0] == "BInt":
                return ("BInt", -a[1])
            if a[0] == "BReal":
                return ("BReal", -a[1])
            return ("BSub", ("BInt", 0), a)
        if t == self.n_name:
            return ("BN",)
        if t == "current_dimension":
            return ("BDim",)
        if t in self.local_vars:
            e, convs = self.local_vars[t]
            return e                     # its conversions were emitted where the variable was declared
        if t == "static_cast":
            # static_cast < T > ( parameters [ kw ] )  |  static_cast < IndexType > ( expr )
            if self.peek() != "<":
                fail("bound expression: static_cast shape in " + J(self.toks))
            j = self.toks.index(">", self.i)
            cty = J(self.toks[self.i + 1:j])
            if cty not in TYPE_MAP or TYPE_MAP[cty] not in ("TIndex", "TScalar"):
                fail("bound expression: static_cast<%s> not understood" % cty)
            if self.toks[j + 1:j + 2] != ["("]:
                fail("bound expression: static_cast shape in " + J(self.toks))
            e = match_close(self.toks, j + 1)
            inner = self.toks[j + 2:e]
            self.i = e + 1
            m = re.fullmatch(r"parameters \[ (\w+) \]", J(inner))
            if m:
                if m.group(1) not in self.kws:
                    fail("parameters[%s]: unknown keyword" % m.group(1))
                self.convs.append((m.group(1), TYPE_MAP[cty]))
                return ("BParam", m.group(1), TYPE_MAP[cty])
            sub = Expr(inner, self.n_name, self.kws, self.local_vars)
            ie = sub.parse()
            self.convs += sub.convs
            if TYPE_MAP[cty] == "TIndex":
                return ("BTrunc", ie)
            fail("bound expression: static_cast<%s>(expression) not understood" % cty)
        if re.match(r"[\d.]", t):
            # wave 3: the model evaluates int op int in IndexType and everything else in binary64; a literal of another
            # arithmetic type (3.0f, 3.0L, 3u, 3l) computes the bound differently
            if not re.match(r"0[xX]", t) and t[-1] in "fFlLuU":
                fail("bound expression: literal %s is neither int nor double (arithmetic of another type)" % t)
            k, v = parse_number(t)
            return ("BInt", v) if k == "int" else ("BReal", v)
        fail("bound expression: unknown operand %r in %s" % (t, J(self.toks)))


KW_NUM = {}      # keyword identifier -> id, filled by Translator.keywords()


def coq_Z(z):
    return "(%d)%%Z" % z


def coq_Q(q):
    q = Fraction(q)
    return "(%s # %d)%%Q" % (("(%d)" % q.numerator) if q.numerator < 0 else str(q.numerator), q.denominator)


def coq_bexpr(e):
    if e[0] == "BInt":
        return "(BInt %s)" % coq_Z(e[1])
    if e[0] == "BReal":
        return "(BReal %s)" % coq_Q(e[1])
    if e[0] == "BN":
        return "BN"
    if e[0] == "BDim":
        return "BDim"
    if e[0] == "BParam":
        return "(BParam %d %s)" % (KW_NUM[e[1]], e[2])
    if e[0] == "BTrunc":
        return "(BTrunc %s)" % coq_bexpr(e[1])
    return "(%s %s %s)" % (e[0], coq_bexpr(e[1]), coq_bexpr(e[2]))


def js_bexpr(e):
    if e[0] == "BInt":
        return {"int": e[1]}
    if e[0] == "BReal":
        return {"real": [e[1].numerator, e[1].denominator]}
    if e[0] == "BN":
        return "N"
    if e[0] == "BDim":
        return "D"
    if e[0] == "BParam":
        return {"param": [KW_NUM[e[1]], e[2]]}
    if e[0] == "BTrunc":
        return {"trunc": js_bexpr(e[1])}
    return {e[0]: [js_bexpr(e[1]), js_bexpr(e[2])]}


# ----------------------------------------------------------------------------- the translator
class Translator:
    def __init__(self, repo):
        self.repo = repo
        self.files = preprocess(repo)
        self.toks = {}
        self.notes = []

    def T(self, rel):
        if rel not in self.files:
            fail("file %s is not part of the translation unit any more" % rel)
        if rel not in self.toks:
            self.toks[rel] = tokenize(self.files[rel])
        return self.toks[rel]

    # ---- keywords.hpp
    def keywords(self):
        toks = self.T("tapkee/defines/keywords.hpp")
        kws = {}
        i = 0
        count = sum(1 for t in toks if t == "ParameterKeyword")
        while True:
            i = find_seq(toks, ["ParameterKeyword", "<"], i)
            if i < 0:
                break
            # type: up to the matching '>' (function pointer types contain parentheses but no < >)
            j = i + 2
            depth = 0
            while not (toks[j] == ">" and depth == 0):
                if toks[j] in OPEN:
                    depth += 1
                elif toks[j] in CLOSE:
                    depth -= 1
                j += 1
            ty = J(toks[i + 2:j])
            if ty not in TYPE_MAP:
                fail("keyword type not understood: " + ty)
            ident = toks[j + 1]
            if toks[j + 2] != "(":
                fail("keyword declaration shape: " + J(toks[i:j + 6]))
            e = match_close(toks, j + 2)
            args = split_top(toks[j + 3:e])
            if len(args) != 2 or len(args[0]) != 1 or not args[0][0].startswith('"') or toks[e + 1] != ";":
                fail("keyword declaration shape: " + J(toks[i:e + 2]))
            name = json.loads(args[0][0])
            if ident in kws:
                fail("keyword %s declared twice" % ident)
            kws[ident] = {"ident": ident, "name": name, "ctype": ty, "type": TYPE_MAP[ty], "default_toks": args[1]}
            i = e
        if len(kws) != count:
            fail("keywords.hpp: %d ParameterKeyword occurrences but %d declarations understood" % (count, len(kws)))
        names = [k["name"] for k in kws.values()]
        if len(set(names)) != len(names):
            fail("two keywords share one name string (they would collide in the map)")
        nxt = max(KW_IDS.values()) + 1
        for ident in sorted(kws):
            if ident in KW_IDS:
                kws[ident]["id"] = KW_IDS[ident]
            else:
                kws[ident]["id"] = nxt
                nxt += 1
                self.notes.append("new keyword " + ident)
        KW_NUM.clear()
        KW_NUM.update({k: v["id"] for k, v in kws.items()})
        return kws

    # ---- defines/methods.hpp
    def methods_decl(self):
        toks = self.T("tapkee/defines/methods.hpp")
        s = J(toks)
        m = re.search(r"struct DimensionReductionTraits \{ const bool (\w+) ; const bool (\w+) ; const bool (\w+) ; \}", s)
        if not m:
            fail("struct DimensionReductionTraits: shape not understood")
        order = list(m.groups())
        if sorted(order) != sorted(CB_OF_TRAIT):
            fail("DimensionReductionTraits fields changed: %s" % order)
        # the constructor must copy field to field
        for f in order:
            if not re.search(r"\b%s \( traits \. %s \)" % (f, f), s):
                fail("DimensionReductionMethod constructor does not copy traits.%s into %s" % (f, f))
        traits = {}
        for m in re.finditer(r"static const DimensionReductionTraits (\w+) \{ (true|false) , (true|false) , (true|false) \} ;", s):
            traits[m.group(1)] = dict(zip(order, [x == "true" for x in m.groups()[1:]]))
        if len(traits) != len(re.findall(r"\bDimensionReductionTraits \w+ \{", s)):
            fail("a DimensionReductionTraits constant has a shape that is not understood")
        methods = {}
        for m in re.finditer(r"static const DimensionReductionMethod (\w+) \( (\"(?:\\.|[^\"\\])*\") , (\w+) \) ;", s):
            ident, name, tr = m.group(1), json.loads(m.group(2)), m.group(3)
            if tr not in traits:
                fail("method %s uses unknown traits %s" % (ident, tr))
            methods[ident] = {"ident": ident, "name": name, "traits": traits[tr], "traits_name": tr}
        ndecl = len(re.findall(r"\bDimensionReductionMethod \w+ \( \"", s))
        if ndecl != len(methods):
            fail("defines/methods.hpp: %d method declarations, %d understood" % (ndecl, len(methods)))
        nxt = max(METHOD_IDS.values()) + 1
        for ident in sorted(methods):
            if ident in METHOD_IDS:
                methods[ident]["id"] = METHOD_IDS[ident]
            else:
                methods[ident]["id"] = nxt
                nxt += 1
                self.notes.append("new method " + ident)
        # Method::operator== compares names
        if not re.search(r"bool operator == \( const M & m \) const \{ return this -> name \( \) == m \. name \( \) ; \}", s):
            fail("Method::operator== : shape not understood")
        # enum-like constants and the three default_* variables
        enums = {}
        for ty in ENUM_IDS:
            consts = re.findall(r"static const %s (\w+) \( \"" % ty, s)
            for c in consts:
                if c not in ENUM_IDS[ty]:
                    ENUM_IDS[ty][c] = max(ENUM_IDS[ty].values()) + 1
                    self.notes.append("new %s constant %s" % (ty, c))
            enums[ty] = {c: ENUM_IDS[ty][c] for c in consts}
        aliases = {}
        for m in re.finditer(r"static (\w+) (default_\w+) = (\w+) ;", s):
            ty, var, c = m.groups()
            if ty not in enums or c not in enums[ty]:
                fail("default variable %s = %s not understood" % (var, c))
            aliases[var] = (ty, c)
        return methods, enums, aliases

    def default_value(self, kw, methods, enums, aliases):
        toks, ty = kw["default_toks"], kw["type"]
        s = J(toks)
        if ty == "TIndex":
            e = Expr(toks).parse()
            if e[0] != "BInt":
                fail("default of %s is not an integer literal: %s" % (kw["ident"], s))
            return ("VIndex", e[1])
        if ty == "TScalar":
            e = Expr(toks).parse()
            if e[0] == "BInt":
                return ("VScalar", Fraction(e[1]))
            if e[0] == "BReal":
                return ("VScalar", e[1])
            fail("default of %s is not a literal: %s" % (kw["ident"], s))
        if ty == "TBool":
            if s in ("true", "false"):
                return ("VBool", s == "true")
        if ty in ("TProgress", "TCancel"):
            if s in ("__null", "nullptr", "0", "NULL"):
                return ("VProgress", False) if ty == "TProgress" else ("VCancel", None)
        if ty == "TMethod" and s in methods:
            return ("VMethod", methods[s]["id"])
        for cty, ctor in ENUM_CTOR.items():
            if TYPE_MAP[cty] == ty:
                if s in aliases and aliases[s][0] == cty:
                    return (ctor, enums[cty][aliases[s][1]])
                if s in enums[cty]:
                    return (ctor, enums[cty][s])
        fail("default value of %s not understood: %s" % (kw["ident"], s))

    # ---- parameters/defaults.hpp
    def defaults(self, kws):
        toks = self.T("tapkee/parameters/defaults.hpp")
        i = find_seq(toks, ["ParametersSet", "defaults", "="])
        if i < 0 or toks[i + 3] != "(":
            fail("defaults.hpp: declaration of `defaults` not understood")
        e = match_close(toks, i + 3)
        if toks[e + 1] != ";":
            fail("defaults.hpp: declaration of `defaults` not understood")
        out = []
        for item in split_top(toks[i + 4:e]):
            s = J(item)
            m = re.fullmatch(r"(?:tapkee :: )?(\w+) = stichwort :: by_default", s)
            if not m or m.group(1) not in kws:
                fail("defaults.hpp: entry not understood: " + s)
            if m.group(1) in out:
                fail("defaults.hpp: %s listed twice" % m.group(1))
            out.append(m.group(1))
        # `kw = by_default` must produce the keyword's default_value under the keyword's name
        k = J(self.T("stichwort/keywords.hpp"))
        if not re.search(r"Parameter operator = \( const DefaultValue & \) const \{ return Parameter :: create \( name , default_value \) ; \}", k):
            fail("ParameterKeyword::operator=(DefaultValue): shape not understood")
        if not re.search(r"Parameter operator = \( const T & value \) const \{ return Parameter :: create \( name , value \) ; \}", k):
            fail("ParameterKeyword::operator=(T): shape not understood")
        return out

    # ---- predicates.hpp
    def predicates(self):
        """every `template <typename T> struct P` of predicates.hpp: the body of operator()(T v) as a
        conjunction of comparisons  v OP operand  (operand: a member initialised from a constructor
        argument, a literal, std::numeric_limits<T>::epsilon()).  `a OP v` is read as `v OP' a`."""
        toks = self.T("tapkee/predicates.hpp")
        s = J(toks)
        preds = {}
        for m in re.finditer(r"template < typename T > struct (\w+) \{", s):
            name = m.group(1)
            # body of this struct
            start = len(tokenize(s[:m.end()])) - 1
            end = match_close(toks, start)
            body = toks[start + 1:end]
            bs = J(body)
            ctor = re.search(r"%s \( T (\w+) , T (\w+) \) : (\w+) \( (\w+) \) , (\w+) \( (\w+) \) \{ \}" % name, bs)
            argmap = {}
            if ctor:
                a1, a2, f1, i1, f2, i2 = ctor.groups()
                pos = {a1: 0, a2: 1}
                if i1 not in pos or i2 not in pos:
                    fail("predicate %s: constructor shape" % name)
                argmap = {f1: pos[i1], f2: pos[i2]}
                for f in (f1, f2):
                    if not re.search(r"\bT %s ;" % f, bs):
                        fail("predicate %s: member %s is not declared `T %s;`" % (name, f, f))
            elif re.search(r"\b%s \(" % name, bs):
                fail("predicate %s: constructor shape not understood" % name)
            op = re.search(r"bool operator \( \) \( (?:const )?T (?:& )?(\w+) \) const \{ return (.*?) ; \}", bs)
            if not op:
                fail("predicate %s: operator() shape not understood" % name)
            v, expr = op.groups()
            conj = []
            for part in split_top(expr.split(), "&&"):
                while part and part[0] == "(" and match_close(part, 0) == len(part) - 1:
                    part = part[1:-1]
                k = [i for i, t in enumerate(part) if t in (">", ">=", "<", "<=")]
                # the `<` `>` of numeric_limits<T> are not comparisons
                k = [i for i in k if not (part[i] == "<" and part[i - 1:i] == ["numeric_limits"])
                     and not (part[i] == ">" and part[i - 3:i - 1] == ["numeric_limits", "<"])]
                if len(k) != 1:
                    fail("predicate %s: comparison not understood: %s" % (name, J(part)))
                lhs, cmpop, rhs = part[:k[0]], part[k[0]], part[k[0] + 1:]
                if lhs == [v]:
                    other = rhs
                elif rhs == [v]:
                    other = lhs
                    cmpop = {">": "<", ">=": "<=", "<": ">", "<=": ">="}[cmpop]
                else:
                    fail("predicate %s: comparison does not have the value on one side: %s" % (name, J(part)))
                if v in other:
                    fail("predicate %s: comparison not understood: %s" % (name, J(part)))
                so = J(other)
                neg = False
                if other[:1] == ["-"] and len(other) == 2:
                    neg, so = True, other[1]
                if so in argmap and not neg:
                    operand = ("field", argmap[so])
                elif re.fullmatch(r"[\d.][\w.+-]*", so):
                    kind, val = parse_number(so)
                    operand = (kind, -val if neg else val)
                elif so == "std :: numeric_limits < T > :: epsilon ( )":
                    operand = ("eps",)
                else:
                    fail("predicate %s: operand %s not understood" % (name, so))
                conj.append(({">": "OpGt", ">=": "OpGe", "<": "OpLt", "<=": "OpLe"}[cmpop], operand))
            if name not in PRED_IDS:
                PRED_IDS[name] = max(PRED_IDS.values()) + 1
                self.notes.append("new predicate " + name)
            preds[name] = {"id": PRED_IDS[name], "conj": conj, "nargs": len(argmap)}
        if not preds:
            fail("predicates.hpp: no predicate found")
        return preds

    @staticmethod
    def instantiate(name, p, ty, exprs):
        """P<ty>(exprs) as (lo, hi) = (strict?, bound expression) or None: the same function as
        Validate_Model.instantiate (Properties_C14.generated_checks_are_the_predicate_bodies compares)"""
        lo = hi = None
        for cmpop, o in p["conj"]:
            if o[0] == "field":
                b = exprs[o[1]]
            elif o[0] == "int":
                b = ("BInt", o[1])
            elif o[0] == "real":
                if ty != "TScalar":
                    fail("predicate %s<%s>: a floating literal compared with an integral value" % (name, ty))
                b = ("BReal", o[1])
            else:
                b = ("BReal", Fraction(1, 2 ** 52)) if ty == "TScalar" else ("BInt", 0)
            if cmpop in ("OpGt", "OpGe"):
                if lo is not None:
                    fail("predicate %s: two lower bounds" % name)
                lo = (cmpop == "OpGt", b)
            else:
                if hi is not None:
                    fail("predicate %s: two upper bounds" % name)
                hi = (cmpop == "OpLt", b)
        return lo, hi

    def make_check(self, kws, preds, kwident, predname, tytoks, argtoks, n_name, local_vars=None):
        if kwident not in kws:
            fail("check on unknown keyword " + kwident)
        if predname not in preds:
            fail("unknown predicate " + predname)
        ty = J(tytoks)
        if ty not in TYPE_MAP or TYPE_MAP[ty] not in ("TIndex", "TScalar"):
            fail("predicate over type %s not understood" % ty)
        p = preds[predname]
        args = [a for a in split_top(argtoks)] if argtoks else []
        if len(args) != p["nargs"]:
            fail("predicate %s used with %d arguments" % (predname, len(args)))
        exprs, convs = [], []
        for a in args:
            ex = Expr(a, n_name, kws, local_vars)
            exprs.append(ex.parse())
            convs += ex.convs
        lo, hi = self.instantiate(predname, p, TYPE_MAP[ty], exprs)
        return {"kw": kwident, "ty": TYPE_MAP[ty], "pred": predname, "pred_id": p["id"], "args": exprs,
                "lo": lo, "hi": hi, "convs": convs}

    CHECK_RE = re.compile(r"parameters \[ (\w+) \] \. checked \( \) \. satisfies \( (\w+) < ([^>]*) > \( (.*?) ?\) \) \. orThrow \( \)")

    # ---- steps of a method body
    def stmt_steps(self, toks, env):
        """steps of one simple statement / expression (token list)"""
        kws, preds = env["kws"], env["preds"]
        steps = []
        s = J(toks)
        if "parameters" in toks:
            n_refs = sum(1 for i, t in enumerate(toks) if t == "parameters")
            seen = 0
            i = 0
            while i < len(toks):
                if toks[i] != "parameters":
                    i += 1
                    continue
                seen += 1
                if toks[i + 1:i + 2] != ["["] or toks[i + 3:i + 4] != ["]"]:
                    fail("use of `parameters` not understood: " + J(toks[max(0, i - 3):i + 8]))
                kw = toks[i + 2]
                if kw not in kws:
                    fail("parameters[%s]: unknown keyword" % kw)
                if self.inside_helper_call(toks, i, env["helpers"]):
                    i += 4                      # argument of an inlined helper: handled by inline_helper
                    continue
                after = toks[i + 4:]
                before = toks[:i]
                if after[:6] == [".", "checked", "(", ")", ".", "satisfies"]:
                    m = self.CHECK_RE.match(J(toks[i:]))
                    if not m:
                        fail("checked().satisfies() shape not understood: " + J(toks[i:i + 30]))
                    c = self.make_check(kws, preds, m.group(1), m.group(2), m.group(3).split(), m.group(4).split(),
                                        env["n_name"], env.get("locals"))
                    # conversions inside the bound expressions happen before the predicate is applied
                    for ck, cty in c["convs"]:
                        steps.append(([], ("conv", ck, cty)))
                    steps.append(([], ("check", c)))
                    seen += sum(1 for t in tokenize(m.group(0))[1:] if t == "parameters")
                    i += len(tokenize(m.group(0)))
                    continue
                if after[:3] == [".", "is", "("]:
                    i += 4                      # no exception from is(); guards are handled by the caller
                    continue
                if after[:1] in ([","], [")"], []) or after[:1] == [";"]:
                    # conversion: explicit static_cast<T>( ... ) gives the type, otherwise the declared one
                    ty = kws[kw]["type"]
                    if before[-1:] == ["("] and before[-2:-1] == [">"] and "static_cast" in before[-8:]:
                        k = len(before) - 1 - before[::-1].index("static_cast")
                        cty = J(before[k + 2:-2])
                        if cty not in TYPE_MAP:
                            fail("static_cast<%s>(parameters[%s]) not understood" % (cty, kw))
                        ty = TYPE_MAP[cty]
                    elif env.get("decl_type"):
                        ty = env["decl_type"]
                    steps.append(([], ("conv", kw, ty)))
                    i += 4
                    continue
                fail("use of parameters[%s] not understood: %s" % (kw, J(toks[max(0, i - 4):i + 10])))
            if seen != n_refs:
                fail("internal: parameters references lost")
        # wave 3: a range check that is NOT on a keyword of the parameter set (a derived quantity wrapped in its own
        # Parameter, a local CheckedParameter, ...) would otherwise be dropped silently
        n_checks = sum(1 for st in steps if st[1][0] == "check")
        for word in ("checked", "satisfies", "orThrow"):
            if sum(1 for t in toks if t == word) != n_checks:
                fail("a %s() that is not parameters[keyword].checked().satisfies(P<T>(...)).orThrow(): %s" % (word, s[:160]))
        if any(t in ("throwIfInvalid", "invalidate", "CheckedParameter") for t in toks):
            fail("a check outside the parameters[keyword].checked() shape: " + s[:160])
        # helper calls of base.hpp are inlined
        for helper in env["helpers"]:
            for i, t in enumerate(toks):
                if t == helper and toks[i + 1:i + 2] == ["("]:
                    e = match_close(toks, i + 1)
                    args = split_top(toks[i + 2:e])
                    steps += self.inline_helper(helper, args, env)
        # callback uses
        for i, t in enumerate(toks):
            cb = env["cbnames"].get(t)
            if cb is None:
                continue
            prev = toks[i - 1] if i > 0 else ""
            if prev in (".", "::") or (prev == "->" and toks[i - 2:i - 1] != ["this"]):
                continue
            nxt = toks[i + 1] if i + 1 < len(toks) else ""
            if nxt == "(" and t in env["helpers"]:
                continue
            # argument of an inlined helper: the helper's own body accounts for it
            if self.inside_helper_call(toks, i, env["helpers"]):
                continue
            steps.append(([], ("eval", cb)))
        return steps

    @staticmethod
    def inside_helper_call(toks, i, helpers):
        depth = 0
        for j in range(i - 1, -1, -1):
            if toks[j] in CLOSE:
                depth += 1
            elif toks[j] in OPEN:
                if depth == 0:
                    if toks[j] == "(" and j > 0 and toks[j - 1] in helpers:
                        return True
                else:
                    depth -= 1
        return False

    def inline_helper(self, helper, args, env):
        h = env["helpers"][helper]
        if len(args) != len(h["params"]):
            fail("%s called with %d arguments" % (helper, len(args)))
        steps = []
        cbnames = dict(CB_MEMBERS)
        for (pty, pname), a in zip(h["params"], args):
            s = J(a)
            m = re.fullmatch(r"parameters \[ (\w+) \]", s)
            if m:
                if pty not in TYPE_MAP:
                    fail("%s: parameter type %s not understood" % (helper, pty))
                if m.group(1) not in env["kws"]:
                    fail("parameters[%s]: unknown keyword" % m.group(1))
                steps.append(([], ("conv", m.group(1), TYPE_MAP[pty])))
            elif "parameters" in a:
                sub = dict(env)
                sub["decl_type"] = None
                steps += [x for x in self.stmt_steps(a, sub) if x[1][0] != "eval"]
            if len(a) == 1 and a[0] in env["cbnames"]:
                cbnames[pname] = env["cbnames"][a[0]]
            elif any(t in env["cbnames"] for t in a):
                fail("%s: callback argument not understood: %s" % (helper, s))
        sub = dict(env)
        sub["cbnames"] = cbnames
        sub["helpers"] = {k: v for k, v in env["helpers"].items() if k != helper}
        sub["shadow"] = set(p[1] for p in h["params"])
        steps += self.body_steps(h["body"], sub, [])
        return steps

    def guard_of(self, cond, env):
        s = J(cond)
        mg = re.fullmatch(r"static_cast < (\w+) > \( parameters \[ (\w+) \] \) > ([\d.eE+-]+)", s)
        if mg:
            cty, kw, lit = mg.groups()
            if kw not in env["kws"] or cty not in TYPE_MAP or TYPE_MAP[cty] not in ("TIndex", "TScalar"):
                fail("guard not understood: " + s)
            k, v = parse_number(lit)
            return {"kind": "gt", "kw": kw, "ty": TYPE_MAP[cty], "q": Fraction(v), "pos": True,
                    "conv": (kw, TYPE_MAP[cty])}
        m = re.fullmatch(r"(!)? ?parameters \[ (\w+) \] \. is \( (\w+) \)", s)
        if not m:
            return None
        neg, kw, val = m.groups()
        if kw not in env["kws"]:
            fail("guard on unknown keyword " + kw)
        ty = env["kws"][kw]["type"]
        if val in ("true", "false") :
            v = ("VBool", val == "true")
        else:
            v = None
            for cty, ctor in ENUM_CTOR.items():
                if val in env["enums"][cty]:
                    v = (ctor, env["enums"][cty][val])
            if v is None:
                fail("guard value not understood: " + s)
        return {"kind": "is", "kw": kw, "val": v, "pos": not neg}

    def body_steps(self, stmts, env, guards):
        out = []
        for st in stmts:
            kind = st[0]
            if kind == "simple":
                toks = st[1]
                if toks and toks[0] == "throw":
                    fail("throw statement inside a method body not understood: " + J(toks))
                md = re.fullmatch(r"(?:const )?(IndexType|ScalarType) (\w+) = (.*static_cast.*)", J(toks))
                if md and "locals" in env and not any(t in env["cbnames"] for t in toks):
                    # a local variable that a later bound expression may use
                    try:
                        ex = Expr(md.group(3).split(), env["n_name"], env["kws"], env["locals"])
                        le = ex.parse()
                    except TranslateError:
                        ex = None
                    if ex is not None:
                        if md.group(1) == "IndexType" and le[0] not in ("BTrunc", "BInt", "BN", "BDim") \
                                and not (le[0] == "BParam" and le[2] == "TIndex"):
                            le = ("BTrunc", le)
                        env["locals"][md.group(2)] = (le, ex.convs)
                        for ck, cty in ex.convs:
                            out.append((list(guards), ("conv", ck, cty)))
                        continue
                sub = dict(env)
                sub["decl_type"] = None
                for g2, x in self.stmt_steps(toks, sub):
                    out.append((list(guards) + g2, x))
                    if x[0] == "eval" and x[1] in ("CbKernel", "CbDistance") and "seen" in env:
                        env["seen"][0] = True       # on this path a kernel/distance evaluation has happened
            elif kind == "block":
                out += self.body_steps(st[1], env, guards)
            elif kind == "if":
                g = self.guard_of(st[1], env)
                seen = env.get("seen", [False])
                saved = seen[0]
                if g is not None:
                    if g.get("conv"):
                        out.append((list(guards), ("conv", g["conv"][0], g["conv"][1])))
                    out += self.body_steps([st[2]], env, guards + [g])
                    seen[0] = saved                 # what happens inside a branch does not hold after it
                    if st[3] is not None:
                        ng = dict(g)
                        ng["pos"] = not g["pos"]
                        out += self.body_steps([st[3]], env, guards + [ng])
                        seen[0] = saved
                elif saved and self.after_evaluation_ok(st):
                    # C14 is about what happens BEFORE the first kernel/distance evaluation; a branch on the
                    # data (not a pure parameters[k].is(v) guard) that is reached only after one is outside
                    # it.  It must not check or throw; which callbacks it may call is property C13.
                    self.notes.append("%s: data-dependent branch after the first kernel/distance evaluation is "
                                      "outside C14 and not modelled: if ( %s )" % (env.get("where", "?"), J(st[1])[:100]))
                else:
                    inner = self.body_steps([st[2]] + ([st[3]] if st[3] is not None else []), env, guards)
                    seen[0] = saved
                    cond_steps = self.stmt_steps(st[1], dict(env, decl_type=None))
                    if inner or cond_steps:
                        fail("if statement with a condition that is not parameters[k].is(v) guards "
                             "parameter or callback uses: " + J(st[1]))
            elif kind == "loop":
                seen = env.get("seen", [False])
                saved = seen[0]
                for part in split_top(st[1], ";"):
                    for g2, x in self.stmt_steps(part, dict(env, decl_type=None)):
                        out.append((list(guards) + g2, x))
                out += self.body_steps([st[2]], env, guards)
                seen[0] = saved                     # the body of a loop may run zero times
            elif kind == "try":
                fail("try block inside a method body not understood")
            else:
                fail("statement kind " + kind)
        return out

    @staticmethod
    def after_evaluation_ok(st):
        """an if statement that neither checks a parameter nor throws nor returns"""
        def toks_of(x):
            if x is None:
                return []
            if x[0] == "simple":
                return list(x[1])
            if x[0] == "block":
                return [t for y in x[1] for t in toks_of(y)]
            if x[0] == "if":
                return list(x[1]) + toks_of(x[2]) + toks_of(x[3])
            if x[0] == "loop":
                return list(x[1]) + toks_of(x[2])
            return ["throw"]                        # try blocks and anything else: not understood
        ts = toks_of(st)
        return not any(t in ("checked", "satisfies", "orThrow", "throw", "return", "goto") for t in ts)

    # ---- base.hpp
    def base(self, kws, preds, enums):
        toks = self.T("tapkee/methods/base.hpp")
        params, init, body = function_body(toks, ["ImplementationBase", "(", "RandomAccessIterator"][:2], "ImplementationBase constructor")
        ps = J(params)
        m = re.fullmatch(r"RandomAccessIterator (\w+) , RandomAccessIterator (\w+) , KernelCallback (\w+) , DistanceCallback (\w+) , "
                         r"FeaturesCallback (\w+) , ParametersSet & (\w+) , const Context & (\w+)", ps)
        if not m:
            fail("ImplementationBase constructor: parameter list not understood: " + ps)
        b, e, k, d, f, pm, cx = m.groups()
        ins = J(init)
        for pat, what in [
            (r"parameters \( %s \)" % pm, "parameters(pmap)"),
            (r"context \( %s \)" % cx, "context(ctx)"),
            (r"\bkernel \( %s \)" % k, "kernel(k)"),
            (r"\bdistance \( %s \)" % d, "distance(d)"),
            (r"\bfeatures \( %s \)" % f, "features(f)"),
            (r"plain_distance \( PlainDistance < RandomAccessIterator , DistanceCallback > \( distance \) \)", "plain_distance(distance)"),
            (r"kernel_distance \( KernelDistance < RandomAccessIterator , KernelCallback > \( kernel \) \)", "kernel_distance(kernel)"),
            (r"begin \( %s \)" % b, "begin(b)"),
            (r"end \( %s \)" % e, "end(e)"),
        ]:
            if not re.search(pat, ins):
                fail("ImplementationBase constructor: member initialiser %s not found" % what)
        stages = []
        env = {"kws": kws, "preds": preds, "enums": enums, "n_name": "n_vectors", "helpers": {}, "cbnames": {}}
        have_n = False
        for st in parse_block(body):
            s = J(st[1]) if st[0] == "simple" else None
            if s is not None and re.fullmatch(r"n_vectors = \( ?end - begin ?\)|n_vectors = end - begin", s):
                have_n = True
                continue
            if st[0] == "if" and J(st[1]) == "n_vectors == 0" and st[2][0] == "simple" and \
                    J(st[2][1]) == "throw no_data_error ( )" and st[3] is None:
                if not have_n:
                    fail("base constructor: n_vectors tested before it is set")
                stages.append(("SNoData",))
                continue
            if s is not None and "parameters" in st[1]:
                steps = self.stmt_steps(st[1], dict(env, decl_type=None))
                for g2, x in steps:
                    if g2:
                        fail("base constructor: guarded step")
                    if x[0] == "check":
                        stages.append(("SCheck", x[1]))
                    elif x[0] == "conv":
                        stages.append(("SConv", x[1], x[2]))
                    else:
                        fail("base constructor: " + s)
                continue
            if st[0] == "if" and J(st[1]) == "! is_dummy < FeaturesCallback > :: value":
                t, el = st[2], st[3]
                if t[0] == "simple" and J(t[1]) == "current_dimension = features . dimension ( )" and \
                        el is not None and el[0] == "simple" and J(el[1]) == "current_dimension = 0":
                    stages.append(("SFeatDim",))
                    continue
            fail("base constructor: statement not understood: " + (s or st[0] + " " + J(st[1])))
        if not have_n:
            fail("base constructor: n_vectors = end - begin not found")
        # copy constructor must copy parameters / callbacks / n_vectors
        _, cinit, cbody = function_body(toks, ["ImplementationBase", "(", "const", "ImplementationBase"][:2], "ImplementationBase copy constructor", nth=1)
        ci = J(cinit)
        for fld in ("parameters", "context", "kernel", "distance", "features", "plain_distance", "kernel_distance", "begin", "end", "n_vectors"):
            if not re.search(r"\b%s \( other \. %s \)" % (fld, fld), ci):
                fail("ImplementationBase copy constructor does not copy " + fld)
        if parse_block(cbody):
            fail("ImplementationBase copy constructor has a body")
        # helpers
        helpers = {}
        p, _, hb = function_body(toks, ["find_neighbors_with", "("], "find_neighbors_with")
        m = re.fullmatch(r"Distance (\w+)", J(p))
        if not m:
            fail("find_neighbors_with: parameter list")
        helpers["find_neighbors_with"] = {"params": [("Distance", m.group(1))], "body": parse_block(hb)}
        p, _, hb = function_body(toks, ["eigendecomposition_via", "("], "eigendecomposition_via")
        pl = []
        for a in split_top(p):
            pl.append((J(a[:-1]).replace("const ", "").replace(" &", ""), a[-1]))
        helpers["eigendecomposition_via"] = {"params": pl, "body": parse_block(hb)}
        return stages, helpers

    # ---- context.hpp
    def context(self):
        s = J(self.T("tapkee/parameters/context.hpp"))
        m = re.search(r"Context \( void \( \* (\w+) \) \( double \) , bool \( \* (\w+) \) \( \) \) : progress_function \( (\w+) \) , cancel_function \( (\w+) \) \{ \}", s)
        if not m or m.group(1) != m.group(3) or m.group(2) != m.group(4):
            fail("Context constructor: shape not understood")
        if not re.search(r"bool is_cancelled \( \) const \{ if \( cancel_function \) return cancel_function \( \) ; return false ; \}", s):
            fail("Context::is_cancelled: shape not understood")
        return {"ctor_order": ["progress", "cancel"]}

    # ---- embed.hpp
    def embed(self, kws, base_stages, using_stages):
        toks = self.T("tapkee/embed.hpp")
        params, _, body = function_body(toks, ["TapkeeOutput", "embed", "("], "tapkee::embed")
        ps = J(params)
        m = re.fullmatch(r"RandomAccessIterator (\w+) , RandomAccessIterator (\w+) , KernelCallback (\w+) , DistanceCallback (\w+) , "
                         r"FeaturesCallback (\w+) , stichwort :: ParametersSet (\w+)", ps)
        if not m:
            fail("tapkee::embed: parameter list not understood: " + ps)
        b, e, kc, dc, fc, pn = m.groups()
        if pn != "parameters":
            fail("tapkee::embed: parameter set is not called `parameters`")
        stmts = parse_block(body)
        trys = [s for s in stmts if s[0] == "try"]
        if len(trys) != 1:
            fail("tapkee::embed: expected exactly one try block")
        for s in stmts:
            if s[0] == "try":
                continue
            js = J(s[1]) if s[0] == "simple" else ""
            if js in ("Eigen :: initParallel ( )", "TapkeeOutput output", "return output"):
                continue
            fail("tapkee::embed: statement outside the try block not understood: " + (js or s[0]))
        stages = []
        var_kw = {}
        ctx_args = None
        done = False
        for st in trys[0][1]:
            if done:
                fail("tapkee::embed: statement after the embedUsing call")
            if st[0] != "simple":
                fail("tapkee::embed: compound statement in the try block not understood")
            s = J(st[1])
            if s == "parameters . check ( )":
                stages.append(("SCheckDups",))
            elif re.fullmatch(r"parameters \. checkTypes \( tapkee_internal :: defaults \)", s):
                stages.append(("SCheckTypes",))
            elif re.fullmatch(r"parameters \. merge \( tapkee_internal :: defaults \)", s):
                stages.append(("SMerge",))
            elif s.startswith("parameters . visit ("):
                inner = s[len("parameters . visit ("):]
                if "throw" in inner or "parameters" in inner.split() or inner.count("Logging") != 1:
                    fail("tapkee::embed: parameters.visit(...) does more than logging")
            elif re.fullmatch(r"DimensionReductionMethod (\w+) = parameters \[ (\w+) \]", s):
                m = re.fullmatch(r"DimensionReductionMethod (\w+) = parameters \[ (\w+) \]", s)
                var_kw[m.group(1)] = m.group(2)
                stages.append(("SConv", m.group(2), "TMethod"))
            elif re.fullmatch(r"void \( \* (\w+) \) \( double \) = parameters \[ (\w+) \]", s):
                m = re.fullmatch(r"void \( \* (\w+) \) \( double \) = parameters \[ (\w+) \]", s)
                var_kw[m.group(1)] = m.group(2)
                stages.append(("SConv", m.group(2), "TProgress"))
            elif re.fullmatch(r"bool \( \* (\w+) \) \( \) = parameters \[ (\w+) \]", s):
                m = re.fullmatch(r"bool \( \* (\w+) \) \( \) = parameters \[ (\w+) \]", s)
                var_kw[m.group(1)] = m.group(2)
                stages.append(("SConv", m.group(2), "TCancel"))
            elif re.fullmatch(r"tapkee_internal :: Context (\w+) \( (\w+) , (\w+) \)", s):
                m = re.fullmatch(r"tapkee_internal :: Context (\w+) \( (\w+) , (\w+) \)", s)
                ctx_args = m.groups()
            elif re.fullmatch(r"Logging :: instance \( \) \. message_\w+ \( .* \)", s) and "parameters" not in st[1] and "throw" not in st[1]:
                pass
            elif s.startswith("output = tapkee_internal :: initialize ("):
                m = re.fullmatch(r"output = tapkee_internal :: initialize \( (\w+) , (\w+) , (\w+) , (\w+) , (\w+) , (\w+) , (\w+) \) \. embedUsing \( (\w+) \)", s)
                if not m:
                    fail("tapkee::embed: initialize(...).embedUsing(...) not understood: " + s)
                a = m.groups()
                if list(a[:6]) != [b, e, kc, dc, fc, "parameters"]:
                    fail("tapkee::embed: arguments of initialize are not (begin, end, kernel, distance, features, parameters): " + s)
                if ctx_args is None or a[6] != ctx_args[0]:
                    fail("tapkee::embed: the context passed to initialize is not the one built from the parameters")
                if a[7] not in var_kw:
                    fail("tapkee::embed: embedUsing argument does not come from parameters[...]")
                for k in (ctx_args[1], ctx_args[2]):
                    if k not in var_kw:
                        fail("tapkee::embed: Context argument %s does not come from parameters[...]" % k)
                method_kw = var_kw[a[7]]
                cancel_kw = var_kw[ctx_args[2]]
                if kws[cancel_kw]["type"] != "TCancel" or kws[var_kw[ctx_args[1]]]["type"] != "TProgress":
                    fail("tapkee::embed: Context arguments have unexpected keyword types")
                for x in base_stages:
                    stages.append(x)
                for x in using_stages:
                    if x[0] == "SCancel":
                        stages.append(("SCancel", cancel_kw))
                    elif x[0] == "SNeed":
                        stages.append(("SNeed", method_kw, x[1], x[2]))
                    elif x[0] == "SDispatch":
                        stages.append(("SDispatch", method_kw))
                    else:
                        fail("internal: embedUsing stage")
                done = True
            elif self.irrelevant(st[1], extra=(b, e, kc, dc, fc, "output", "context") + tuple(var_kw)):
                self.notes.append("tapkee::embed: statement ignored (touches nothing the property talks about): " + s[:80])
            else:
                fail("tapkee::embed: statement not understood: " + s)
        if not done:
            fail("tapkee::embed: no initialize(...).embedUsing(...) call")
        # initialize forwards its arguments in order
        mt = J(self.T("tapkee/methods.hpp"))
        if not re.search(r"initialize \( RandomAccessIterator begin , RandomAccessIterator end , KernelCallback kernel , DistanceCallback distance , "
                         r"FeaturesCallback features , stichwort :: ParametersSet & pmap , const Context & ctx \) \{ return DynamicImplementation < [^>]* > \( "
                         r"begin , end , kernel , distance , features , pmap , ctx \) ; \}", mt):
            fail("tapkee_internal::initialize: shape not understood")
        # catch table
        rethrow = []
        for decl, hb in trys[0][2]:
            d = J(decl)
            if len(hb) != 1 or hb[0][0] != "simple":
                fail("tapkee::embed: catch body not understood: " + d)
            t = J(hb[0][1])
            m = re.fullmatch(r"const stichwort :: (\w+) & (\w+)", d)
            if m:
                m2 = re.fullmatch(r"throw tapkee :: (\w+) \( %s \. what \( \) \)" % m.group(2), t)
                if not m2 or m.group(1) not in SW_EXC or m2.group(1) not in TK_EXC:
                    fail("tapkee::embed: catch clause not understood: %s { %s }" % (d, t))
                rethrow.append((SW_EXC[m.group(1)], TK_EXC[m2.group(1)]))
                continue
            if re.fullmatch(r"const std :: bad_alloc &( \w+)?", d) and re.fullmatch(r"throw tapkee :: not_enough_memory_error \( .* \)", t):
                continue
            fail("tapkee::embed: catch clause not understood: %s { %s }" % (d, t))
        # the stichwort exceptions must stay unrelated leaf classes, or the order of the clauses would matter
        sx = J(self.T("stichwort/exceptions.hpp"))
        for cls in SW_EXC:
            if not re.search(r"class %s : public std :: (logic_error|runtime_error) \{" % cls, sx):
                fail("stichwort::%s no longer derives directly from a std exception" % cls)
        return stages, rethrow

    @staticmethod
    def irrelevant(toks, extra=()):
        """a simple statement that cannot influence validation: no control transfer, no use of the
        parameters, the context, the callbacks, the data range or the named variables"""
        bad = {"throw", "return", "goto", "break", "continue", "parameters", "context", "this", "begin", "end",
               "kernel", "distance", "features", "exit", "abort", "terminate", "longjmp", "try", "catch",
               "while", "for", "do", "if", "switch", "n_vectors", "current_dimension"} | set(extra)
        return not any(t in bad for t in toks)

    # ---- methods.hpp embedUsing
    def embed_using(self, methods):
        toks = self.T("tapkee/methods.hpp")
        params, _, body = function_body(toks, ["TapkeeOutput", "embedUsing", "("], "embedUsing")
        m = re.fullmatch(r"const DimensionReductionMethod & (\w+)", J(params))
        if not m:
            fail("embedUsing: parameter list not understood")
        mv = m.group(1)
        stages, handled = [], []
        state = 0
        for st in parse_block(body):
            if st[0] == "simple":
                s = J(st[1])
                if re.fullmatch(r"timed_context \w+ \( .* \)", s) and "throw" not in st[1]:
                    continue
                if re.fullmatch(r"const auto & self = static_cast < ImplementationBase < [^>]* > > \( \* this \)", s):
                    continue
                if s == "return TapkeeOutput ( )":
                    continue
                if self.irrelevant(st[1], extra=(mv, "implementation", "self")):
                    self.notes.append("embedUsing: statement ignored (touches nothing the property talks about): " + s[:80])
                    continue
                fail("embedUsing: statement not understood: " + s)
            if st[0] != "if":
                fail("embedUsing: statement not understood: " + st[0])
            cond, then, els = J(st[1]), st[2], st[3]
            if els is not None:
                fail("embedUsing: if/else not understood: " + cond)
            body_st = then[1] if then[0] == "block" else [then]
            if cond == "this -> context . is_cancelled ( )":
                if len(body_st) != 1 or J(body_st[0][1]) != "throw cancelled_exception ( )":
                    fail("embedUsing: cancel branch not understood")
                if handled:
                    fail("embedUsing: cancel test after a handler")
                stages.append(("SCancel",))
                continue
            m = re.fullmatch(r"%s \. (needs_\w+) && is_dummy < (\w+) > :: value" % mv, cond)
            if m:
                if m.group(1) not in CB_OF_TRAIT or m.group(2) not in CB_OF_TPARAM:
                    fail("embedUsing: callback test not understood: " + cond)
                if len(body_st) != 1 or not re.fullmatch(r"throw unsupported_method_error \( .* \)", J(body_st[0][1])):
                    fail("embedUsing: callback test branch not understood")
                if handled:
                    fail("embedUsing: callback test after a handler")
                stages.append(("SNeed", CB_OF_TRAIT[m.group(1)], CB_OF_TPARAM[m.group(2)]))
                continue
            m = re.fullmatch(r"%s == (\w+)" % mv, cond)
            if m:
                x = m.group(1)
                if x not in methods:
                    fail("embedUsing: handler for undeclared method " + x)
                b = [J(q[1]) if q[0] == "simple" else "?" for q in body_st]
                ok = (len(b) == 3 and
                      re.fullmatch(r"auto implementation = %sImplementation < RandomAccessIterator , KernelCallback , DistanceCallback , FeaturesCallback > \( self \)" % x, b[0]) and
                      b[1] == "implementation . validate ( )" and b[2] == "return implementation . embed ( )")
                if not ok:
                    fail("embedUsing: handler of %s not understood: %s" % (x, " ; ".join(b)))
                if not handled:
                    stages.append(("SDispatch",))
                handled.append(x)
                continue
            fail("embedUsing: condition not understood: " + cond)
        if len(set(handled)) != len(handled):
            self.notes.append("a method has two handlers (the first wins)")
        return stages, handled

    # ---- methods/*.hpp
    def method_bodies(self, kws, preds, enums, methods, helpers):
        out = {}
        srcs = [k for k in self.files if k.startswith("tapkee/methods/") and k != "tapkee/methods/base.hpp"]
        for rel in sorted(srcs):
            toks = self.T(rel)
            i = 0
            while True:
                # class XImplementation : public ImplementationBase<...> {
                j = -1
                for q in range(i, len(toks) - 1):
                    if toks[q] == "class" and toks[q + 1].endswith("Implementation") and toks[q + 1] != "ImplementationBase" \
                            and toks[q + 2] == ":":
                        j = q
                        break
                if j < 0:
                    break
                name = toks[j + 1][:-len("Implementation")]
                b = toks.index("{", j)
                e = match_close(toks, b)
                cls = toks[b + 1:e]
                i = e
                if name == "Dynamic":
                    continue
                if name not in methods:
                    fail("implementation class for undeclared method " + name)
                if name in out:
                    fail("two implementation classes for " + name)
                env = {"kws": kws, "preds": preds, "enums": enums, "n_name": "n_vectors",
                       "helpers": helpers, "cbnames": dict(CB_MEMBERS)}
                _, _, vb = function_body(cls, ["void", "validate", "("], name + "::validate")
                _, _, eb = function_body(cls, ["TapkeeOutput", "embed", "("], name + "::embed")
                v = self.body_steps(parse_block(vb), dict(env, locals={}, seen=[False], where=name + "::validate"), [])
                em = self.body_steps(parse_block(eb), dict(env, locals={}, seen=[False], where=name + "::embed"), [])
                # nothing else in the class may touch parameters
                rest = J(cls)
                if rest.count("parameters [") != J(vb).count("parameters [") + J(eb).count("parameters ["):
                    fail(name + "Implementation uses parameters outside validate()/embed()")
                out[name] = (v, em)
        for mname in methods:
            if mname not in out:
                fail("no implementation class for method " + mname)
        return out

    # ---- stichwort/parameter.hpp: the members that build / check / merge / read the set
    def container(self):
        toks = self.T("stichwort/parameter.hpp")
        # class ParametersSet { ... }  (not the forward declaration)
        ci = -1
        for q in range(len(toks) - 2):
            if toks[q] == "class" and toks[q + 1] == "ParametersSet" and toks[q + 2] == "{":
                ci = q
                break
        if ci < 0:
            fail("parameter.hpp: class ParametersSet not found")
        ce = match_close(toks, ci + 2)
        cls = toks[ci + 3:ce]
        cs = J(cls)
        if not re.search(r"typedef std :: map < std :: string , Parameter > ParametersMap ;", cs):
            fail("ParametersSet: pmap is no longer a std::map<std::string, Parameter>")
        if not re.search(r"typedef std :: list < std :: string > DuplicatesList ;", cs):
            fail("ParametersSet: dups is no longer a std::list<std::string>")
        if not re.search(r"private : ParametersMap pmap ; DuplicatesList dups ;", cs):
            fail("ParametersSet: data members are not `ParametersMap pmap; DuplicatesList dups;`")
        if not re.search(r"ParametersSet \( \) : pmap \( \) , dups \( \) \{ \}", cs):
            fail("ParametersSet(): shape not understood")
        # wave 4: the copy constructor and operator= are TRANSLATED (which members they transfer), in the shapes they
        # reasonably take: member-wise, `= default`, implicitly declared, copy-and-swap
        copying = self.copying(cls)

        def member(head, what, plist_re):
            params, init, body = function_body(cls, head, what)
            m = re.fullmatch(plist_re, J(params))
            if not m or init not in ([], ["const"]):
                fail("%s: signature not understood: ( %s ) %s" % (what, J(params), J(init)))
            return m.groups(), parse_block(body)

        out = {"copying": copying}
        _, b = member(["void", "check", "("], "ParametersSet::check", r"")
        out["check"] = self.cbody(b, {"what": "check"})
        if find_seq(cls, ["void", "checkTypes", "("]) < 0:
            # the tree before repair F27: no up-front type test at all
            out["check_types"] = ("CsSkip",)
            self.notes.append("ParametersSet::checkTypes does not exist in this tree")
        else:
            (ref,), b = member(["void", "checkTypes", "("], "ParametersSet::checkTypes", r"const ParametersSet & (\w+)")
            out["check_types"] = self.cbody(b, {"what": "checkTypes", "argset": ref})
        (pn,), b = member(["void", "add", "("], "ParametersSet::add", r"const Parameter & (\w+)")
        out["add"] = self.cbody(b, {"what": "add", "param": pn})
        (pg,), b = member(["void", "merge", "("], "ParametersSet::merge", r"const ParametersSet & (\w+)")
        out["merge"] = self.cbody(b, {"what": "merge", "argset": pg})
        (nm,), b = member(["Parameter", "operator", "[", "]", "("], "ParametersSet::operator[]", r"const std :: string & (\w+)")
        out["index"] = self.cbody(b, {"what": "operator[]", "name": nm})
        # ParametersSet& operator,(const Parameter& p) { add(p); return *this; }
        (pn,), b = member(["ParametersSet", "&", "operator", ",", "("], "ParametersSet::operator,", r"const Parameter & (\w+)")
        calls, ret = [], False
        for st in b:
            js = J(st[1]) if st[0] == "simple" else st[0]
            if ret:
                fail("ParametersSet::operator,: statement after return")
            if js == "add ( %s )" % pn or js == "this -> add ( %s )" % pn:
                calls.append(("CallAdd", "AParam"))
            elif js == "return * this":
                ret = True
            else:
                fail("ParametersSet::operator,: statement not understood: " + js)
        if not ret:
            fail("ParametersSet::operator,: does not return *this")
        out["comma_set"] = calls
        # the two members of Parameter that are defined after ParametersSet
        rest = toks[ce:]
        (pn,), b = (lambda r: (re.fullmatch(r"const Parameter & (\w+)", J(r[0])).groups(), parse_block(r[2])))(
            function_body(rest, ["ParametersSet", "Parameter", "::", "operator", ",", "("], "Parameter::operator,"))
        out["comma_param"] = self.cmake(b, pn, "Parameter::operator,")
        r = function_body(rest, ["Parameter", "::", "operator", "ParametersSet", "("], "Parameter::operator ParametersSet")
        if r[0]:
            fail("Parameter::operator ParametersSet: takes arguments")
        out["to_set"] = self.cmake(parse_block(r[2]), None, "Parameter::operator ParametersSet")
        # hasSameTypeAs / name() of Parameter, the policy identity of ValueKeeper
        ps = J(toks[:ci])
        vk = J(self.T("stichwort/value_keeper.hpp"))
        po = J(self.T("stichwort/policy.hpp"))
        for text, pat, what in [
            (ps, r"bool hasSameTypeAs \( const Parameter & (\w+) \) const \{ return keeper \. hasSameTypeAs \( \1 \. keeper \) ; \}", "Parameter::hasSameTypeAs"),
            (ps, r"ParameterName name \( \) const \{ return parameter_name ; \}", "Parameter::name"),
            (vk, r"bool hasSameTypeAs \( const ValueKeeper & (\w+) \) const \{ return policy == \1 \. policy ; \}", "ValueKeeper::hasSameTypeAs"),
            (vk, r"template < typename T > inline bool isTypeCorrect \( \) const \{ return getPolicy < T > \( \) == policy ; \}", "ValueKeeper::isTypeCorrect"),
            (vk, r"bool isInitialized \( \) const \{ return getPolicy < EmptyType > \( \) != policy ; \}", "ValueKeeper::isInitialized"),
            (vk, r"template < typename T > explicit ValueKeeper \( const T & value \) : policy \( getPolicy < T > \( \) \)", "ValueKeeper(const T&)"),
            (vk, r"ValueKeeper \( const ValueKeeper & (\w+) \) : policy \( \1 \. policy \)", "ValueKeeper copy constructor"),
            (vk, r"ValueKeeper & operator = \( const ValueKeeper & (\w+) \) \{ policy -> free \( & value_ptr \) ; policy = \1 \. policy ; "
                 r"policy -> clone \( & \( \1 \. value_ptr \) , & value_ptr \) ; return \* this ; \}", "ValueKeeper::operator="),
            (vk, r"template < typename T > inline T getValue \( \) const \{ T \* v ; if \( ! isInitialized \( \) \) throw missed_parameter_error \( [^;]* \) ; "
                 r"if \( isTypeCorrect < T > \( \) \) \{ [^{}]* \} else throw wrong_parameter_type_error \( [^;]* \) ; return \* v ; \}", "ValueKeeper::getValue"),
            (po, r"template < typename T > TypePolicyBase \* getPolicy \( \) \{ static PointerTypePolicyImpl < T > policy ; return & policy ; \}", "getPolicy<T>"),
            # conversion and checked().satisfies().orThrow(): missed, then wrong type, then the predicate, then wrong value
            (ps, r"template < typename T > (?:inline )?operator T \( \) \{ throwIfInvalid \( \) ; try \{ return getValue < T > \( \) ; \} "
                 r"catch \( const missed_parameter_error & \) \{ throw missed_parameter_error \( [^;]* \) ; \} \}", "Parameter::operator T"),
            (ps, r"void throwIfInvalid \( \) \{ if \( ! valid \) \{ throw wrong_parameter_error \( invalidity_reasons \) ; \} \}", "Parameter::throwIfInvalid"),
            (ps, r"template < typename T > bool is \( T v \) \{ if \( ! isTypeCorrect < T > \( \) \) return false ; T kv = keeper \. getValue < T > \( \) ; "
                 r"if \( v == kv \) return true ; return false ; \}", "Parameter::is"),
            (ps, r"(?:inline )?bool isCondition \( F < Q > cond \) const \{ return keeper \. isCondition \( cond \) ; \}", "Parameter::isCondition"),
            (ps, r"(?:inline )?void invalidate \( const std :: string & (\w+) \) \{ valid = false ; invalidity_reasons \+= \1 ; \}", "Parameter::invalidate"),
            (ps, r"template < typename T > (?:inline )?T getValue \( \) const \{ return keeper \. getValue < T > \( \) ; \}", "Parameter::getValue"),
            (ps, r"template < typename T > (?:inline )?bool isTypeCorrect \( \) const \{ return keeper \. isTypeCorrect < T > \( \) ; \}", "Parameter::isTypeCorrect"),
            (ps, r"explicit CheckedParameter \( Parameter & (\w+) \) : parameter \( \1 \) \{ \}", "CheckedParameter(Parameter&)"),
            (ps, r"(?:inline )?const CheckedParameter & satisfies \( const F < Q > & cond \) const \{ if \( ! parameter \. isCondition \( cond \) \) "
                 r"parameter \. invalidate \( cond \. failureMessage \( parameter \) \) ; return \* this ; \}", "CheckedParameter::satisfies"),
            (ps, r"void orThrow \( \) const \{ parameter \. throwIfInvalid \( \) ; \}", "CheckedParameter::orThrow"),
            (ps, r"private : Parameter & parameter ; \}", "CheckedParameter::parameter"),
            (ps, r"(?:inline )?CheckedParameter Parameter :: checked \( \) \{ return CheckedParameter \( \* this \) ; \}", "Parameter::checked"),
            (vk, r"(?:inline )?bool isCondition \( F < Q > cond \) const \{ Q value = getValue < Q > \( \) ; return cond \( value \) ; \}", "ValueKeeper::isCondition"),
        ]:
            if what.endswith("hasSameTypeAs") and out["check_types"] == ("CsSkip",):
                continue                    # the tree before repair F27 has neither checkTypes nor hasSameTypeAs
            if not re.search(pat, text):
                fail("%s: shape not understood (the model takes one policy object per C++ type as the type identity)" % what)
        return out

    FIELDS = {"pmap": "FMap", "dups": "FDups"}

    def copying(self, cls):
        """the copy constructor and operator= of ParametersSet -> {"ctor": [fields], "assign": (kind, [fields])}
        (Validate_Model.copying): which of the two members each of them transfers"""
        F = self.FIELDS
        cs = J(cls)
        if "&&" in [t for i, t in enumerate(cls) if cls[i - 1:i] == ["ParametersSet"]]:
            fail("ParametersSet: move constructor / move assignment: shape not understood")

        def order(fs):
            return [f for f in ("FMap", "FDups") if f in fs]
        # ---- copy constructor
        ctor = None
        if re.search(r"ParametersSet \( const ParametersSet & \w* ?\) = default ;", cs):
            ctor = ["FMap", "FDups"]
        elif re.search(r"ParametersSet \( const ParametersSet & \w* ?\) = delete ;", cs):
            fail("ParametersSet copy constructor is deleted")
        else:
            pos = -1
            for q in range(len(cls) - 5):
                if cls[q:q + 5] == ["ParametersSet", "(", "const", "ParametersSet", "&"] and (q == 0 or cls[q - 1] != "operator"):
                    e = match_close(cls, q + 1)
                    if e == q + 6 and re.fullmatch(r"\w+", cls[q + 5]):
                        pos = q
                        break
            if pos < 0:
                if re.search(r"ParametersSet \( (?:const )?ParametersSet", cs):
                    fail("ParametersSet copy constructor: shape not understood")
                ctor = ["FMap", "FDups"]
                self.notes.append("ParametersSet has no user-declared copy constructor (implicit: member-wise)")
            else:
                o = cls[pos + 5]
                k = pos + 7
                got = set()
                if cls[k] == ":":
                    k += 1
                    while cls[k] != "{":
                        name = cls[k]
                        if name not in F or cls[k + 1] not in ("(", "{"):
                            fail("ParametersSet copy constructor: initialiser not understood: " + J(cls[k:k + 8]))
                        e = match_close(cls, k + 1)
                        arg = J(cls[k + 2:e])
                        if arg == "%s . %s" % (o, name):
                            got.add(F[name])
                        elif arg != "":
                            fail("ParametersSet copy constructor: %s initialised from %s" % (name, arg))
                        k = e + 1
                        if cls[k] == ",":
                            k += 1
                        elif cls[k] != "{":
                            fail("ParametersSet copy constructor: shape not understood")
                if cls[k] != "{":
                    fail("ParametersSet copy constructor: shape not understood")
                e = match_close(cls, k)
                for st in parse_block(cls[k + 1:e]):
                    js = J(st[1]) if st[0] == "simple" else st[0]
                    m = re.fullmatch(r"(?:this -> )?(pmap|dups) = %s \. (pmap|dups)" % re.escape(o), js)
                    if m and m.group(1) == m.group(2):
                        got.add(F[m.group(1)])
                    elif st[0] == "simple" and self.c_irrelevant(st[1]):
                        continue
                    else:
                        fail("ParametersSet copy constructor: statement not understood: " + js)
                ctor = order(got)
        # ---- operator=
        assign = None
        if re.search(r"ParametersSet & operator = \( const ParametersSet & \w* ?\) = default ;", cs):
            assign = ("AsFields", ["FMap", "FDups"])
        elif re.search(r"operator = \( [^)]* \) = delete ;", cs):
            fail("ParametersSet::operator= is deleted")
        elif find_seq(cls, ["operator", "=", "("]) < 0:
            assign = ("AsFields", ["FMap", "FDups"])
            self.notes.append("ParametersSet has no user-declared operator= (implicit: member-wise)")
        else:
            if len([1 for q in range(len(cls) - 2) if cls[q:q + 3] == ["operator", "=", "("]]) != 1:
                fail("ParametersSet::operator=: more than one overload: shape not understood")
            params, init, body = function_body(cls, ["ParametersSet", "&", "operator", "=", "("], "ParametersSet::operator=")
            if init:
                fail("ParametersSet::operator=: shape not understood")
            ps = J(params)
            m1 = re.fullmatch(r"const ParametersSet & (\w+)", ps)
            m2 = re.fullmatch(r"ParametersSet (\w+)", ps)
            if not (m1 or m2):
                fail("ParametersSet::operator=: parameter not understood: " + ps)
            o = (m1 or m2).group(1)
            by_value = bool(m2)
            stmts = parse_block(body)
            # if (this != &o) { ... }  /  if (this == &o) return *this;
            flat = []
            for st in stmts:
                if st[0] == "if" and J(st[1]) in ("this != & %s" % o, "& %s != this" % o) and st[3] is None:
                    inner = st[2]
                    flat += inner[1] if inner[0] == "block" else [inner]
                elif st[0] == "if" and J(st[1]) in ("this == & %s" % o, "& %s == this" % o) and st[3] is None and \
                        st[2][0] == "simple" and J(st[2][1]) == "return * this":
                    continue
                else:
                    flat.append(st)
            got, tmp, ret = set(), None, False
            for st in flat:
                js = J(st[1]) if st[0] == "simple" else st[0]
                if ret:
                    fail("ParametersSet::operator=: statement after return")
                if js == "return * this":
                    ret = True
                    continue
                if js == "using std :: swap":
                    continue
                m = re.fullmatch(r"(?:const )?ParametersSet (\w+) (?:\( %s \)|= %s|\{ %s \})" % ((re.escape(o),) * 3), js)
                if m and tmp is None and not by_value and not got:
                    tmp = m.group(1)              # the copy is made inside: same thing as taking the argument by value
                    continue
                src = tmp if tmp is not None else o
                m = re.fullmatch(r"(?:this -> )?(pmap|dups) = (?:std :: move \( )?%s \. (pmap|dups)(?: \))?" % re.escape(src), js)
                if m and m.group(1) == m.group(2):
                    got.add(F[m.group(1)])
                    continue
                if by_value or tmp is not None:
                    m = re.fullmatch(r"(?:this -> )?(pmap|dups) \. swap \( %s \. (pmap|dups) \)" % re.escape(src), js) or \
                        re.fullmatch(r"(?:std :: )?swap \( (?:this -> )?(pmap|dups) , %s \. (pmap|dups) \)" % re.escape(src), js)
                    if m and m.group(1) == m.group(2):
                        got.add(F[m.group(1)])
                        continue
                    m = re.fullmatch(r"%s \. (pmap|dups) \. swap \( (?:this -> )?(pmap|dups) \)" % re.escape(src), js) or \
                        re.fullmatch(r"(?:std :: )?swap \( %s \. (pmap|dups) , (?:this -> )?(pmap|dups) \)" % re.escape(src), js)
                    if m and m.group(1) == m.group(2):
                        got.add(F[m.group(1)])
                        continue
                if st[0] == "simple" and self.c_irrelevant(st[1]):
                    continue
                fail("ParametersSet::operator=: statement not understood: " + js)
            if not ret:
                fail("ParametersSet::operator=: does not return *this")
            assign = ("AsCopySwap" if (by_value or tmp is not None) else "AsFields", order(got))
        return {"ctor": ctor, "assign": [assign[0], list(assign[1])]}

    def cmake(self, stmts, pn, what):
        """ParametersSet pg; pg.add(*this); pg.add(p); return pg;  -> (init, [calls])"""
        init, var, calls, ret = None, None, [], False
        for st in stmts:
            js = J(st[1]) if st[0] == "simple" else st[0]
            if ret:
                fail(what + ": statement after return")
            m = re.fullmatch(r"ParametersSet (\w+)", js)
            if m and var is None:
                init, var = "InitEmpty", m.group(1)
                continue
            m = re.fullmatch(r"ParametersSet (\w+) = \* this|ParametersSet (\w+) \( \* this \)", js)
            if m and var is None:
                init, var = "InitThis", m.group(1) or m.group(2)
                continue
            if var is None:
                fail(what + ": statement not understood: " + js)

            def arg(a):
                if a == "* this":
                    return "AThis"
                if pn is not None and a in (pn, "Parameter ( %s )" % pn):
                    return "AParam"
                fail(what + ": argument not understood: " + a)
            m = re.fullmatch(r"%s \. add \( (.*) \)" % var, js)
            if m:
                calls.append(("CallAdd", arg(m.group(1))))
                continue
            m = re.fullmatch(r"%s \. merge \( (.*) \)" % var, js)
            if m:
                calls.append(("CallMergeSetOf", arg(m.group(1))))
                continue
            if js == "return " + var:
                ret = True
                continue
            fail(what + ": statement not understood: " + js)
        if not ret or init is None:
            fail(what + ": does not build and return a ParametersSet")
        return (init, calls)

    @staticmethod
    def c_irrelevant(toks):
        """a statement that neither reads nor writes the map, writes the duplicate list, or leaves"""
        bad = {"pmap", "throw", "return", "add", "merge", "this", "push_back", "push_front", "clear", "erase",
               "insert", "emplace", "swap", "pop_back", "pop_front", "remove", "exit", "abort", "goto", "break",
               "continue", "check", "checkTypes"}
        if any(t in bad for t in toks):
            return False
        for i, t in enumerate(toks):
            if t == "dups" and toks[i + 1:i + 4] not in ([".", "begin", "("], [".", "end", "("], [".", "empty", "("],
                                                         [".", "size", "("], [".", "cbegin", "("], [".", "cend", "("]):
                return False
        return True

    def ccond(self, toks, cx):
        parts = split_top(toks, "&&")
        if len(parts) > 1:
            e = self.ccond(parts[-1], cx)
            for part in reversed(parts[:-1]):
                e = ("CcAnd", self.ccond(part, cx), e)
            return e
        if "||" in toks:
            fail("%s: condition with || not understood: %s" % (cx["what"], J(toks)))
        while toks and toks[0] == "(" and match_close(toks, 0) == len(toks) - 1:
            toks = toks[1:-1]
            return self.ccond(toks, cx)
        if toks[:1] == ["!"]:
            return ("CcNot", self.ccond(toks[1:], cx))
        s = J(toks)
        if s == "dups . empty ( )":
            return ("CcDupsEmpty",)

        def key(ks):
            if cx.get("param") and ks == "%s . name ( )" % cx["param"]:
                return "KParam"
            if cx.get("name") and ks == cx["name"]:
                return "KParam"
            if cx.get("each") and ks == "%s . first" % cx["each"][0]:
                return "KEach"
            fail("%s: key expression not understood: %s" % (cx["what"], ks))
        m = re.fullmatch(r"(?:(\w+) \. )?pmap \. count \( (.*?) \)( > 0| != 0)?", s)
        if m:
            who = "WThis" if m.group(1) is None else ("WArg" if m.group(1) == cx.get("argset") else None)
            if who is None:
                fail("%s: condition not understood: %s" % (cx["what"], s))
            return ("CcHas", who, key(m.group(2)))
        m = re.fullmatch(r"(\w+) (!=|==) (?:(\w+) \. )?pmap \. end \( \)", s)
        if m and m.group(1) in cx.get("iters", {}):
            who, k = cx["iters"][m.group(1)]
            w2 = "WThis" if m.group(3) is None else ("WArg" if m.group(3) == cx.get("argset") else None)
            if w2 != who:
                fail("%s: iterator compared with the end of another map: %s" % (cx["what"], s))
            e = ("CcHas", who, k)
            return e if m.group(2) == "!=" else ("CcNot", e)
        m = re.fullmatch(r"(\w+) \. second \. hasSameTypeAs \( (\w+) -> second \)", s)
        if m and cx.get("each") and m.group(1) == cx["each"][0] and cx["each"][1] == "WThis" and \
                cx.get("iters", {}).get(m.group(2)) == ("WArg", "KEach"):
            return ("CcSameType",)
        fail("%s: condition not understood: %s" % (cx["what"], s))

    def cbody(self, stmts, cx):
        """statements of a ParametersSet member -> cstmt tree (nested tuples)"""
        cx = dict(cx)
        cx.setdefault("iters", {})
        out = []
        for st in stmts:
            kind = st[0]
            if kind == "block":
                out.append(self.cbody(st[1], cx))
            elif kind == "if":
                c = self.ccond(st[1], cx)
                t = self.cbody([st[2]], cx)
                e = self.cbody([st[3]], cx) if st[3] is not None else ("CsSkip",)
                out.append(("CsIf", c, t, e))
            elif kind == "loop":
                head = J(st[1])
                m = re.fullmatch(r"(?:const )?auto (?:& )?(\w+) : (?:(\w+) \. )?pmap", head)
                if m:
                    who = "WThis" if m.group(2) is None else ("WArg" if m.group(2) == cx.get("argset") else None)
                    if who is None or cx.get("each"):
                        fail("%s: loop not understood: %s" % (cx["what"], head))
                    sub = dict(cx, each=(m.group(1), who), iters=dict(cx["iters"]))
                    out.append(("CsForEach", who, self.cbody([st[2]], sub)))
                elif self.c_irrelevant(st[1]) and self.c_irrelevant_stmt(st[2]):
                    pass
                else:
                    fail("%s: loop not understood: %s" % (cx["what"], head))
            elif kind == "simple":
                toks = st[1]
                s = J(toks)
                m = re.fullmatch(r"throw (\w+) \( .* \)", s)
                if m:
                    if m.group(1) not in SW_EXC:
                        fail("%s: throws %s" % (cx["what"], m.group(1)))
                    out.append(("CsThrow", SW_EXC[m.group(1)]))
                    continue
                if s == "return":
                    out.append(("CsReturn",))
                    continue
                if cx.get("param") and s == "dups . push_back ( %s . name ( ) )" % cx["param"]:
                    out.append(("CsPushDup", "KParam"))
                    continue
                if cx.get("param") and s == "pmap [ %s . name ( ) ] = %s" % (cx["param"], cx["param"]):
                    out.append(("CsAssign", "KParam"))
                    continue
                if cx.get("each") and s == "pmap [ %s . first ] = %s . second" % (cx["each"][0], cx["each"][0]):
                    out.append(("CsAssign", "KEach"))
                    continue
                m = re.fullmatch(r"ParametersMap :: const_iterator (\w+) = (?:(\w+) \. )?pmap \. find \( (.*) \)", s)
                if m:
                    who = "WThis" if m.group(2) is None else ("WArg" if m.group(2) == cx.get("argset") else None)
                    ks = m.group(3)
                    if cx.get("each") and ks == "%s . first" % cx["each"][0]:
                        k = "KEach"
                    elif cx.get("name") and ks == cx["name"]:
                        k = "KParam"
                    else:
                        k = None
                    if who is None or k is None:
                        fail("%s: find not understood: %s" % (cx["what"], s))
                    cx["iters"][m.group(1)] = (who, k)
                    continue
                m = re.fullmatch(r"return (\w+) -> second", s)
                if m and cx["iters"].get(m.group(1)) == ("WThis", "KParam"):
                    out.append(("CsReturnFound", "KParam"))
                    continue
                if self.c_irrelevant(toks):
                    continue
                fail("%s: statement not understood: %s" % (cx["what"], s))
            else:
                fail("%s: statement kind %s not understood" % (cx["what"], kind))
        if not out:
            return ("CsSkip",)
        e = out[-1]
        for x in reversed(out[:-1]):
            e = ("CsSeq", x, e)
        return e

    def c_irrelevant_stmt(self, st):
        if st is None:
            return True
        if st[0] == "simple":
            return self.c_irrelevant(st[1])
        if st[0] == "block":
            return all(self.c_irrelevant_stmt(x) for x in st[1])
        return False

    # ---- everything
    def run(self):
        kws = self.keywords()
        methods, enums, aliases = self.methods_decl()
        for k in kws.values():
            k["default"] = self.default_value(k, methods, enums, aliases)
        dflt = self.defaults(kws)
        preds = self.predicates()
        base_stages, helpers = self.base(kws, preds, enums)
        self.context()
        using_stages, handled = self.embed_using(methods)
        stages, rethrow = self.embed(kws, base_stages, using_stages)
        bodies = self.method_bodies(kws, preds, enums, methods, helpers)
        # stichwort container: the walker of Validate_Model.v has its own add / check / merge / lookup;
        # the bodies are emitted as gen_container and proved equal to them (Validate_Proof_Bodies.v)
        cont = self.container()
        return {"container": cont, "kws": kws, "methods": methods, "enums": enums, "defaults": dflt, "preds": preds,
                "stages": stages, "rethrow": rethrow, "handled": handled, "bodies": bodies,
                "notes": self.notes}


# ----------------------------------------------------------------------------- Coq output
def coq_value(v):
    k, x = v
    if k == "VIndex":
        return "(VIndex %s)" % coq_Z(x)
    if k == "VScalar":
        return "(VScalar %s)" % coq_Q(x)
    if k == "VBool":
        return "(VBool %s)" % ("true" if x else "false")
    if k == "VProgress":
        return "(VProgress %s)" % ("true" if x else "false")
    if k == "VCancel":
        return "(VCancel None)" if x is None else "(VCancel (Some %s))" % ("true" if x else "false")
    return "(%s %d)" % (k, x)


def coq_bound(b):
    if b is None:
        return "None"
    return "(Some (%s, %s))" % ("true" if b[0] else "false", coq_bexpr(b[1]))


def coq_check(c, kws):
    return "{| c_kw := %d; c_ty := %s; c_pred := {| p_lo := %s; p_hi := %s |} |}" % (
        kws[c["kw"]]["id"], c["ty"], coq_bound(c["lo"]), coq_bound(c["hi"]))


def coq_step(st, kws):
    guards, x = st
    def cg(g):
        if g["kind"] == "gt":
            return "GGt %d %s %s %s" % (kws[g["kw"]]["id"], g["ty"], coq_Q(g["q"]), "true" if g["pos"] else "false")
        return "GIs %d %s %s" % (kws[g["kw"]]["id"], coq_value(g["val"]), "true" if g["pos"] else "false")
    gs = "[" + "; ".join(cg(g) for g in guards) + "]"
    if x[0] == "conv":
        b = "BConv %d %s" % (kws[x[1]]["id"], x[2])
    elif x[0] == "check":
        b = "BCheck " + coq_check(x[1], kws)
    else:
        b = "BEval " + x[1]
    return "(%s, %s)" % (gs, b)


def coq_stage(s, kws):
    if s[0] in ("SCheckDups", "SCheckTypes", "SMerge", "SNoData", "SFeatDim"):
        return s[0]
    if s[0] == "SConv":
        return "SConv %d %s" % (kws[s[1]]["id"], s[2])
    if s[0] == "SCheck":
        return "SCheck " + coq_check(s[1], kws)
    if s[0] == "SCancel":
        return "SCancel %d" % kws[s[1]]["id"]
    if s[0] == "SNeed":
        return "SNeed %d %s %s" % (kws[s[1]]["id"], s[2], s[3])
    if s[0] == "SDispatch":
        return "SDispatch %d" % kws[s[1]]["id"]
    fail("internal: stage " + str(s))


def emit_coq(t):
    kws, methods = t["kws"], t["methods"]
    L = []
    L.append("(* GENERATED by translate/t_val.py from the C++ working tree -- do not edit.")
    L.append("   Tables of property C14: see Validate_Model.v for their meaning. *)")
    L.append("From Coq Require Import ZArith QArith List Bool.")
    L.append("Import ListNotations.")
    L.append("From TK Require Import Validate_Model.")
    L.append("Local Open Scope nat_scope.")
    L.append("")
    byid = sorted(kws.values(), key=lambda k: k["id"])
    L.append("(* keyword ids: " + ", ".join("%d %s" % (k["id"], k["ident"]) for k in byid) + " *)")
    L.append("Definition gen_kwtypes : list (kwid * vtype) :=")
    L.append("  [" + "; ".join("(%d, %s)" % (k["id"], k["type"]) for k in byid) + "].")
    L.append("")
    L.append("Definition gen_defaults : pmap :=")
    ds = sorted((kws[d] for d in t["defaults"]), key=lambda k: k["id"])
    L.append("  [" + ";\n   ".join("(%d, %s)" % (k["id"], coq_value(k["default"])) for k in ds) + "].")
    L.append("")
    L.append("Definition gen_stages : list stage :=")
    L.append("  [" + ";\n   ".join(coq_stage(s, kws) for s in t["stages"]) + "].")
    L.append("")
    ms = sorted(methods.values(), key=lambda m: m["id"])
    L.append("(* method ids: " + ", ".join("%d %s" % (m["id"], m["ident"]) for m in ms) + " *)")
    for m in ms:
        v, e = t["bodies"][m["ident"]]
        L.append("Definition gen_m%d : method_info := (* %s *)" % (m["id"], m["ident"]))
        L.append("  {| m_id := %d;" % m["id"])
        L.append("     m_needs_kernel := %s; m_needs_distance := %s; m_needs_features := %s;" % tuple(
            "true" if m["traits"][f] else "false" for f in ("needs_kernel", "needs_distance", "needs_features")))
        L.append("     m_handled := %s;" % ("true" if m["ident"] in t["handled"] else "false"))
        L.append("     m_validate := [" + ";\n       ".join(coq_step(s, kws) for s in v) + "];")
        L.append("     m_embed := [" + ";\n       ".join(coq_step(s, kws) for s in e) + "] |}.")
        L.append("")
    L.append("Definition gen_methods : list method_info :=")
    L.append("  [" + "; ".join("gen_m%d" % m["id"] for m in ms) + "].")
    L.append("")
    L.append("Definition gen_rethrow : list (sw_exc * exc) :=")
    L.append("  [" + "; ".join("(%s, %s)" % p for p in t["rethrow"]) + "].")
    L.append("")
    L.append("Definition gen_tables : tables :=")
    L.append("  {| t_kwtypes := gen_kwtypes; t_defaults := gen_defaults; t_stages := gen_stages;")
    L.append("     t_methods := gen_methods; t_rethrow := gen_rethrow |}.")
    L.append("")
    # ---- bodies (wave 2): predicates.hpp operator(), every use of a predicate, stichwort container
    L.append("(* predicates.hpp: the body of operator()(T v) of every predicate object *)")
    ps = sorted(t["preds"].items(), key=lambda kv: kv[1]["id"])
    for name, pr in ps:
        L.append("Definition gen_pred_%s : pbody :=" % name)
        L.append("  {| pb_id := %d; pb_nargs := %d; pb_conj := [%s] |}." % (
            pr["id"], pr["nargs"], "; ".join("(%s, %s)" % (op, coq_operand(o)) for op, o in pr["conj"])))
    L.append("Definition gen_predicates : list pbody := [" + "; ".join("gen_pred_" + n for n, _ in ps) + "].")
    L.append("")
    L.append("(* every parameters[k].checked().satisfies(P<T>(args)) in the order of Validate_Model.checks_of *)")
    L.append("Definition gen_pred_uses : list pred_use :=")
    L.append("  [" + ";\n   ".join(
        "{| pu_pred := %d; pu_kw := %d; pu_ty := %s; pu_args := [%s] |}" % (
            c["pred_id"], kws[c["kw"]]["id"], c["ty"], "; ".join(coq_bexpr(a) for a in c["args"]))
        for c in all_checks(t)) + "].")
    L.append("")
    ct = t["container"]
    L.append("(* stichwort/parameter.hpp: members of ParametersSet / Parameter (see Validate_Model.container) *)")
    L.append("Definition gen_container : container :=")
    L.append("  {| ct_check := %s;" % coq_cstmt(ct["check"]))
    L.append("     ct_check_types := %s;" % coq_cstmt(ct["check_types"]))
    L.append("     ct_add := %s;" % coq_cstmt(ct["add"]))
    L.append("     ct_merge := %s;" % coq_cstmt(ct["merge"]))
    L.append("     ct_index := %s;" % coq_cstmt(ct["index"]))
    L.append("     ct_comma_set := %s;" % coq_calls(ct["comma_set"]))
    L.append("     ct_comma_param := (%s, %s);" % (ct["comma_param"][0], coq_calls(ct["comma_param"][1])))
    L.append("     ct_to_set := (%s, %s) |}." % (ct["to_set"][0], coq_calls(ct["to_set"][1])))
    L.append("")
    cy = ct["copying"]
    L.append("(* stichwort/parameter.hpp: copy constructor and operator= of ParametersSet (see Validate_Model.copying) *)")
    L.append("Definition gen_copying : copying :=")
    L.append("  {| cy_ctor := [%s]; cy_assign := %s [%s] |}." % ("; ".join(cy["ctor"]), cy["assign"][0], "; ".join(cy["assign"][1])))
    L.append("")
    return "\n".join(L)


def coq_operand(o):
    if o[0] == "field":
        return "OField %d" % o[1]
    if o[0] == "int":
        return "OInt %s" % coq_Z(o[1])
    if o[0] == "real":
        return "OReal %s" % coq_Q(o[1])
    return "OEpsilon"


def coq_cstmt(e):
    if not isinstance(e, tuple):
        return str(e)
    if len(e) == 1:
        return e[0]
    return "(" + " ".join([e[0]] + [coq_cstmt(x) for x in e[1:]]) + ")"


def coq_calls(calls):
    return "[" + "; ".join("%s %s" % c for c in calls) + "]"


def all_checks(t):
    """the check records in the order of Validate_Model.checks_of"""
    out = [s[1] for s in t["stages"] if s[0] == "SCheck"]
    for m in sorted(t["methods"].values(), key=lambda m: m["id"]):
        v, e = t["bodies"][m["ident"]]
        out += [x[1] for _, x in v if x[0] == "check"] + [x[1] for _, x in e if x[0] == "check"]
    return out


def js_value(v):
    k, x = v
    if k == "VScalar":
        return [k, [x.numerator, x.denominator]]
    return [k, x]


def emit_json(t):
    kws, methods = t["kws"], t["methods"]

    def js_check(c):
        def jb(b):
            return None if b is None else [b[0], js_bexpr(b[1])]
        return {"kw": kws[c["kw"]]["id"], "ty": c["ty"], "pred": c["pred"], "lo": jb(c["lo"]), "hi": jb(c["hi"])}

    def js_step(st):
        guards, x = st
        g = [({"gt": [kws[q["kw"]]["id"], q["ty"], [q["q"].numerator, q["q"].denominator]], "pos": q["pos"]}
              if q["kind"] == "gt" else
              {"kw": kws[q["kw"]]["id"], "val": js_value(q["val"]), "pos": q["pos"]}) for q in guards]
        if x[0] == "conv":
            return {"g": g, "conv": [kws[x[1]]["id"], x[2]]}
        if x[0] == "check":
            return {"g": g, "check": js_check(x[1])}
        return {"g": g, "eval": x[1]}

    def js_stage(s):
        if s[0] == "SCheck":
            return ["SCheck", js_check(s[1])]
        if s[0] in ("SConv", "SCancel", "SNeed", "SDispatch"):
            return [s[0], kws[s[1]]["id"]] + list(s[2:])
        return [s[0]]
    return {
        "keywords": [{"id": k["id"], "ident": k["ident"], "name": k["name"], "type": k["type"],
                      "default": js_value(k["default"]), "in_defaults": k["ident"] in t["defaults"]}
                     for k in sorted(kws.values(), key=lambda k: k["id"])],
        "methods": [{"id": m["id"], "ident": m["ident"], "name": m["name"],
                     "needs": [m["traits"]["needs_kernel"], m["traits"]["needs_distance"], m["traits"]["needs_features"]],
                     "handled": m["ident"] in t["handled"],
                     "validate": [js_step(s) for s in t["bodies"][m["ident"]][0]],
                     "embed": [js_step(s) for s in t["bodies"][m["ident"]][1]]}
                    for m in sorted(methods.values(), key=lambda m: m["id"])],
        "enums": t["enums"],
        "stages": [js_stage(s) for s in t["stages"]],
        "rethrow": t["rethrow"],
        "notes": t["notes"],
        "predicates": {n: {"id": pr["id"], "nargs": pr["nargs"],
                           "conj": [[op, [str(x) for x in o]] for op, o in pr["conj"]]} for n, pr in t["preds"].items()},
        "container": json.loads(json.dumps(t["container"])),
    }


def translate(repo):
    """-> (coq_text, json_object); raises TranslateError"""
    try:
        t = Translator(repo).run()
        return emit_coq(t), emit_json(t)
    except TranslateError:
        raise
    except (IndexError, KeyError, ValueError, AttributeError, TypeError) as ex:
        # a shape so unexpected that a helper tripped: still a loud failure, never a silent drop
        raise TranslateError("source shape not understood (%s: %s)" % (type(ex).__name__, ex))


# ----------------------------------------------------------------------------- self-test
SELF_TEST_MUTATIONS = [
    # (file under include/, old text, new text, what must change)
    ("tapkee/predicates.hpp", "        return v > 0;", "        return v > std::numeric_limits<T>::epsilon();", "Positivity operand"),
    ("stichwort/parameter.hpp", "            if (!pmap.count(each.first))", "            if (pmap.count(each.first))", "merge condition"),
    ("stichwort/parameter.hpp", "    pg.add(*this);\n    pg.add(p);\n", "    pg.add(*this);\n    pg.merge(p);\n", "first comma operator"),
    ("tapkee/predicates.hpp", "return (v >= lower) && (v < upper);", "return (v >= lower) && (v <= upper);", "InRange operator"),
    ("tapkee/methods/base.hpp", "InRange<IndexType>(3, n_vectors)", "InRange<IndexType>(2, n_vectors)", "num_neighbors lower bound"),
    ("tapkee/methods/tsne.hpp", "(n_vectors - 1) / 3.0", "(n_vectors - 1) / 2.0", "perplexity bound expression"),
    ("tapkee/defines/keywords.hpp", '("number of neighbors", 5)', '("number of neighbors", 6)', "default value"),
    ("tapkee/methods.hpp", "if (method.needs_distance && is_dummy<DistanceCallback>::value)",
     "if (method.needs_distance && is_dummy<KernelCallback>::value)", "callback test"),
    ("tapkee/embed.hpp", "        parameters.check();\n", "", "duplicate check removed"),
    ("tapkee/embed.hpp", "throw tapkee::wrong_parameter_error(ex.what());", "throw tapkee::wrong_parameter_type_error(ex.what());", "catch table"),
    ("tapkee/defines/methods.hpp", "static const DimensionReductionTraits RequiresKernel{true, false, false};",
     "static const DimensionReductionTraits RequiresKernel{true, true, false};", "traits"),
    ("tapkee/parameters/defaults.hpp", "tapkee::sne_theta = stichwort::by_default", "tapkee::sne_theta = stichwort::by_default, tapkee::method = stichwort::by_default", "default set"),
    ("tapkee/methods/diffusion_map.hpp", "parameters[gaussian_kernel_width].checked().satisfies(Positivity<ScalarType>()).orThrow();",
     "parameters[gaussian_kernel_width].checked().satisfies(NonNegativity<ScalarType>()).orThrow();", "predicate of a cell"),
    ("tapkee/methods/stochastic_proximity_embedding.hpp", "parameters[spe_global_strategy].is(false)", "parameters[spe_global_strategy].is(true)", "guard"),
    ("tapkee/methods/isomap.hpp", "find_neighbors_with(plain_distance)", "find_neighbors_with(kernel_distance)", "callback used first"),
    ("stichwort/parameter.hpp", "        if (pmap.count(p.name()))\n            dups.push_back(p.name());\n", "", "duplicate recording in add()"),
    ("stichwort/parameter.hpp", "            if (it != reference.pmap.end() && !each.second.hasSameTypeAs(it->second))",
     "            if (it == reference.pmap.end())\n                return;\n            if (!each.second.hasSameTypeAs(it->second))", "checkTypes early return"),
    ("stichwort/value_keeper.hpp", "        return getPolicy<T>() == policy;", "        return getPolicy<T>() == policy || true;", "type identity"),
    ("tapkee/predicates.hpp", "return (v >= lower) && (v <= upper);", "return (v > lower) && (v <= upper);", "InClosedRange operator"),
    ("tapkee/methods/landmark_isomap.hpp", "        parameters[target_dimension].checked()",
     "        Parameter::create(\"number of landmarks\", n_landmarks).checked().satisfies(InClosedRange<IndexType>(3, n_vectors)).orThrow();\n"
     "        parameters[target_dimension].checked()", "check on a derived quantity"),
    ("tapkee/methods/landmark_multidimensional_scaling.hpp", "InClosedRange<ScalarType>(3.0 / n_vectors, 1.0)",
     "InClosedRange<ScalarType>(3.0f / n_vectors, 1.0)", "bound computed in float"),
    ("stichwort/parameter.hpp", "        this->pmap = other.pmap;\n        this->dups = other.dups;\n", "        this->pmap = other.pmap;\n",
     "operator= forgets the duplicate list"),
    ("stichwort/parameter.hpp", "ParametersSet(const ParametersSet& other) : pmap(other.pmap), dups(other.dups)",
     "ParametersSet(const ParametersSet& other) : pmap(other.pmap), dups()", "copy constructor forgets the duplicate list"),
    ("stichwort/parameter.hpp", "    ParametersSet& operator=(const ParametersSet& other)\n    {\n        this->pmap = other.pmap;\n        this->dups = other.dups;\n",
     "    ParametersSet& operator=(ParametersSet other)\n    {\n        pmap.swap(other.pmap);\n", "copy-and-swap exchanges the map only"),
]


def self_test(repo, limit=None, scratch=None):
    """mutate a scratch copy of include/ and require the translator output to change (or the
    translation to fail loudly).  -> (number of mutations tried, [descriptions of missed ones])"""
    import shutil
    import tempfile
    own = scratch is None
    scratch = scratch or tempfile.mkdtemp(prefix="t_val_selftest_")
    try:
        shutil.rmtree(scratch, ignore_errors=True)
        os.makedirs(scratch)
        shutil.copytree(os.path.join(repo, "include"), os.path.join(scratch, "include"))
        base = json.dumps(translate(scratch)[1], sort_keys=True)
        missed, n = [], 0
        for rel, old, new, what in SELF_TEST_MUTATIONS[:limit]:
            path = os.path.join(scratch, "include", rel)
            if not os.path.exists(path):
                continue
            text = open(path).read()
            if old not in text:
                continue                      # the source moved on: this probe does not apply any more
            n += 1
            open(path, "w").write(text.replace(old, new, 1))
            try:
                changed = json.dumps(translate(scratch)[1], sort_keys=True) != base
            except TranslateError:
                changed = True                # a loud failure is fine: nothing is dropped silently
            finally:
                open(path, "w").write(text)
            if not changed:
                missed.append(what)
        return n, missed
    finally:
        shutil.rmtree(scratch, ignore_errors=True)


def write_if_changed(path, text):
    old = open(path).read() if os.path.exists(path) else None
    if old != text:
        os.makedirs(os.path.dirname(path), exist_ok=True)
        tmp = path + ".tmp%d" % os.getpid()
        open(tmp, "w").write(text)
        os.replace(tmp, path)
        return True
    return False


def main():
    import argparse
    ap = argparse.ArgumentParser()
    ap.add_argument("--repo", default=os.environ.get("VERIF_REPO", "/repo"))
    ap.add_argument("--out", default=None)
    ap.add_argument("--json", default=None)
    ap.add_argument("--print", action="store_true")
    ap.add_argument("--self-test", action="store_true")
    a = ap.parse_args()
    if a.self_test:
        n, missed = self_test(a.repo)
        print("T-val self-test: %d mutations, missed: %s" % (n, missed or "none"))
        sys.exit(1 if missed or n == 0 else 0)
    try:
        coq, js = translate(a.repo)
    except TranslateError as ex:
        print("T-val FAILED: " + str(ex))
        sys.exit(2)
    if a.out:
        print("written" if write_if_changed(a.out, coq) else "unchanged", a.out)
    if a.json:
        write_if_changed(a.json, json.dumps(js, indent=1, sort_keys=True))
    if a.print or not (a.out or a.json):
        print(coq)


if __name__ == "__main__":
    main()
