#!/usr/bin/env python3
"""T-pca: extract the statement chain of PrincipalComponentAnalysisImplementation::embed().

    python3 translate/t_pca.py [--repo /repo] [--out coq/gen/PcaEmbed.v]
    python3 translate/t_pca.py --self-test

Reads   include/tapkee/methods/pca.hpp   (embed() of __TAPKEE_IMPLEMENTATION(PrincipalComponentAnalysis))
        include/tapkee/methods/base.hpp  (eigendecomposition_via)
and writes a Coq list of (name, initialiser) pairs, one per statement of embed(), white space removed and
LOCAL identifiers alpha-renamed to L0, L1, ... in order of declaration (so renaming a local is harmless),
the last one being ("return", <returned expression>).  `new T(args)` wrapped in a ProjectingFunction
initialiser is recorded as the initialiser.  Obligations (coq/Pca_Tie.v, vm_compute): the chain is
   L0 = compute_mean(begin,end,features,current_dimension)
   L1 = compute_covariance_matrix(begin,end,L0,features,current_dimension)
   L2 = eigendecomposition_via(LargestEigenvalues,L1,parameters[target_dimension])
   L3 = new tapkee::MatrixProjectionImplementation(L2.first,L0)
   return TapkeeOutput(project(L2.first,L0,begin,end,features,current_dimension),L3)
which is what coq/Pca_Model.v mirrors.  Anything not understood raises TranslateError.
"""
import argparse
import os
import re
import shutil
import sys
import tempfile

PCA = "include/tapkee/methods/pca.hpp"
BASE = "include/tapkee/methods/base.hpp"


class TranslateError(Exception):
    pass


def strip_comments(s):
    s = re.sub(r"/\*.*?\*/", lambda m: " " * len(m.group(0)), s, flags=re.S)
    return re.sub(r"//[^\n]*", "", s)


def match_close(s, i, o, c):
    depth = 0
    for j in range(i, len(s)):
        if s[j] == o:
            depth += 1
        elif s[j] == c:
            depth -= 1
            if depth == 0:
                return j
    raise TranslateError("unbalanced " + o)


def norm(s):
    return re.sub(r"\s+", "", s)


def split_statements(body):
    out, depth, cur = [], 0, ""
    for ch in body:
        if ch in "([{":
            depth += 1
        elif ch in ")]}":
            depth -= 1
        if ch == ";" and depth == 0:
            if cur.strip():
                out.append(cur.strip())
            cur = ""
        else:
            cur += ch
    if cur.strip():
        raise TranslateError("trailing text after the last statement: %r" % cur.strip()[:60])
    return out


def parse_embed(path):
    src = strip_comments(open(path).read())
    m = re.search(r"__TAPKEE_IMPLEMENTATION\s*\(\s*PrincipalComponentAnalysis\s*\)", src)
    if not m:
        raise TranslateError("PrincipalComponentAnalysis implementation not found")
    em = re.compile(r"TapkeeOutput\s+embed\s*\(\s*\)\s*(?:const\s*)?\{").search(src, m.end())
    if not em:
        raise TranslateError("embed() not found")
    k = em.end() - 1
    body = src[k + 1:match_close(src, k, "{", "}")]
    stmts = []
    for st in split_statements(body):
        if re.match(r"(if|for|while|switch|do)\b", st):
            raise TranslateError("control flow in PCA embed(): %r" % st[:60])
        r = re.match(r"return\b(.*)$", st, re.S)
        if r:
            stmts.append(("return", norm(r.group(1))))
            continue
        d = re.match(r"(?:const\s+)?[\w:<>,\s&\*]+?\b(\w+)\s*=\s*(.*)$", st, re.S)
        if d:
            stmts.append((d.group(1), norm(d.group(2))))
            continue
        d = re.match(r"(?:const\s+)?[\w:<>,&\*]+(?:\s+[\w:<>,&\*]+)*\s+(\w+)\s*\((.*)\)$", st, re.S)
        if d:
            stmts.append((d.group(1), norm(d.group(2))))
            continue
        raise TranslateError("statement not understood: %r" % st[:80])
    if not stmts or stmts[-1][0] != "return":
        raise TranslateError("embed() does not end with a return statement")
    # alpha-rename locals
    names = [n for n, _ in stmts if n != "return"]
    if len(set(names)) != len(names):
        raise TranslateError("a local is declared twice")
    ren = {n: "L%d" % i for i, n in enumerate(names)}

    def rename(expr):
        return re.sub(r"\b(%s)\b" % "|".join(map(re.escape, names)), lambda mm: ren[mm.group(1)], expr) if names else expr
    return [(ren.get(n, n), rename(e)) for n, e in stmts]


def parse_via(path):
    src = strip_comments(open(path).read())
    m = re.search(r"EigendecompositionResult\s+eigendecomposition_via\s*\(([^)]*)\)\s*\{(.*?)\}", src, re.S)
    if not m:
        raise TranslateError("eigendecomposition_via not found")
    params = [norm(p).split("&")[-1] for p in m.group(1).split(",")]
    params = [re.sub(r"^(const)?\w*?(\w+)$", r"\2", p) for p in params]
    body = [s for s in split_statements(m.group(2))]
    if len(body) != 1 or not body[0].startswith("return"):
        raise TranslateError("eigendecomposition_via is not a single return statement")
    return norm(body[0][len("return"):])


def parse(repo):
    return {"stmts": parse_embed(os.path.join(repo, PCA)), "via": parse_via(os.path.join(repo, BASE))}


def cstr(s):
    return '"%s"' % s.replace('"', '""')


def emit(tab):
    L = ["(* GENERATED by translate/t_pca.py from include/tapkee/methods/pca.hpp and base.hpp. DO NOT EDIT. *)",
         "Require Import List String.",
         "Import ListNotations.",
         "Open Scope string_scope.",
         "",
         "Definition pca_embed_stmts : list (string * string) := ["]
    L.append(";\n".join("  (%s, %s)" % (cstr(n), cstr(e)) for n, e in tab["stmts"]))
    L.append("].")
    L.append("")
    L.append("Definition eigendecomposition_via_returns : string := %s." % cstr(tab["via"]))
    return "\n".join(L) + "\n"


def write_if_changed(path, text):
    os.makedirs(os.path.dirname(path), exist_ok=True)
    if os.path.exists(path) and open(path).read() == text:
        return False
    tmp = path + ".tmp%d" % os.getpid()
    open(tmp, "w").write(text)
    os.replace(tmp, path)
    return True


MUTATIONS = [
    (PCA, "eigendecomposition_via(LargestEigenvalues,", "eigendecomposition_via(SmallestEigenvalues,"),
    (PCA, "compute_covariance_matrix(begin, end, mean_vector, features, current_dimension)",
     "compute_covariance_matrix(begin, end, DenseVector::Zero(current_dimension), features, current_dimension)"),
    (PCA, "DenseVector mean_vector = compute_mean(begin, end, features, current_dimension);",
     "DenseVector mean_vector = DenseVector::Zero(current_dimension);"),
    (PCA, "parameters[target_dimension]);", "parameters[target_dimension] + 1);"),
    (PCA, "project(projection_result.first, mean_vector,", "project(projection_result.first.rowwise().reverse(), mean_vector,"),
    (BASE, "            eigen_strategy,\n", "            SmallestEigenvalues,\n"),
]


def self_test(repo):
    base = emit(parse(repo))
    ok = True
    for rel, old, new in MUTATIONS:
        d = tempfile.mkdtemp(prefix="t_pca_selftest_")
        try:
            for r in (PCA, BASE):
                os.makedirs(os.path.dirname(os.path.join(d, r)), exist_ok=True)
                shutil.copy(os.path.join(repo, r), os.path.join(d, r))
            p = os.path.join(d, rel)
            s = open(p).read()
            if old not in s:
                print("self-test: pattern not present (source drifted?): %r" % old[:60])
                ok = False
                continue
            open(p, "w").write(s.replace(old, new, 1))
            try:
                changed = emit(parse(d)) != base
            except TranslateError:
                changed = True
            print("self-test: %-70s -> %s" % (old.strip()[:70], "table changed" if changed else "NOT DETECTED"))
            ok = ok and changed
        finally:
            shutil.rmtree(d, ignore_errors=True)
    # a harmless rename of a local must NOT change the table
    d = tempfile.mkdtemp(prefix="t_pca_selftest_")
    try:
        for r in (PCA, BASE):
            os.makedirs(os.path.dirname(os.path.join(d, r)), exist_ok=True)
            shutil.copy(os.path.join(repo, r), os.path.join(d, r))
        p = os.path.join(d, PCA)
        text = open(p).read().replace("mean_vector", "mu")
        open(p, "w").write(text)
        same = emit(parse(d)) == base
        print("self-test: renaming a local leaves the table unchanged -> %s" % ("ok" if same else "CHANGED"))
        ok = ok and same
    finally:
        shutil.rmtree(d, ignore_errors=True)
    return ok


def main():
    here = os.path.dirname(os.path.dirname(os.path.abspath(__file__)))
    ap = argparse.ArgumentParser()
    ap.add_argument("--repo", default=os.environ.get("VERIF_REPO", "/repo"))
    ap.add_argument("--out", default=os.path.join(here, "coq", "gen", "PcaEmbed.v"))
    ap.add_argument("--self-test", action="store_true")
    ap.add_argument("--print", action="store_true")
    a = ap.parse_args()
    if a.self_test:
        sys.exit(0 if self_test(a.repo) else 1)
    text = emit(parse(a.repo))
    if a.print:
        sys.stdout.write(text)
        return
    changed = write_if_changed(a.out, text)
    print("t_pca: %s %s" % (a.out, "rewritten" if changed else "unchanged"))


if __name__ == "__main__":
    main()
